package smtp

// C03 harness (injected into internal/endpoint/smtp by overlay; monitor
// modules come from the overlay-only package internal/verifx).
//
// A real endpoint (smtp or lmtp module, configured through the real directive
// parsers: limits, checks, modifiers, destination rules, monitor targets) is
// started on a loopback listener; a raw-socket client plays a generated command
// sequence. Oracle: typestate of every delivery, reply/commit agreement, all
// permits returned, reply codes coherent.

import (
	"bufio"
	"context"
	"fmt"
	"net"
	"os"
	"runtime"
	"sort"
	"strconv"
	"strings"
	"testing"
	"time"

	"github.com/foxcpp/go-mockdns"
	"github.com/foxcpp/maddy/framework/address"
	"github.com/foxcpp/maddy/framework/config"
	"github.com/foxcpp/maddy/framework/log"
	"github.com/foxcpp/maddy/internal/verifx"
	"pgregory.net/rapid"
	"verifkit/ev"
)

type c03Step struct {
	Op       string `json:"op"`
	Addr     string `json:"addr,omitempty"`
	Params   string `json:"params,omitempty"`
	Payload  int    `json:"payload,omitempty"`
	CutAt    int    `json:"cut_at,omitempty"` // DATA: disconnect after this many payload bytes (0 = send everything)
	Chunks   []int  `json:"chunks,omitempty"`
	NoLast   bool   `json:"no_last,omitempty"`
	Pipeline bool   `json:"pipeline,omitempty"`
}

type c03Scenario struct {
	LMTP           bool              `json:"lmtp"`
	Defer          bool              `json:"defer_sender_reject"`
	T2Partial      bool              `json:"t2_partial"`
	TwoTargets     bool              `json:"example_net_two_targets"`
	DefaultDeliver bool              `json:"default_deliver"`
	Check          string            `json:"check,omitempty"` // "", reject, quarantine
	Modifier       bool              `json:"modifier,omitempty"`
	LimitN         int               `json:"limit_n"`      // 0: no limits block
	LimitScopes    []string          `json:"limit_scopes"` // all ip source
	Faults         map[string]string `json:"faults,omitempty"`
	Steps          []c03Step         `json:"steps"`
}

var (
	c03Senders  = []string{"s@example.com", "S@EXAMPLE.COM", "s@EXAMPLE.com", "s@xn--e1aybc.example", "", "s@other.example", "u@тест.example", "not an address", "@", "s@sub.example.com"}
	c03Rcpts    = []string{"a@example.org", "a@EXAMPLE.org", "a@Example.Org", "b@example.org", "c@example.net", "d@example.net", "e@other.test", "A@EXAMPLE.ORG", "ü@example.org", "nodomain", "f@example.net"}
	c03Payloads = []string{
		"From: <s@example.com>\r\nSubject: hi\r\n\r\nbody line\r\n.leading dot\r\n",
		"Subject: minimal\r\n\r\n",
		strings.Repeat("Received: from a by b; date\r\n", 60) + "Subject: loop\r\n\r\nx\r\n",
		"no header at all, just text\r\n",
		"Subject: long\r\n\r\n" + strings.Repeat("0123456789abcdef0123456789abcdef0123456789abcdef0123456789abcdef\r\n", 40),
		"TLS-Required: No\r\nSubject: override\r\n\r\nx\r\n",
	}
	c03FaultKeys = []string{"t1/start", "t1/rcpt", "t1/body", "t1/commit", "t1/abort", "t2/start", "t2/rcpt", "t2/body", "t2/status", "t2/commit", "t3/start", "t3/rcpt", "t3/body", "t3/commit",
		"chk:c1/conn", "chk:c1/sender", "chk:c1/rcpt", "chk:c1/body", "chk:c1/init", "mod:m1/init", "mod:m1/sender", "mod:m1/rcpt", "mod:m1/body"}
)

func c03Gen(t *rapid.T) c03Scenario {
	sc := c03Scenario{
		LMTP: rapid.IntRange(0, 2).Draw(t, "lmtp") == 0, Defer: rapid.Bool().Draw(t, "defer"),
		T2Partial: rapid.Bool().Draw(t, "t2partial"), TwoTargets: rapid.Bool().Draw(t, "twotargets"), DefaultDeliver: rapid.Bool().Draw(t, "defaultdeliver"),
		Check: rapid.SampledFrom([]string{"", "", "reject", "quarantine"}).Draw(t, "check"), Modifier: rapid.IntRange(0, 2).Draw(t, "modifier") == 0,
		LimitN: rapid.SampledFrom([]int{0, 1, 1, 2, 3}).Draw(t, "limit_n"), Faults: map[string]string{},
	}
	if sc.LimitN > 0 {
		sc.LimitScopes = rapid.SliceOfNDistinct(rapid.SampledFrom([]string{"all", "ip", "source"}), 1, 3, rapid.ID[string]).Draw(t, "scopes")
		sort.Strings(sc.LimitScopes)
	}
	for i, n := 0, rapid.SampledFrom([]int{0, 0, 1, 1, 2}).Draw(t, "nfaults"); i < n; i++ {
		sc.Faults[rapid.SampledFrom(c03FaultKeys).Draw(t, "faultkey")] = rapid.SampledFrom([]string{"T", "P", "U"}).Draw(t, "faultclass")
	}
	if sc.Modifier && rapid.Bool().Draw(t, "rewrite") {
		// the modifier rewrites every recipient: to an alias in the same domain, or to another spelling of the same mailbox
		sc.Faults["mod:m1/rewrite"] = rapid.SampledFrom([]string{"on", "case"}).Draw(t, "rewrite_kind")
		// what a rewrite can break shows when a target fails at the body stage of an LMTP transaction
		if rapid.IntRange(0, 2).Draw(t, "rewrite_lmtp") != 0 {
			sc.LMTP = true
			sc.Faults[rapid.SampledFrom([]string{"t1/body", "t2/body", "t2/status", "t3/body", "chk:c1/body"}).Draw(t, "rewrite_fault")] = rapid.SampledFrom([]string{"T", "P"}).Draw(t, "rewrite_faultclass")
		}
	}
	// state-aware command sequence
	state := "init"
	n := rapid.IntRange(2, 14).Draw(t, "nsteps")
	for i := 0; i < n; i++ {
		var ops []string
		switch state {
		case "init":
			ops = []string{"EHLO", "EHLO", "EHLO", "MAIL", "NOOP", "QUIT"}
		case "greeted":
			ops = []string{"MAIL", "MAIL", "MAIL", "MAIL", "RCPT", "DATA", "RSET", "NOOP", "EHLO", "QUIT", "DROP"}
		case "mail":
			ops = []string{"RCPT", "RCPT", "RCPT", "RCPT", "RCPT", "DATA", "RSET", "MAIL", "NOOP", "QUIT", "DROP"}
		default: // rcpt
			ops = []string{"RCPT", "RCPT", "DATA", "DATA", "DATA", "DATA", "BDAT", "RSET", "MAIL", "NOOP", "QUIT", "DROP", "EHLO"}
		}
		st := c03Step{Op: rapid.SampledFrom(ops).Draw(t, "op")}
		switch st.Op {
		case "EHLO":
			state = "greeted"
		case "MAIL":
			st.Addr = rapid.SampledFrom(c03Senders).Draw(t, "sender")
			st.Params = rapid.SampledFrom([]string{"", "", "", " SMTPUTF8", " BODY=8BITMIME", " SIZE=1000", " REQUIRETLS", " BOGUS=1"}).Draw(t, "params")
			if state != "init" {
				state = "mail"
			}
		case "RCPT":
			st.Addr = rapid.SampledFrom(c03Rcpts).Draw(t, "rcpt")
			if state == "mail" || state == "rcpt" {
				state = "rcpt"
			}
		case "DATA":
			st.Payload = rapid.IntRange(0, len(c03Payloads)-1).Draw(t, "payload")
			if rapid.IntRange(0, 7).Draw(t, "cut") == 0 {
				st.CutAt = rapid.IntRange(1, len(c03Payloads[st.Payload])).Draw(t, "cut_at")
			}
			if state != "init" {
				state = "greeted"
			}
		case "BDAT":
			st.Payload = rapid.IntRange(0, len(c03Payloads)-1).Draw(t, "payload")
			total := len(c03Payloads[st.Payload])
			for k, m := 0, rapid.IntRange(1, 3).Draw(t, "nchunks"); k < m; k++ {
				st.Chunks = append(st.Chunks, rapid.IntRange(0, total).Draw(t, "chunk"))
			}
			st.NoLast = rapid.IntRange(0, 5).Draw(t, "nolast") == 0
			state = "greeted"
		case "RSET":
			if state != "init" {
				state = "greeted"
			}
		}
		if st.Op != "DATA" && st.Op != "BDAT" && st.Op != "QUIT" && st.Op != "DROP" {
			st.Pipeline = rapid.IntRange(0, 3).Draw(t, "pipeline") == 0
		}
		sc.Steps = append(sc.Steps, st)
		if st.Op == "QUIT" || st.Op == "DROP" || (st.Op == "DATA" && st.CutAt > 0) {
			break
		}
	}
	return sc
}

// ---- endpoint ----------------------------------------------------------------------------------------

func c03Endpoint(sc c03Scenario) (*Endpoint, string, error) {
	name := "smtp"
	if sc.LMTP {
		name = "lmtp"
	}
	mod, err := New(name, []string{"tcp://" + c03ListenIP() + ":0"})
	if err != nil {
		return nil, "", err
	}
	endp := mod.(*Endpoint)
	endp.resolver = &mockdns.Resolver{Zones: map[string]mockdns.Zone{"1.0.0.127.in-addr.arpa.": {PTR: []string{"client.example.com"}}}}
	endp.Log = log.Logger{Out: log.NopOutput{}}
	kind := func(id string, partial bool) []string {
		if partial {
			return []string{"verif_mon", id, "partial"}
		}
		return []string{"verif_mon", id}
	}
	cfg := []config.Node{
		{Name: "hostname", Args: []string{"mx.maddy.test"}},
		{Name: "tls", Args: []string{"off"}},
		{Name: "defer_sender_reject", Args: []string{map[bool]string{true: "yes", false: "no"}[sc.Defer]}},
		{Name: "max_received", Args: []string{"50"}},
	}
	if sc.LimitN > 0 {
		var ls []config.Node
		for _, s := range sc.LimitScopes {
			ls = append(ls, config.Node{Name: s, Args: []string{"concurrency", strconv.Itoa(sc.LimitN)}})
		}
		cfg = append(cfg, config.Node{Name: "limits", Children: ls})
	}
	if sc.Check != "" {
		cfg = append(cfg, config.Node{Name: "check", Children: []config.Node{{Name: "verif_chk", Args: []string{"c1"}, Children: []config.Node{{Name: "fail_action", Args: []string{sc.Check}}}}}})
	}
	if sc.Modifier {
		cfg = append(cfg, config.Node{Name: "modify", Children: []config.Node{{Name: "verif_mod", Args: []string{"m1"}}}})
	}
	net2 := []config.Node{{Name: "deliver_to", Args: kind("t2", sc.T2Partial)}}
	if sc.TwoTargets {
		net2 = append(net2, config.Node{Name: "deliver_to", Args: kind("t3", false)})
	}
	def := []config.Node{{Name: "reject", Args: []string{"550", "5.1.1", "no such user"}}}
	if sc.DefaultDeliver {
		def = []config.Node{{Name: "deliver_to", Args: kind("t3", false)}}
	}
	cfg = append(cfg,
		config.Node{Name: "destination", Args: []string{"example.org"}, Children: []config.Node{{Name: "deliver_to", Args: kind("t1", false)}}},
		config.Node{Name: "destination", Args: []string{"example.net"}, Children: net2},
		config.Node{Name: "default_destination", Children: def},
	)
	if err := endp.Init(config.NewMap(nil, config.Node{Children: cfg})); err != nil {
		return nil, "", err
	}
	endp.pipeline.Log = log.Logger{Out: log.NopOutput{}}
	endp.pipeline.Resolver = endp.resolver
	if os.Getenv("VERIF_DEBUG") != "" {
		endp.Log = log.Logger{Out: log.WriterOutput(os.Stderr, false), Debug: true, Name: "smtp"}
		endp.serv.ErrorLog = endp.Log
	}
	return endp, endp.listeners[0].Addr().String(), nil
}

func c03Targets(sc c03Scenario, rcpt string) []string {
	clean, err := address.CleanDomain(rcpt)
	if err != nil {
		return nil
	}
	_, dom, err := address.Split(clean)
	if err != nil {
		return nil
	}
	switch dom {
	case "example.org":
		return []string{"t1"}
	case "example.net":
		if sc.TwoTargets {
			return []string{"t2", "t3"}
		}
		return []string{"t2"}
	}
	if sc.DefaultDeliver {
		return []string{"t3"}
	}
	return nil
}

// every shard uses its own loopback address, so that sockets in TIME_WAIT of
// other shards never exhaust the ephemeral port range
func c03ListenIP() string {
	return fmt.Sprintf("127.0.%d.1", 1+ev.EnvInt("VERIF_SHARD", 0)%200)
}

// ---- client ------------------------------------------------------------------------------------------------

type c03Reply struct {
	Code int
	Ench string
	Text string
}

type c03Client struct {
	conn net.Conn
	r    *bufio.Reader
	log  []string
}

func (c *c03Client) readReply() (c03Reply, error) {
	var rep c03Reply
	for {
		c.conn.SetReadDeadline(time.Now().Add(20 * time.Second))
		line, err := c.r.ReadString('\n')
		if err != nil {
			return rep, err
		}
		line = strings.TrimRight(line, "\r\n")
		c.log = append(c.log, "S: "+line)
		if len(line) < 3 {
			return rep, fmt.Errorf("short reply line %q", line)
		}
		code, err := strconv.Atoi(line[:3])
		if err != nil {
			return rep, fmt.Errorf("bad reply line %q", line)
		}
		rep.Code = code
		rest := ""
		if len(line) > 4 {
			rest = line[4:]
		}
		if rep.Text == "" {
			f := strings.Fields(rest)
			if len(f) > 0 && strings.Count(f[0], ".") == 2 && len(f[0]) >= 5 && f[0][0] >= '2' && f[0][0] <= '5' {
				rep.Ench = f[0]
			}
		}
		rep.Text += rest + "\n"
		if len(line) == 3 || line[3] == ' ' {
			return rep, nil
		}
	}
}

func (c *c03Client) send(s string) error {
	c.log = append(c.log, "C: "+strings.TrimRight(s, "\r\n"))
	c.conn.SetWriteDeadline(time.Now().Add(20 * time.Second))
	_, err := c.conn.Write([]byte(s))
	return err
}

type c03Tx struct {
	Start    int // index into the monitor event log when MAIL was accepted
	End      int
	Sender   string
	Accepted []string
	Final    []c03Reply // DATA/BDAT final replies (LMTP: one per accepted recipient)
	Ended    string     // data rset mail quit drop cut
	// go-smtp still held recipients of an abandoned transaction (repeated EHLO/LHLO) when the data
	// command of this one was issued
	StaleWire bool
}

type c03Result struct {
	Txs        []*c03Tx
	Replies    []c03Reply
	Log        []string
	HarnessErr string
	ClientIP   net.IP
}

func dotStuff(p string) string {
	p = strings.ReplaceAll(p, "\r\n.", "\r\n..")
	if strings.HasPrefix(p, ".") {
		p = "." + p
	}
	if !strings.HasSuffix(p, "\r\n") {
		p += "\r\n"
	}
	return p
}

func c03Play(sc c03Scenario, addr string, rec *verifx.Recorder) (res c03Result) {
	conn, err := net.DialTimeout("tcp", addr, 3*time.Second)
	if err != nil {
		res.HarnessErr = "dial: " + err.Error()
		return
	}
	defer func() {
		// abortive close: no TIME_WAIT socket is left behind
		if tc, ok := conn.(*net.TCPConn); ok {
			tc.SetLinger(0)
		}
		conn.Close()
	}()
	res.ClientIP = conn.LocalAddr().(*net.TCPAddr).IP
	c := &c03Client{conn: conn, r: bufio.NewReader(conn)}
	defer func() { res.Log = c.log }()
	if _, err := c.readReply(); err != nil {
		res.HarnessErr = "greeting: " + err.Error()
		return
	}
	chunking := false
	var tx *c03Tx
	// What go-smtp holds as the recipients of the connection: appended by every accepted RCPT, cleared by
	// RSET and at the end of DATA / BDAT - but not by a repeated EHLO/LHLO (go-smtp's handleGreet does not
	// reset the envelope). LMTP sends one final reply per entry of this list, in this order.
	var wire []*c03Tx
	pending := []c03Step{}
	sentAt := []int{} // monitor log position when each pending command was sent
	endAt := -1       // position of the command that ends the transaction, when known
	endTx := func(how string) {
		if tx != nil {
			tx.End = len(rec.Snapshot())
			if endAt >= 0 && endAt < tx.End {
				tx.End = endAt
			}
			tx.Ended = how
			res.Txs = append(res.Txs, tx)
			tx = nil
		}
	}
	handle := func(st c03Step, rep c03Reply, sent int) {
		res.Replies = append(res.Replies, rep)
		endAt = sent
		defer func() { endAt = -1 }()
		switch st.Op {
		case "EHLO":
			if rep.Code == 250 {
				chunking = strings.Contains(rep.Text, "CHUNKING")
				endTx("ehlo") // EHLO resets the transaction
			}
		case "MAIL":
			if rep.Code/100 == 2 {
				endTx("mail")
				// everything the server did for this transaction was logged after the command was sent
				tx = &c03Tx{Start: sent, Sender: st.Addr}
			}
		case "RCPT":
			if rep.Code/100 == 2 {
				wire = append(wire, tx)
			}
			if rep.Code/100 == 2 && tx != nil {
				tx.Accepted = append(tx.Accepted, st.Addr)
			}
		case "RSET":
			if rep.Code/100 == 2 {
				wire = nil
				endTx("rset")
			}
		}
	}
	flush := func() error {
		for i, st := range pending {
			rep, err := c.readReply()
			if err != nil {
				return err
			}
			handle(st, rep, sentAt[i])
		}
		pending = pending[:0]
		sentAt = sentAt[:0]
		return nil
	}
	for _, st := range sc.Steps {
		switch st.Op {
		case "EHLO", "MAIL", "RCPT", "RSET", "NOOP":
			var line string
			switch st.Op {
			case "EHLO":
				line = "EHLO client.example.com\r\n"
				if sc.LMTP {
					line = "LHLO client.example.com\r\n"
				}
			case "MAIL":
				line = "MAIL FROM:<" + st.Addr + ">" + st.Params + "\r\n"
			case "RCPT":
				line = "RCPT TO:<" + st.Addr + ">\r\n"
			default:
				line = st.Op + "\r\n"
			}
			at := len(rec.Snapshot())
			if err := c.send(line); err != nil {
				res.HarnessErr = "write: " + err.Error()
				return
			}
			pending = append(pending, st)
			sentAt = append(sentAt, at)
			if !st.Pipeline {
				if err := flush(); err != nil {
					res.HarnessErr = "read: " + err.Error()
					return
				}
			}
		case "QUIT":
			flush()
			c.send("QUIT\r\n")
			c.readReply()
			endTx("quit")
			return
		case "DROP":
			flush()
			endTx("drop")
			return
		case "DATA", "BDAT":
			if err := flush(); err != nil {
				res.HarnessErr = "read: " + err.Error()
				return
			}
			payload := c03Payloads[st.Payload]
			nFinal := 1
			if sc.LMTP && len(wire) > 0 {
				nFinal = len(wire)
			}
			// final reply k belongs to wire[k]; replies for recipients of an abandoned transaction (kept by
			// go-smtp across a repeated LHLO) are counted and not attributed to the current transaction
			for _, w := range wire {
				if tx != nil && w != tx {
					tx.StaleWire = true
				}
			}
			final := func(k int, rep c03Reply) {
				if sc.LMTP && len(wire) > 0 && (k >= len(wire) || wire[k] != tx || tx == nil) {
					ev.Get("C03").AddExtra("observed_not_asserted_lmtp_reply_for_recipient_of_abandoned_transaction", 1)
					return
				}
				if tx != nil {
					tx.Final = append(tx.Final, rep)
				}
			}
			// A BDAT command that the server refuses outright (no accepted recipient) leaves its chunk
			// unread on the wire, which desynchronises the dialogue; use DATA in that case.
			if st.Op == "BDAT" && chunking && tx != nil && len(tx.Accepted) > 0 && len(wire) > 0 {
				off := 0
				failed := false
				for i, sz := range st.Chunks {
					if off+sz > len(payload) {
						sz = len(payload) - off
					}
					last := i == len(st.Chunks)-1 && !st.NoLast
					if last {
						sz = len(payload) - off
					}
					cmd := fmt.Sprintf("BDAT %d", sz)
					if last {
						cmd += " LAST"
					}
					if err := c.send(cmd + "\r\n" + payload[off:off+sz]); err != nil {
						res.HarnessErr = "write: " + err.Error()
						return
					}
					off += sz
					n := 1
					if last {
						n = nFinal
					}
					for k := 0; k < n; k++ {
						rep, err := c.readReply()
						if err != nil {
							res.HarnessErr = "read after BDAT: " + err.Error()
							return
						}
						res.Replies = append(res.Replies, rep)
						if last {
							final(k, rep)
						}
						if rep.Code/100 != 2 {
							failed = true
							// per-recipient LMTP replies start with the recipient in angle brackets and are
							// all sent; a reply to the BDAT command itself stands alone
							if !(last && sc.LMTP && strings.HasPrefix(strings.TrimSpace(strings.TrimPrefix(strings.TrimSpace(rep.Text), rep.Ench)), "<")) {
								break
							}
						}
					}
					if failed || last {
						break
					}
				}
				if failed || !st.NoLast {
					wire = nil
					endTx("data")
				}
				continue
			}
			if err := c.send("DATA\r\n"); err != nil {
				res.HarnessErr = "write: " + err.Error()
				return
			}
			rep, err := c.readReply()
			if err != nil {
				res.HarnessErr = "read after DATA: " + err.Error()
				return
			}
			res.Replies = append(res.Replies, rep)
			if rep.Code != 354 {
				continue
			}
			body := dotStuff(payload)
			if st.CutAt > 0 && st.CutAt < len(body) {
				c.send(body[:st.CutAt])
				endTx("cut")
				return
			}
			if err := c.send(body + ".\r\n"); err != nil {
				res.HarnessErr = "write: " + err.Error()
				return
			}
			for k := 0; k < nFinal; k++ {
				rep, err := c.readReply()
				if err != nil {
					res.HarnessErr = "read final reply: " + err.Error()
					return
				}
				res.Replies = append(res.Replies, rep)
				final(k, rep)
			}
			wire = nil
			endTx("data")
		}
	}
	flush()
	endTx("drop")
	return
}

// ---- the property -------------------------------------------------------------------------------------------

func c03Run(sc c03Scenario) (vs []ev.V) {
	rec := verifx.Reset()
	for k, v := range sc.Faults {
		rec.Faults[k] = v
	}
	endp, addr, err := c03Endpoint(sc)
	for try := 0; err != nil && strings.Contains(err.Error(), "address already in use") && try < 50; try++ {
		time.Sleep(100 * time.Millisecond)
		endp, addr, err = c03Endpoint(sc)
	}
	if err != nil {
		ev.Get("C03").HarnessError("cannot start the endpoint: %v", err)
		return nil
	}
	res := c03Play(sc, addr, rec)
	// wait for the session to end on the server side
	deadline := time.Now().Add(20 * time.Second)
	for endp.ConnectionCount() != 0 && time.Now().Before(deadline) {
		time.Sleep(200 * time.Microsecond)
	}
	sessionEnded := endp.ConnectionCount() == 0
	endp.Close()
	c03Last = res
	if res.HarnessErr != "" && (strings.Contains(res.HarnessErr, "timeout") || strings.Contains(res.HarnessErr, "deadline")) {
		// a server that stops answering; reported separately so that it is not mistaken for a protocol result
		return []ev.V{ev.Vf("session:no-reply", "the server did not answer within 20 s: %s\n%s", res.HarnessErr, strings.Join(res.Log, "\n"))}
	}
	// any other I/O error means the server closed the connection (e.g. after too many bad commands
	// when the client's BDAT data was not consumed); the dialogue simply ends there
	if !sessionEnded {
		buf := make([]byte, 1<<18)
		buf = buf[:runtime.Stack(buf, true)]
		var stuck []string
		for _, g := range strings.Split(string(buf), "\n\n") {
			if strings.Contains(g, "go-smtp") || strings.Contains(g, "endpoint/smtp.(*Session)") {
				stuck = append(stuck, g)
			}
		}
		shape := "other"
		nEhlo := 0
		for _, st := range sc.Steps {
			if st.Op == "EHLO" {
				nEhlo++
			}
			if st.Op == "BDAT" {
				shape = "bdat"
			}
		}
		if nEhlo > 1 && shape == "other" {
			shape = "repeated-EHLO"
		}
		return []ev.V{ev.Vf("session:not-ended:"+shape, "the server-side session did not end (connection count %d) within 20 s after the client left\n%s\n--- goroutines:\n%.3000s", endp.ConnectionCount(), strings.Join(res.Log, "\n"), strings.Join(stuck, "\n\n"))}
	}
	dialog := strings.Join(res.Log, "\n")
	events := rec.Snapshot()
	// the scripted modifier may rewrite recipients to <local>+alias@<domain>: the targets are compared with
	// what the client supplied under the supplied spelling
	for i := range events {
		if events[i].Op == "rcpt" || events[i].Op == "status" {
			events[i].Arg = strings.Replace(events[i].Arg, "+alias@", "@", 1)
			if at := strings.LastIndexByte(events[i].Arg, '@'); at > 0 && sc.Faults["mod:m1/rewrite"] == "case" && sc.Modifier {
				events[i].Arg = verifx.SwapCase(events[i].Arg[:at]) + events[i].Arg[at:] // every local part of the alphabet is of one case
			}
		}
	}
	// (a) typestate
	for _, p := range rec.Problems {
		sig := "typestate:closed-twice"
		if !strings.Contains(p, "closed twice") {
			sig = "typestate:used-after-close"
		}
		vs = append(vs, ev.Vf(sig, "%s\n%s", p, dialog))
	}
	for _, d := range rec.Open() {
		how := "other"
		for _, tx := range res.Txs {
			for _, e := range c03Window(events, tx) {
				if e.Deliv == d && tx.Ended == "data" {
					how = "after-failed-DATA"
					for _, f := range tx.Final {
						if f.Code/100 == 2 {
							how = "after-accepted-DATA"
						}
					}
				}
			}
		}
		desc := rec.Describe(d)
		if strings.Contains(desc, "commit") {
			how += "+commit-stage"
		}
		vs = append(vs, ev.Vf("typestate:delivery-left-open:"+how, "delivery %d (%s) was neither committed nor aborted by the end of the session\n%s", d, desc, dialog))
	}
	// (b) replies vs commits
	for ti, tx := range res.Txs {
		if tx.Ended != "data" || len(tx.Final) == 0 {
			continue
		}
		win := c03Window(events, tx)
		committed := map[string]map[string]bool{} // target -> rcpt (clean) delivered by a successful commit
		commitAttempted := false
		delivRcpts := map[int][]string{}
		statusErr := map[string]bool{}
		for _, e := range win {
			switch e.Op {
			case "rcpt":
				if e.Err == "" {
					delivRcpts[e.Deliv] = append(delivRcpts[e.Deliv], e.Arg)
				}
			case "status":
				if e.Err != "" {
					statusErr[e.Tgt+"|"+e.Arg] = true
				}
			case "commit":
				commitAttempted = true
				if e.Err == "" {
					if committed[e.Tgt] == nil {
						committed[e.Tgt] = map[string]bool{}
					}
					for _, r := range delivRcpts[e.Deliv] {
						committed[e.Tgt][r] = true
					}
				}
			}
		}
		if !sc.LMTP {
			f := tx.Final[0]
			if f.Code/100 == 2 {
				for _, r := range tx.Accepted {
					clean, _ := address.CleanDomain(r)
					for _, tg := range c03Targets(sc, r) {
						if !committed[tg][clean] {
							vs = append(vs, ev.Vf("reply:success-without-commit", "transaction %d answered %d but recipient %s was not committed to target %s\n%s", ti, f.Code, r, tg, dialog))
						}
					}
				}
			} else if !commitAttempted && len(committed) > 0 {
				vs = append(vs, ev.Vf("reply:failure-but-committed", "transaction %d answered %d without a failing commit, yet targets committed: %v\n%s", ti, f.Code, committed, dialog))
			}
			if f.Code/100 != 2 {
				for tg := range committed {
					if !commitAttempted {
						vs = append(vs, ev.Vf("reply:failure-but-committed", "transaction %d refused (%d) but target %s committed\n%s", ti, f.Code, tg, dialog))
					}
				}
			}
		} else {
			// what every delivery of the window did, per target
			type took struct {
				commitOK, body, bodyOK, partial bool
				rcpts                           map[string]bool
				statusErr                       map[string]bool
			}
			byTgt := map[string]*took{}
			anyBody, anyCommitErr := false, false
			for _, e := range win {
				tk := byTgt[e.Tgt]
				if tk == nil {
					tk = &took{rcpts: map[string]bool{}, statusErr: map[string]bool{}}
					byTgt[e.Tgt] = tk
				}
				switch e.Op {
				case "rcpt":
					if e.Err == "" {
						tk.rcpts[e.Arg] = true
					}
				case "body":
					tk.body, tk.bodyOK, anyBody = true, e.Err == "", true
				case "status":
					tk.partial = true
					if e.Err != "" {
						tk.statusErr[e.Arg] = true
					}
				case "commit":
					tk.commitOK = e.Err == ""
					if e.Err != "" {
						anyCommitErr = true
					}
				}
			}
			// delivered(tg, r): the target was committed holding r, and nothing it reported itself says r failed
			delivered := func(tg, clean string) (bool, string) {
				tk := byTgt[tg]
				if tk == nil || !tk.commitOK || !tk.rcpts[clean] {
					return false, ""
				}
				if !tk.body {
					return true, "committed-without-body"
				}
				if !tk.bodyOK {
					return true, "committed-after-failed-body"
				}
				return !tk.statusErr[clean], "target-succeeded"
			}
			for i, f := range tx.Final {
				if i >= len(tx.Accepted) {
					break
				}
				r := tx.Accepted[i]
				clean, _ := address.CleanDomain(r)
				tgs := c03Targets(sc, r)
				if !anyCommitErr && len(tgs) > 0 && !tx.StaleWire {
					all, some, how := true, false, ""
					for _, tg := range tgs {
						d, h := delivered(tg, clean)
						all = all && d && h == "target-succeeded"
						if d {
							some, how = true, h
						}
					}
					if f.Code/100 != 2 && all {
						vs = append(vs, ev.Vf("reply:lmtp-failure-but-own-target-delivered", "transaction %d: recipient %s answered %d although its target(s) %v took the message and committed\n%s", ti, r, f.Code, tgs, dialog))
					}
					if f.Code/100 != 2 && some && (len(tgs) == 1 || !anyBody) && how != "target-succeeded" {
						vs = append(vs, ev.Vf("reply:lmtp-refused-but-committed:"+how, "transaction %d: recipient %s answered %d (refused before the commit step) but target(s) %v were committed (%s)\n%s", ti, r, f.Code, tgs, how, dialog))
					}
				}
				if f.Code/100 == 2 {
					for _, tg := range c03Targets(sc, r) {
						if !committed[tg][clean] || statusErr[tg+"|"+clean] {
							shape := "other"
							for _, e := range win {
								if e.Op == "commit" && e.Err != "" {
									shape = "commit-failed-after-per-recipient-status"
								}
							}
							if tx.StaleWire {
								// go-smtp keeps the recipients of the transaction abandoned by a repeated LHLO: it expects
								// statuses for them, hands the first status of a repeated address to the stale entry and
								// fills what is left with "250 OK"
								shape = "stale-recipients-kept-by-go-smtp-after-repeated-LHLO"
							}
							vs = append(vs, ev.Vf("reply:lmtp-success-without-commit:"+shape, "transaction %d: recipient %s answered %d but target %s did not commit it (status error: %v)\n%s", ti, r, f.Code, tg, statusErr[tg+"|"+clean], dialog))
						}
					}
				}
			}
		}
	}
	// (b') nothing is committed for a recipient the client was told is refused
	for ti, tx := range res.Txs {
		if tx.Ended != "data" {
			continue
		}
		acc := map[string]bool{}
		for _, r := range tx.Accepted {
			if clean, err := address.CleanDomain(r); err == nil {
				acc[clean] = true
			}
		}
		win := c03Window(events, tx)
		held := map[int][]string{}
		refusedBy := map[string]string{} // address -> target that refused it (start or rcpt stage)
		var lastRcptArg string
		for _, e := range win {
			switch e.Op {
			case "rcpt":
				lastRcptArg = e.Arg
				if e.Err == "" {
					held[e.Deliv] = append(held[e.Deliv], e.Arg)
				} else {
					refusedBy[e.Arg] = e.Tgt
				}
			case "start":
				if e.Err != "" && lastRcptArg != "" {
					refusedBy[lastRcptArg] = e.Tgt // Start runs on behalf of the recipient being added
				}
			case "commit":
				if e.Err != "" {
					continue
				}
				for _, r := range held[e.Deliv] {
					if !acc[r] {
						shape := "other"
						if tg, ok := refusedBy[r]; ok && tg != e.Tgt {
							shape = "recipient-refused-by-a-later-target-stays-on-the-earlier-one"
						}
						if shape != "other" {
							// the pipeline's non-atomic AddRcpt over several targets: listed as a known finding under C09
							// (the pipeline reports a result for a recipient it refused); here only counted
							ev.Get("C03").AddExtra("observed_not_asserted_refused_recipient_kept_by_earlier_target", 1)
							continue
						}
						vs = append(vs, ev.Vf("reply:refused-recipient-committed:"+shape, "transaction %d: RCPT %s was refused, yet target %s was committed holding it\n%s", ti, r, e.Tgt, dialog))
					}
				}
			}
		}
	}
	// a refused or abandoned transaction must not surface later
	for ti, tx := range res.Txs {
		if tx.Ended == "data" {
			continue
		}
		for _, e := range c03Window(events, tx) {
			if e.Op == "commit" && e.Err == "" {
				vs = append(vs, ev.Vf("reply:abandoned-transaction-committed:"+tx.Ended, "transaction %d ended by %s but its delivery %d was committed\n%s", ti, tx.Ended, e.Deliv, dialog))
			}
		}
	}
	// (c) permits
	if sc.LimitN > 0 {
		doms := map[string]bool{"probe.example": true}
		for _, tx := range res.Txs {
			if clean, err := address.CleanDomain(tx.Sender); err == nil && clean != "" {
				if _, d, err := address.Split(clean); err == nil {
					doms[d] = true
				}
			} else if tx.Sender == "" {
				doms[""] = true
			}
		}
		for d := range doms {
			got := 0
			for i := 0; i < sc.LimitN; i++ {
				// free permits are granted at once; the time-out only matters when one leaked (generous: the machine may be loaded)
				ctx, cancel := context.WithTimeout(context.Background(), 5*time.Second)
				err := endp.limits.TakeMsg(ctx, res.ClientIP, d)
				cancel()
				if err != nil {
					break
				}
				got++
			}
			for i := 0; i < got; i++ {
				endp.limits.ReleaseMsg(res.ClientIP, d)
			}
			if got != sc.LimitN {
				shape := "other"
				for _, tx := range res.Txs {
					if clean, err := address.CleanDomain(tx.Sender); err == nil && clean != tx.Sender && !sc.Defer {
						shape = "immediate-mode-uncleaned-sender"
					}
				}
				vs = append(vs, ev.Vf("limits:permit-not-returned:"+shape, "after the session only %d of %d permits (scopes %v, source domain %q) can be acquired\n%s", got, sc.LimitN, sc.LimitScopes, d, dialog))
				break
			}
		}
	}
	// reply coherence (C16's statement, checked on the wire as a side oracle)
	for _, rep := range res.Replies {
		if rep.Code >= 400 && rep.Ench != "" && int(rep.Ench[0]-'0') != rep.Code/100 {
			vs = append(vs, ev.Vf("reply:incoherent-codes", "reply %d %s\n%s", rep.Code, rep.Ench, dialog))
			break
		}
	}
	return vs
}

var c03Last c03Result

// c03Window returns the monitor events of the deliveries that were started
// between the moment the transaction's MAIL command was sent and its end.
func c03Window(events []verifx.MonEvent, tx *c03Tx) []verifx.MonEvent {
	lo, hi := minInt(tx.Start, len(events)), minInt(tx.End, len(events))
	mine := map[int]bool{}
	for _, e := range events[lo:hi] {
		if e.Op == "start" {
			mine[e.Deliv] = true
		}
	}
	var out []verifx.MonEvent
	for _, e := range events[lo:] {
		if e.Deliv != 0 && mine[e.Deliv] {
			out = append(out, e)
		}
	}
	return out
}

func minInt(a, b int) int {
	if a < b {
		return a
	}
	return b
}

func c03Info(sc c03Scenario) ev.Info {
	accepted := false
	interesting := len(sc.Faults) > 0
	for _, tx := range c03Last.Txs {
		if len(tx.Accepted) > 0 {
			accepted = true
			if tx.Ended != "data" {
				interesting = true
			}
			for _, f := range tx.Final {
				if f.Code/100 != 2 {
					interesting = true
				}
			}
		}
	}
	cl := []string{fmt.Sprintf("lmtp=%v", sc.LMTP), fmt.Sprintf("txs=%d", len(c03Last.Txs))}
	for _, tx := range c03Last.Txs {
		cl = append(cl, "ended="+tx.Ended)
	}
	return ev.Info{Nontrivial: accepted && interesting, Classes: cl}
}

func TestVerifC03(t *testing.T) {
	r := ev.Get("C03")
	r.Rule("Scenario = endpoint configuration (smtp or lmtp, deferred or immediate sender reject, 1-3 monitor targets incl. a per-recipient one and a recipient handled by two targets, default reject or deliver, " +
		"optional scripted check with fail_action reject/quarantine, optional scripted modifier, concurrency limits of N=1-3 on a subset of all/ip/source) + 0-2 injected faults (temporary / permanent / " +
		"unclassified) at Start/AddRcpt/Body/per-recipient status/Commit/Abort of a target or at init/connection/sender/recipient/body of the check or modifier + a state-aware but deliberately imperfect " +
		"sequence of 2-14 commands over {EHLO/LHLO, MAIL (10 sender spellings, parameters), RCPT (9 recipients), DATA (6 payloads, optional disconnect inside the payload), BDAT chunks with/without LAST, RSET, " +
		"NOOP, QUIT, abrupt disconnect} with generated pipelining, played by a raw-socket client against the real endpoint on loopback. Oracle: typestate monitor of every delivery (exactly one of Commit/Abort " +
		"by the end of the session, nothing after it), final 2xx => every accepted recipient committed to each of its targets, failure without a commit attempt => nothing committed, LMTP per-recipient replies " +
		"vs that recipient's target, abandoned transactions never committed, N permits acquirable per configured scope afterwards, reply codes coherent. " +
		"Non-trivial = a transaction accepted a recipient and (a fault was injected, or it ended by RSET/MAIL/disconnect/failed DATA). Distinct = distinct scenario.")
	ev.Run(t, r, ev.Spec[c03Scenario]{Name: "sessions", Journal: true, N: r.N, Gen: c03Gen, Run: c03Run, Info: c03Info})
}
