package queue

// C16 harness, queue half: an error tree is what the scripted downstream
// target fails with; observed are the queue's retry behaviour and the status
// recorded in the failure report.

import (
	"fmt"
	"strings"
	"testing"

	"github.com/foxcpp/maddy/internal/verifx"
	"pgregory.net/rapid"
	"verifkit/ev"
)

type c16Queue struct {
	Err   *verifx.ErrNode `json:"err"`
	Stage string          `json:"stage"` // start rcpt body status commit
	UTF8  bool            `json:"smtputf8"`
}

func c16QueueScenario(sc c16Queue) qScenario {
	const rcpt = "user@example.org"
	p := qPlan{}
	q := qScenario{MaxTries: 3, Bounce: "ok"}
	switch sc.Stage {
	case "start":
		p.Start = sc.Err
	case "rcpt":
		p.Rcpt = map[string]*verifx.ErrNode{rcpt: sc.Err}
	case "body":
		p.Body = sc.Err
	case "status":
		q.Partial = true
		p.Status = map[string]*verifx.ErrNode{rcpt: sc.Err}
	default:
		p.Commit = sc.Err
	}
	q.Msgs = []qMsg{{ID: "m0", From: "sender@example.com", OriginalFrom: "sender@example.com", Rcpts: []string{rcpt},
		Header: "From: <sender@example.com>\r\nSubject: x\r\n", Body: "x\r\n", UTF8: sc.UTF8, Plans: []qPlan{p, p, p}}}
	return q
}

func c16RunQueue(sc c16Queue) (vs []ev.V) {
	h := qRun(c16QueueScenario(sc), nil)
	attempts := len(h.Attempts)
	retried := attempts > 1
	desc := fmt.Sprintf("downstream fails at %s with %s: %d attempt(s) of max 3", sc.Stage, sc.Err, attempts)
	if len(h.Reports) != 1 {
		return []ev.V{ev.Vf("queue:report-count", "%s, %d failure reports (want 1); %s", desc, len(h.Reports), c01Events(h))}
	}
	p := c18Parse(h.Reports[0].Raw)
	if p.Err != "" || len(p.Groups) != 1 {
		return []ev.V{ev.Vf("queue:report-malformed", "%s: report unparsable (%s), groups %d", desc, p.Err, len(p.Groups))}
	}
	g := p.Groups[0]
	var sa, sb, sc3 int
	if n, _ := fmt.Sscanf(g.Status, "%d.%d.%d", &sa, &sb, &sc3); n != 3 {
		return []ev.V{ev.Vf("queue:status-syntax", "%s: Status %q", desc, g.Status)}
	}
	shape := c16QShape(sc.Err)
	dcode := 0
	if strings.HasPrefix(g.Diag, "smtp;") {
		fmt.Sscanf(strings.TrimSpace(strings.TrimPrefix(g.Diag, "smtp;")), "%d", &dcode)
		if dcode/100 != sa {
			vs = append(vs, ev.Vf("queue:enhanced-class-differs:"+shape, "%s: recorded as Status %s with Diagnostic-Code %q", desc, g.Status, g.Diag))
		}
	}
	wantClass := 5
	if retried {
		wantClass = 4
	}
	if sa != wantClass || (dcode != 0 && dcode/100 != wantClass) {
		vs = append(vs, ev.Vf("queue:class-vs-retry:"+shape, "%s (retried: %v) but it is recorded as Status %s, Diagnostic-Code %q", desc, retried, g.Status, g.Diag))
	}
	// reference classification vs the queue's decision
	temp, spec := sc.Err.Temporary()
	if wantRetry := !spec || temp; wantRetry != retried {
		vs = append(vs, ev.Vf("queue:retry-decision:"+shape, "%s: retried=%v, but the failure is temporary=%v specified=%v by the reference classification", desc, retried, temp, spec))
	}
	raw := string(h.Reports[0].Raw)
	if sc.Err.Kind == "gosmtp" {
		// a bare downstream reply carries its own code and text; whether the text is passed on is not asserted
		return vs
	}
	if sc.Err.Annotated() == nil && !strings.Contains(g.Diag, "Internal server error") {
		vs = append(vs, ev.Vf("queue:unannotated-text", "%s: Diagnostic-Code %q is not the generic text", desc, g.Diag))
	}
	for _, m := range sc.Err.Markers() {
		if strings.Contains(raw, m) {
			vs = append(vs, ev.Vf("queue:discloses-internal-detail", "%s: the failure report contains internal detail %q", desc, m))
			break
		}
	}
	return vs
}

func c16QShape(n *verifx.ErrNode) string {
	switch {
	case n.TempOverAnnotated():
		return "temporary-marker-over-annotated-error"
	case n.Has("smtp-helper"):
		return "helper-computed-codes"
	default:
		return "other"
	}
}

func TestVerifC16Queue(t *testing.T) {
	qT = t
	r := ev.Get("C16")
	ev.Run(t, r, ev.Spec[c16Queue]{Name: "queue", N: r.N, Gen: func(t *rapid.T) c16Queue {
		return c16Queue{Err: verifx.GenErrDownstream(t, rapid.IntRange(1, 4).Draw(t, "depth")),
			Stage: rapid.SampledFrom([]string{"start", "rcpt", "body", "status", "commit"}).Draw(t, "stage"), UTF8: rapid.Bool().Draw(t, "utf8")}
	}, Run: c16RunQueue, Info: func(sc c16Queue) ev.Info {
		re := false
		for n := sc.Err; n != nil; n = n.Child {
			if n.Kind == "temp" || n.Kind == "smtp" || n.Kind == "smtp-helper" {
				re = true
			}
		}
		return ev.Info{Nontrivial: sc.Err.Depth() >= 2 && re, Classes: []string{"stage=" + sc.Stage, "shape=" + c16QShape(sc.Err)}}
	}})
}
