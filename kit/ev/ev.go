// Package ev is the evidence recorder and scenario runner shared by all
// harnesses. A harness is a pair gen(*rapid.T) S / run(S) []V with S a plain
// JSON-serialisable value; this package drives it (rapid search, exhaustive
// enumeration, replay of a saved scenario, confirmation of known findings),
// counts what was explored and writes one shard file that ./check merges.
package ev

import (
	"bufio"
	"crypto/sha256"
	"encoding/binary"
	"encoding/hex"
	"encoding/json"
	"errors"
	"flag"
	"fmt"
	"hash/fnv"
	"io/fs"
	"os"
	"path/filepath"
	"runtime/debug"
	"sort"
	"strconv"
	"strings"
	"sync"
	"testing"
	"time"

	"pgregory.net/rapid"
)

// V is one violation of the property found in one scenario. Sig is a
// deterministic signature naming the specific input shape / call site /
// history (it is what KNOWN_FINDINGS.txt lists); What is for humans.
type V struct {
	Sig  string `json:"sig"`
	What string `json:"what"`
	// Case, when set, is saved as the replay scenario instead of the generated
	// value (harnesses that explore many sub-cases per generated scenario use it
	// to pin the one that failed, e.g. a schedule or a crash path). It must
	// unmarshal into the sub-check's scenario type.
	Case any `json:"-"`
}

func Vf(sig, format string, a ...any) V { return V{Sig: sig, What: fmt.Sprintf(format, a...)} }

type violation struct {
	Sub    string `json:"sub"`
	Sig    string `json:"sig"`
	What   string `json:"what"`
	Replay string `json:"replay"`
}

type Rec struct {
	Prop string
	Tier string
	Seed int64
	// N is the number of cases this shard was asked to run for its main
	// sub-check (harnesses scale their other sub-checks from it).
	N     int
	Shard int
	Root  string

	mu         sync.Mutex
	start      time.Time
	evals      int64
	hashes     map[uint64]struct{}
	classes    map[string]int64
	first      []json.RawMessage
	largest    []json.RawMessage
	ntSeen     int64
	exclKnown  map[string]int64
	knownSeen  map[string]string
	knownRepro map[string]bool
	viol       []violation
	harnessErr []string
	known      map[string]string
	subs       map[string]*subStat
	extra      map[string]any
	assume     []string
}

type subStat struct {
	Evaluations int64 `json:"evaluations"`
	Nontrivial  int64 `json:"nontrivial"`
	Exhaustive  bool  `json:"exhaustive,omitempty"`
}

var (
	recMu sync.Mutex
	recs  = map[string]*Rec{}
)

// EnvInt reads an integer environment variable.
func EnvInt(k string, def int64) int64 { return envInt(k, def) }

func envInt(k string, def int64) int64 {
	if s := os.Getenv(k); s != "" {
		if v, err := strconv.ParseInt(s, 10, 64); err == nil {
			return v
		}
	}
	return def
}

// Get returns the process-wide recorder of a property.
func Get(prop string) *Rec {
	recMu.Lock()
	defer recMu.Unlock()
	if r, ok := recs[prop]; ok {
		return r
	}
	r := &Rec{
		Prop: prop, Tier: os.Getenv("VERIF_TIER"), Seed: envInt("VERIF_SEED", 1),
		N: int(envInt("VERIF_N", 200)), Shard: int(envInt("VERIF_SHARD", 0)),
		Root:  os.Getenv("VERIF_ROOT"),
		start: time.Now(), hashes: map[uint64]struct{}{}, classes: map[string]int64{},
		exclKnown: map[string]int64{}, knownSeen: map[string]string{}, knownRepro: map[string]bool{},
		known: map[string]string{}, subs: map[string]*subStat{}, extra: map[string]any{},
	}
	if r.Tier == "" {
		r.Tier = "quick"
	}
	if r.Root == "" {
		r.Root = "/verif"
	}
	r.loadKnown()
	recs[prop] = r
	return r
}

func (r *Rec) Thorough() bool { return r.Tier == "thorough" }

// Scale returns N*num/den, at least min.
func (r *Rec) Scale(num, den, min int) int {
	v := r.N * num / den
	if v < min {
		v = min
	}
	return v
}

func (r *Rec) loadKnown() {
	f, err := os.Open(filepath.Join(r.Root, "KNOWN_FINDINGS.txt"))
	if err != nil {
		return
	}
	defer f.Close()
	sc := bufio.NewScanner(f)
	sc.Buffer(make([]byte, 1<<20), 1<<20)
	for sc.Scan() {
		line := strings.TrimSpace(sc.Text())
		if !strings.HasPrefix(line, "known:") {
			continue
		}
		fs := strings.Fields(strings.TrimPrefix(line, "known:"))
		if len(fs) < 2 || fs[0] != "property="+r.Prop || !strings.HasPrefix(fs[1], "sig=") {
			continue
		}
		r.known[strings.TrimPrefix(fs[1], "sig=")] = strings.Join(fs[2:], " ")
	}
}

// IsKnown reports whether a signature is listed as a known finding. Harnesses
// use it only to steer generators away from a listed shape (exclusion by
// construction); the decision whether something is a violation is Filter's.
func (r *Rec) IsKnown(sig string) bool { _, ok := r.known[sig]; return ok }

func (r *Rec) Assume(s string) {
	r.mu.Lock()
	defer r.mu.Unlock()
	for _, a := range r.assume {
		if a == s {
			return
		}
	}
	r.assume = append(r.assume, s)
}

func (r *Rec) Extra(k string, v any) { r.mu.Lock(); r.extra[k] = v; r.mu.Unlock() }

// Rule records the generator description and non-triviality rule of the
// harness (evidence key coverage.rule).
func (r *Rec) Rule(s string) { r.Extra("rule", s) }

// AddExtra adds n to an integer extra key.
func (r *Rec) AddExtra(k string, n int64) {
	r.mu.Lock()
	c, _ := r.extra[k].(int64)
	r.extra[k] = c + n
	r.mu.Unlock()
}

func hash64(s string) uint64 { h := fnv.New64a(); h.Write([]byte(s)); return h.Sum64() }

// Info describes one executed case for the evidence file.
type Info struct {
	Key        string // canonical form used for distinctness ("" = JSON of the scenario)
	Nontrivial bool
	Classes    []string
}

// Count records one executed case from inside a harness that explores many
// cases per generated scenario (e.g. every crash image of a scenario).
func (r *Rec) Count(sub string, sc any, in Info) { r.count(sub, sc, in) }

func (r *Rec) count(sub string, sc any, in Info) {
	r.mu.Lock()
	defer r.mu.Unlock()
	r.evals++
	st := r.subs[sub]
	if st == nil {
		st = &subStat{}
		r.subs[sub] = st
	}
	st.Evaluations++
	for _, c := range in.Classes {
		r.classes[sub+"/"+c]++
	}
	if !in.Nontrivial {
		return
	}
	st.Nontrivial++
	key := in.Key
	var js []byte
	if key == "" {
		js, _ = json.Marshal(sc)
		key = string(js)
	}
	h := hash64(sub + "\x00" + key)
	if _, dup := r.hashes[h]; dup {
		return
	}
	r.hashes[h] = struct{}{}
	r.ntSeen++
	n := r.ntSeen
	if len(r.first) < 3 || n&(n-1) == 0 {
		if js == nil {
			js, _ = json.Marshal(sc)
		}
		if len(js) > 6000 {
			return
		}
		wrapped, _ := json.Marshal(map[string]any{"sub": sub, "case": json.RawMessage(js)})
		if len(r.first) < 3 {
			r.first = append(r.first, wrapped)
			return
		}
		r.largest = append(r.largest, wrapped)
		sort.Slice(r.largest, func(i, j int) bool { return len(r.largest[i]) > len(r.largest[j]) })
		if len(r.largest) > 3 {
			r.largest = r.largest[:3]
		}
	}
}

// Filter splits violations into those listed as known findings (counted,
// reported as KNOWN-FINDING) and the rest (returned).
func (r *Rec) Filter(vs []V) []V {
	r.mu.Lock()
	defer r.mu.Unlock()
	var out []V
	for _, v := range vs {
		if what, ok := r.known[v.Sig]; ok {
			r.exclKnown[v.Sig]++
			if _, seen := r.knownSeen[v.Sig]; !seen {
				if what == "" {
					what = v.What
				}
				r.knownSeen[v.Sig] = what
			}
			continue
		}
		out = append(out, v)
	}
	return out
}

func (r *Rec) addViolation(sub string, v V, replay string) {
	r.mu.Lock()
	r.viol = append(r.viol, violation{Sub: sub, Sig: v.Sig, What: v.What, Replay: replay})
	r.mu.Unlock()
	fmt.Printf("VIOLATION property=%s replay=%s\n", r.Prop, replay)
	fmt.Printf("  sub=%s sig=%s %s\n", sub, v.Sig, v.What)
}

func (r *Rec) HarnessError(format string, a ...any) {
	s := fmt.Sprintf(format, a...)
	r.mu.Lock()
	r.harnessErr = append(r.harnessErr, s)
	r.mu.Unlock()
	fmt.Printf("HARNESS-ERROR property=%s %s\n", r.Prop, s)
}

type replayFile struct {
	Property   string          `json:"property"`
	Sub        string          `json:"sub"`
	Violations []V             `json:"violations"`
	Scenario   json.RawMessage `json:"scenario"`
}

func (r *Rec) saveReplay(sub string, sc any, vs []V) string {
	js, err := json.MarshalIndent(sc, "  ", "  ")
	if err != nil {
		js = []byte(fmt.Sprintf("%q", fmt.Sprint(sc)))
	}
	sum := sha256.Sum256(append([]byte(sub+"\x00"), js...))
	dir := filepath.Join(r.Root, "replay", r.Prop)
	os.MkdirAll(dir, 0o755)
	p := filepath.Join(dir, sub+"-"+hex.EncodeToString(sum[:6])+".json")
	short := make([]V, len(vs))
	for i, v := range vs {
		if len(v.What) > 1500 {
			v.What = v.What[:1500] + " ..."
		}
		short[i] = v
	}
	out, _ := json.MarshalIndent(replayFile{Property: r.Prop, Sub: sub, Violations: short, Scenario: js}, "", "  ")
	os.WriteFile(p, append(out, '\n'), 0o644)
	return p
}

// Flush writes the shard file named by VERIF_OUT. Call it (deferred) from every
// Test function of a harness; it is cumulative.
func (r *Rec) Flush() {
	r.mu.Lock()
	defer r.mu.Unlock()
	out := os.Getenv("VERIF_OUT")
	if out == "" {
		return
	}
	hs := make([]byte, 0, 8*len(r.hashes))
	for h := range r.hashes {
		hs = binary.LittleEndian.AppendUint64(hs, h)
	}
	os.WriteFile(out+".hashes", hs, 0o644)
	samples := append(append([]json.RawMessage{}, r.first...), r.largest...)
	doc := map[string]any{
		"property_id": r.Prop, "tier": r.Tier, "seed": r.Seed, "shard": r.Shard,
		"evaluations": r.evals, "distinct_nontrivial": len(r.hashes),
		"classes": r.classes, "samples": samples, "subs": r.subs,
		"excluded_known": r.exclKnown, "known_seen": r.knownSeen, "known_reproduced": r.knownRepro,
		"violations": r.viol, "harness_errors": r.harnessErr, "extra": r.extra,
		"assumptions": r.assume, "wall_s": time.Since(r.start).Seconds(),
	}
	js, _ := json.MarshalIndent(doc, "", " ")
	os.WriteFile(out, js, 0o644)
}

func safeRun[S any](run func(S) []V, sc S) (vs []V) {
	defer func() {
		if p := recover(); p != nil {
			st := string(debug.Stack())
			if err, ok := p.(error); ok && harnessFrame(st) {
				var pe *fs.PathError
				var le *os.LinkError
				var se *os.SyscallError
				if errors.As(err, &pe) || errors.As(err, &le) || errors.As(err, &se) {
					vs = append(vs, V{Sig: "harness-io:" + panicSite(st), What: fmt.Sprintf("harness I/O error: %v", err)})
					return
				}
			}
			vs = append(vs, V{Sig: "panic:" + panicSite(st), What: fmt.Sprintf("panic: %v\n%s", p, st)})
		}
	}()
	return run(sc)
}

// harnessFrame: the function that called panic is harness code (a verif_*_test.go file injected by overlay).
func harnessFrame(stack string) bool {
	lines := strings.Split(stack, "\n")
	for i, l := range lines {
		if strings.HasPrefix(l, "panic(") {
			// lines[i+1] is the location of panic itself; the next frame is the caller
			if i+3 < len(lines) {
				return strings.Contains(lines[i+3], "/verif_") && strings.Contains(lines[i+3], "_test.go")
			}
		}
	}
	return false
}

// panicSite extracts the first non-runtime, non-harness function below the
// panic from a stack trace, to make panic signatures specific to a call site.
func panicSite(stack string) string {
	lines := strings.Split(stack, "\n")
	seenPanic := false
	for _, l := range lines {
		if strings.HasPrefix(l, "panic(") {
			seenPanic = true
			continue
		}
		if !seenPanic || strings.HasPrefix(l, "\t") || l == "" {
			continue
		}
		if strings.HasPrefix(l, "runtime.") || strings.HasPrefix(l, "runtime/") {
			continue
		}
		if i := strings.LastIndex(l, "("); i > 0 {
			l = l[:i]
		}
		if i := strings.LastIndex(l, "/"); i >= 0 {
			l = l[i+1:]
		}
		return l
	}
	return "unknown"
}

// Spec is one sub-check of a property.
type Spec[S any] struct {
	Name string
	// N is the number of generated cases for this shard.
	N   int
	Gen func(*rapid.T) S
	Run func(S) []V
	// Info classifies an executed scenario (may be nil: every case trivial).
	Info func(S) Info
	// Journal the scenario to disk before running it, so that a crash of the
	// whole process (panic in a goroutine the harness does not own, fatal
	// runtime error) still yields the input.
	Journal bool
}

var journalMu sync.Mutex

func (r *Rec) journal(sub string, sc any) {
	out := os.Getenv("VERIF_OUT")
	if out == "" {
		return
	}
	js, _ := json.Marshal(replayFile{Property: r.Prop, Sub: sub, Scenario: mustJSON(sc),
		Violations: []V{{Sig: "process-death", What: "the test process died while running this scenario"}}})
	journalMu.Lock()
	os.WriteFile(out+".journal", js, 0o644)
	journalMu.Unlock()
}

func mustJSON(v any) json.RawMessage { js, _ := json.Marshal(v); return js }

func (r *Rec) clearJournal() {
	if out := os.Getenv("VERIF_OUT"); out != "" {
		os.Remove(out + ".journal")
	}
}

// Run executes one sub-check: replay mode, confirmation of known findings,
// then the generated search.
func Run[S any](t *testing.T, r *Rec, sp Spec[S]) {
	t.Helper()
	defer r.Flush()
	info := sp.Info
	if info == nil {
		info = func(S) Info { return Info{} }
	}
	exec := func(sc S) []V {
		if sp.Journal {
			r.journal(sp.Name, sc)
			defer r.clearJournal()
		}
		vs := safeRun(sp.Run, sc)
		// a file-system error of the harness itself (scratch directory gone, disk full ...) says nothing
		// about the property: inconclusive, not a violation
		kept := vs[:0]
		for _, v := range vs {
			if strings.HasPrefix(v.Sig, "harness-io:") {
				r.HarnessError("%s: %s", sp.Name, v.What)
				continue
			}
			kept = append(kept, v)
		}
		return kept
	}

	if path := os.Getenv("VERIF_REPLAY"); path != "" {
		rf, sc, err := loadReplay[S](path)
		if err != nil {
			r.HarnessError("cannot load replay %s: %v", path, err)
			t.FailNow()
		}
		if rf.Sub != sp.Name {
			return
		}
		vs := r.Filter(exec(sc))
		r.count(sp.Name, sc, info(sc))
		for _, v := range vs {
			r.addViolation(sp.Name, v, path)
			t.Fail()
		}
		return
	}

	// Confirmation pass over the saved minimal cases of listed findings.
	known, _ := filepath.Glob(filepath.Join(r.Root, "replay", r.Prop, "known", sp.Name+"--*.json"))
	sort.Strings(known)
	for _, path := range known {
		rf, sc, err := loadReplay[S](path)
		if err != nil {
			r.HarnessError("cannot load known replay %s: %v", path, err)
			continue
		}
		vs := exec(sc)
		got := map[string]bool{}
		for _, v := range vs {
			got[v.Sig] = true
		}
		for _, want := range rf.Violations {
			r.mu.Lock()
			r.knownRepro[want.Sig] = r.knownRepro[want.Sig] || got[want.Sig]
			r.mu.Unlock()
		}
		for _, v := range r.Filter(vs) {
			r.addViolation(sp.Name, v, path)
			t.Fail()
		}
	}

	// Regression inputs: saved minimal cases of defects that were repaired. They
	// must pass now; a violation here is reported like any other.
	regress, _ := filepath.Glob(filepath.Join(r.Root, "replay", r.Prop, "regress", sp.Name+"--*.json"))
	sort.Strings(regress)
	for _, path := range regress {
		_, sc, err := loadReplay[S](path)
		if err != nil {
			r.HarnessError("cannot load regression replay %s: %v", path, err)
			continue
		}
		vs := r.Filter(exec(sc))
		r.count(sp.Name, sc, info(sc))
		for _, v := range vs {
			r.addViolation(sp.Name, v, path)
			t.Fail()
		}
	}

	if sp.N <= 0 {
		return
	}
	type failing struct {
		sc S
		vs []V
	}
	var last *failing
	flag.Set("rapid.checks", strconv.Itoa(sp.N))
	flag.Set("rapid.nofailfile", "true")
	flag.Set("rapid.shrinktime", "60s")
	seed := uint64(r.Seed)*64 + uint64(r.Shard) + 1
	flag.Set("rapid.seed", strconv.FormatUint(seed*1000003+hash64(sp.Name)%1000003+1, 10))
	ok := t.Run(sp.Name, rapid.MakeCheck(func(rt *rapid.T) {
		sc := sp.Gen(rt)
		vs := r.Filter(exec(sc))
		r.count(sp.Name, sc, info(sc))
		if len(vs) > 0 {
			last = &failing{sc, vs}
			rt.Fatalf("%s: %d violation(s), first: [%s] %s", sp.Name, len(vs), vs[0].Sig, vs[0].What)
		}
	}))
	if !ok {
		if last == nil {
			r.HarnessError("sub-check %s failed without a property violation (generator or harness problem)", sp.Name)
			return
		}
		var saved any = last.sc
		for _, v := range last.vs {
			if v.Case != nil {
				saved = v.Case
				break
			}
		}
		p := r.saveReplay(sp.Name, saved, last.vs)
		for _, v := range last.vs {
			r.addViolation(sp.Name, v, p)
		}
	}
}

// Enumerate runs every scenario produced by iter (a finite space, enumerated
// completely) through run. exhaustive marks the sub-check as complete in the
// evidence.
func Enumerate[S any](t *testing.T, r *Rec, name string, exhaustive bool, iter func(yield func(S) bool), run func(S) []V, info func(S) Info) {
	t.Helper()
	defer r.Flush()
	if rp := os.Getenv("VERIF_REPLAY"); rp != "" {
		rf, sc, err := loadReplay[S](rp)
		if err != nil {
			r.HarnessError("cannot load replay %s: %v", rp, err)
			t.FailNow()
		}
		if rf.Sub != name {
			return
		}
		for _, v := range r.Filter(safeRun(run, sc)) {
			r.addViolation(name, v, rp)
			t.Fail()
		}
		return
	}
	if info == nil {
		info = func(S) Info { return Info{} }
	}
	reported := map[string]bool{}
	iter(func(sc S) bool {
		r.count(name, sc, info(sc))
		vs := r.Filter(safeRun(run, sc))
		for _, v := range vs {
			if reported[v.Sig] {
				continue
			}
			reported[v.Sig] = true
			p := r.saveReplay(name, sc, []V{v})
			r.addViolation(name, v, p)
			t.Fail()
		}
		return len(reported) < 5
	})
	r.mu.Lock()
	if st := r.subs[name]; st != nil && len(reported) == 0 {
		st.Exhaustive = exhaustive
	}
	r.mu.Unlock()
}

func loadReplay[S any](path string) (replayFile, S, error) {
	var rf replayFile
	var sc S
	b, err := os.ReadFile(path)
	if err != nil {
		return rf, sc, err
	}
	if err := json.Unmarshal(b, &rf); err != nil {
		return rf, sc, err
	}
	if err := json.Unmarshal(rf.Scenario, &sc); err != nil {
		return rf, sc, err
	}
	return rf, sc, nil
}

// QS is a string that survives JSON byte-for-byte (invalid UTF-8 included):
// it is stored as its Go-quoted ASCII form.
type QS string

func (q QS) MarshalJSON() ([]byte, error) { return json.Marshal(strconv.QuoteToASCII(string(q))) }
func (q *QS) UnmarshalJSON(b []byte) error {
	var s string
	if err := json.Unmarshal(b, &s); err != nil {
		return err
	}
	u, err := strconv.Unquote(s)
	if err != nil {
		return err
	}
	*q = QS(u)
	return nil
}

// Abort records a violation that makes it unsafe to continue in this process
// (a computation that does not terminate keeps burning CPU and memory in a
// goroutine that cannot be killed): the scenario is saved as the replay file,
// the shard file is flushed and the process exits. No shrinking happens.
func (r *Rec) Abort(sub string, sc any, v V) {
	if len(r.Filter([]V{v})) == 0 {
		r.Flush()
		os.Exit(0)
	}
	p := os.Getenv("VERIF_REPLAY")
	if p == "" {
		p = r.saveReplay(sub, sc, []V{v})
	}
	r.addViolation(sub, v, p)
	r.clearJournal()
	r.Flush()
	os.Exit(1)
}

// Stack returns the current goroutine's stack (for use in recover handlers).
func Stack() string { return string(debug.Stack()) }

// PanicSite names the first non-runtime function below the panic in a stack.
func PanicSite(stack string) string { return panicSite(stack) }

// FuzzReport is the reporting path of native fuzz targets (which run in worker
// processes of the Go fuzzer, so they cannot share the shard file): known
// findings are filtered; for anything else the scenario is saved as a replay
// file and one JSON line is appended to $VERIF_FUZZ_OUT. Returns true if the
// target must fail.
func FuzzReport(prop, sub string, sc any, vs []V) bool {
	r := Get(prop)
	vs = r.Filter(vs)
	if len(vs) == 0 {
		return false
	}
	p := r.saveReplay(sub, sc, vs)
	if out := os.Getenv("VERIF_FUZZ_OUT"); out != "" {
		if f, err := os.OpenFile(out, os.O_APPEND|os.O_CREATE|os.O_WRONLY, 0o644); err == nil {
			what := vs[0].What
			if len(what) > 1500 {
				what = what[:1500]
			}
			js, _ := json.Marshal(violation{Sub: sub, Sig: vs[0].Sig, What: what, Replay: p})
			f.Write(append(js, '\n'))
			f.Close()
		}
	}
	return true
}
