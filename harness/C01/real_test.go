package queue

// C01, real downstream: the queue in front of maddy's own SMTP / LMTP client
// (target.smtp, target.lmtp) talking over loopback TCP to a scripted next hop
// that refuses, fails temporarily or cuts the connection at any stage of any
// attempt. Real time with a retry delay of a few milliseconds (no bubble:
// real sockets). The oracle looks only at what the next hop saw and answered
// and at the failure reports: every recipient ends in exactly one terminal
// outcome, is offered again only after a temporary failure, at most max_tries
// times.

import (
	"context"
	"fmt"
	"net"
	"os"
	"path/filepath"
	"sort"
	"strings"
	"testing"
	"time"

	"github.com/emersion/go-smtp"
	"github.com/foxcpp/go-mockdns"
	"github.com/foxcpp/maddy/framework/buffer"
	"github.com/foxcpp/maddy/framework/config"
	"github.com/foxcpp/maddy/framework/log"
	"github.com/foxcpp/maddy/framework/module"
	remotetarget "github.com/foxcpp/maddy/internal/target/remote"
	smtptarget "github.com/foxcpp/maddy/internal/target/smtp"
	"github.com/foxcpp/maddy/internal/verifx"
	"pgregory.net/rapid"
	"verifkit/ev"
)

type c01rScenario struct {
	LMTP     bool                `json:"lmtp"`
	Remote   bool                `json:"remote_mx,omitempty"` // target.remote (MX lookup, connection cache, per-recipient statuses) instead of target.smtp/lmtp
	TLS      bool                `json:"starttls,omitempty"`  // target.smtp talks to the next hop over STARTTLS (its default)
	HopUTF8  bool                `json:"next_hop_smtputf8"`
	MaxTries int                 `json:"max_tries"`
	Null     bool                `json:"null_sender"`
	Rcpts    []int               `json:"rcpts"`
	Plans    []map[string]string `json:"plans"` // per transaction seen by the next hop
}

var c01rRcpts = []string{"a@example.org", "b@example.org", "c@example.org", "d@xn--e1aybc.example"}

func c01rGen(t *rapid.T) c01rScenario {
	sc := c01rScenario{LMTP: rapid.Bool().Draw(t, "lmtp"), HopUTF8: rapid.Bool().Draw(t, "hoputf8"), MaxTries: rapid.IntRange(1, 4).Draw(t, "max_tries"),
		Null: rapid.IntRange(0, 7).Draw(t, "null") == 0}
	if !sc.LMTP && rapid.IntRange(0, 2).Draw(t, "remote") == 0 {
		sc.Remote = true
	}
	if !sc.LMTP && !sc.Remote {
		sc.TLS = rapid.Bool().Draw(t, "starttls")
	}
	nr := len(c01rRcpts) - 1
	if sc.Remote {
		nr = 2 // one recipient domain, so that one attempt is one transaction at the next hop
	}
	sc.Rcpts = rapid.SliceOfNDistinct(rapid.IntRange(0, nr), 1, 3, rapid.ID[int]).Draw(t, "rcpts")
	for a := 0; a < sc.MaxTries; a++ {
		p := map[string]string{}
		switch rapid.IntRange(0, 9).Draw(t, "txfault") {
		case 0:
			p["mail"] = rapid.SampledFrom([]string{"T", "P", "Tn", "Pn", "drop"}).Draw(t, "mail")
		case 1:
			p["data"] = rapid.SampledFrom([]string{"T", "P", "Tn", "Pn"}).Draw(t, "data")
		case 2:
			if sc.LMTP {
				p["dropafter"] = fmt.Sprint(rapid.IntRange(0, len(sc.Rcpts)-1).Draw(t, "dropafter"))
			}
		case 3:
			if !sc.LMTP {
				p["afterdata"] = "drop" // the message is accepted, then the server is gone: QUIT cannot be said any more
			}
		case 4:
			if !sc.LMTP {
				p["data"] = "S2" // the message is accepted with a positive reply other than 250
			}
		}
		for _, r := range sc.Rcpts {
			switch rapid.IntRange(0, 9).Draw(t, "rcptfault") {
			case 8:
				p["rcpt:"+c01rRcpts[r]] = "Tn"
			case 9:
				p["rcpt:"+c01rRcpts[r]] = "Pn"
			case 0:
				p["rcpt:"+c01rRcpts[r]] = "T"
			case 1:
				p["rcpt:"+c01rRcpts[r]] = "P"
			case 2:
				if sc.LMTP {
					p["status:"+c01rRcpts[r]] = "T"
				}
			case 3:
				if sc.LMTP {
					p["status:"+c01rRcpts[r]] = "P"
				}
			}
		}
		sc.Plans = append(sc.Plans, p)
	}
	return sc
}

func c01rRun(sc c01rScenario) (vs []ev.V) {
	r := ev.Get("C01")
	hopCfg := verifx.HopConfig{Name: "downstream.test", UTF8: sc.HopUTF8, LMTP: sc.LMTP}
	var caPEM []byte
	if sc.TLS {
		var ips []string
		for a := 1; a < 40; a++ {
			ips = append(ips, fmt.Sprintf("127.0.%d.2", a))
		}
		tcfg, ca, err := verifx.SelfSignedFor(append(ips, "127.0.0.1"), []string{"downstream.test"})
		if err != nil {
			r.HarnessError("certificate: %v", err)
			return nil
		}
		hopCfg.TLS, caPEM = tcfg, ca
	}
	hop, err := verifx.StartNextHop(hopCfg)
	if err != nil {
		r.HarnessError("next hop: %v", err)
		return nil
	}
	defer hop.Close()
	hop.Plans = sc.Plans
	var down module.DeliveryTarget
	if sc.Remote {
		rt := remotetarget.VerifNewTarget("mx.maddy.test", map[string]mockdns.Zone{
			"example.org.":    {MX: []net.MX{{Host: "mx.example.org.", Pref: 10}}},
			"mx.example.org.": {A: []string{"127.0.0.1"}},
		}, func(ctx context.Context, network, addr string) (net.Conn, error) {
			return (&net.Dialer{}).DialContext(ctx, "tcp", hop.Addr)
		})
		defer rt.Close()
		down = rt
	} else {
		name := "target.smtp"
		if sc.LMTP {
			name = "target.lmtp"
		}
		mod, _ := smtptarget.NewDownstream(name, "verif", nil, []string{"tcp://" + hop.Addr})
		d := mod.(*smtptarget.Downstream)
		nodes := []config.Node{{Name: "starttls", Args: []string{"no"}}}
		if sc.TLS {
			caFile := filepath.Join(os.TempDir(), fmt.Sprintf("c01real-ca-%d-%d.pem", os.Getpid(), time.Now().UnixNano()))
			if err := os.WriteFile(caFile, caPEM, 0o600); err != nil {
				r.HarnessError("%v", err)
				return nil
			}
			defer os.Remove(caFile)
			nodes = []config.Node{{Name: "starttls", Args: []string{"yes"}}, {Name: "tls_client", Children: []config.Node{{Name: "root_ca", Args: []string{caFile}}}}}
		}
		if err := d.Init(config.NewMap(map[string]interface{}{"hostname": "mx.maddy.test"}, config.Node{Children: nodes})); err != nil {
			r.HarnessError("downstream init: %v", err)
			return nil
		}
		down = d
	}
	dir, err := os.MkdirTemp("", "c01real")
	if err != nil {
		r.HarnessError("%v", err)
		return nil
	}
	defer os.RemoveAll(dir)
	oldRecover := dontRecover
	dontRecover = false
	defer func() { dontRecover = oldRecover }()
	h := &qHistory{SpoolAt: map[int][]string{}}
	h.t0 = time.Now()
	qmod, _ := NewQueue("", "queue", nil, nil)
	q := qmod.(*Queue)
	q.initialRetryTime = 3 * time.Millisecond
	q.retryTimeScale = 1
	q.postInitDelay = 0
	q.maxTries = sc.MaxTries
	q.location = dir
	q.hostname = "mx.maddy.test"
	q.autogenMsgDomain = "maddy.test"
	q.Target = down
	q.dsnPipeline = &qBounce{h: h}
	q.Log = log.Logger{Out: log.NopOutput{}}
	if err := q.start(4); err != nil {
		r.HarnessError("queue: %v", err)
		return nil
	}
	closed := false
	defer func() {
		if !closed {
			q.Close()
		}
	}()
	from := "sender@example.com"
	if sc.Null {
		from = ""
	}
	ctx := context.Background()
	d, err := q.Start(ctx, &module.MsgMetadata{ID: "c01real", OriginalFrom: from}, from)
	if err != nil {
		r.HarnessError("queue start: %v", err)
		return nil
	}
	var rcpts []string
	for _, i := range sc.Rcpts {
		rcpts = append(rcpts, c01rRcpts[i])
		d.AddRcpt(ctx, c01rRcpts[i], smtp.RcptOptions{})
	}
	hdr, _ := qParseHeader("From: <sender@example.com>\r\nSubject: c01 real\r\n")
	if err := d.Body(ctx, hdr, buffer.MemoryBuffer{Slice: []byte("body\r\n")}); err != nil {
		r.HarnessError("queue body: %v", err)
		return nil
	}
	if err := d.Commit(ctx); err != nil {
		r.HarnessError("queue commit: %v", err)
		return nil
	}
	// quiescence: the spool is empty (the queue removes the message once every recipient is settled)
	deadline := time.Now().Add(15 * time.Second)
	for {
		time.Sleep(2 * time.Millisecond)
		if !qSpoolBusy(dir) {
			break
		}
		if time.Now().After(deadline) {
			q.Close()
			closed = true
			return []ev.V{ev.Vf("real:not-settled", "the message is still in the spool after 15 s (retry delay 3 ms, max_tries %d); next hop saw %+v", sc.MaxTries, hop.Transactions())}
		}
	}
	q.Close()
	closed = true
	time.Sleep(time.Millisecond)
	txs := hop.Transactions()

	// ---- what the next hop saw, per recipient
	type fate struct {
		offered, delivered  int
		permAt, deliveredAt []int
		ambiguous           bool
	}
	fates := map[string]*fate{}
	for _, rc := range rcpts {
		fates[rc] = &fate{}
	}
	describe := func() string {
		var b strings.Builder
		for _, tx := range txs {
			fmt.Fprintf(&b, "\n  tx %d: mail=%q rcpts=%v rcpt-replies=%v data-seen=%v data=%q statuses=%v dropped=%v", tx.N, tx.MailErr, tx.Rcpts, tx.RcptErr, tx.DataSeen, tx.DataErr, tx.Status, tx.Dropped)
		}
		for _, rep := range h.Reports {
			fmt.Fprintf(&b, "\n  report naming %v", c01ReportedRcpts(rep.Raw))
		}
		return b.String()
	}
	// (target.remote opens a transaction per recipient domain and again after a refused MAIL, so one attempt can
	// be several transactions there; the per-recipient bound below still applies)
	if os.Getenv("VERIF_DEBUG") != "" {
		fmt.Println("C01REAL-DEBUG", describe(), "\nlogs:", h.Logs)
	}
	if len(txs) > sc.MaxTries && !sc.Remote {
		vs = append(vs, ev.Vf("real:more-attempts-than-max-tries", "the next hop saw %d transactions, max_tries is %d%s", len(txs), sc.MaxTries, describe()))
	}
	for _, tx := range txs {
		if strings.HasPrefix(tx.MailErr, "P") {
			// every recipient of the message fails permanently with the transaction - except with
			// target.remote, which issues MAIL on behalf of the recipient it is adding: the next hop
			// cannot tell which one that was
			if !sc.Remote {
				for _, f := range fates {
					f.permAt = append(f.permAt, tx.N)
				}
			}
			continue
		}
		if tx.MailErr != "" {
			continue
		}
		for _, rc := range tx.Rcpts {
			f := fates[rc]
			if f == nil {
				vs = append(vs, ev.Vf("real:unknown-recipient-offered", "the next hop was offered %q, recipients of the message are %v", rc, rcpts))
				continue
			}
			f.offered++
			cls, refused := tx.RcptErr[rc]
			switch {
			case refused && strings.HasPrefix(cls, "P"):
				f.permAt = append(f.permAt, tx.N)
			case refused:
			case !tx.DataSeen:
				// the transaction ended before DATA (all recipients refused, or dropped)
			case strings.HasPrefix(tx.DataErr, "P"):
				f.permAt = append(f.permAt, tx.N)
			case tx.DataErr != "":
			case sc.LMTP:
				st, answered := tx.Status[rc]
				switch {
				case !answered:
					// the connection was cut before this recipient's reply
				case st == "":
					f.delivered++
					f.deliveredAt = append(f.deliveredAt, tx.N)
				case strings.HasPrefix(st, "P"):
					f.permAt = append(f.permAt, tx.N)
				}
			default:
				f.delivered++
				f.deliveredAt = append(f.deliveredAt, tx.N)
			}
		}
	}
	reported := map[string]int{}
	for _, rep := range h.Reports {
		for _, x := range c01ReportedRcpts(rep.Raw) {
			for _, rc := range rcpts {
				if c01SameAddr(x, rc) {
					reported[rc]++
				}
			}
		}
	}
	sort.Strings(rcpts)
	for _, rc := range rcpts {
		f := fates[rc]
		shape := "smtp"
		if sc.LMTP {
			shape = "lmtp"
		}
		for _, tx := range txs {
			if tx.Dropped {
				shape += "+connection-cut"
				break
			}
		}
		if f.delivered > 1 {
			vs = append(vs, ev.Vf("real:delivered-twice:"+shape, "%s was accepted by the next hop %d times (transactions %v)%s", rc, f.delivered, f.deliveredAt, describe()))
		}
		if f.delivered >= 1 && reported[rc] > 0 {
			vs = append(vs, ev.Vf("real:delivered-and-reported-failed:"+shape, "%s was accepted by the next hop (transaction %v) and named in %d failure report(s)%s", rc, f.deliveredAt, reported[rc], describe()))
		}
		if reported[rc] > 1 {
			vs = append(vs, ev.Vf("real:reported-twice:"+shape, "%s is named in %d failure reports%s", rc, reported[rc], describe()))
		}
		if f.delivered == 0 && reported[rc] == 0 && !sc.Null {
			vs = append(vs, ev.Vf("real:no-terminal-outcome:"+shape, "%s was neither accepted by the next hop nor named in a failure report, and the spool is empty%s", rc, describe()))
		}
		if sc.Null && reported[rc] > 0 {
			vs = append(vs, ev.Vf("real:report-for-null-sender", "a failure report was generated for a message from <>%s", describe()))
		}
		// offered again only after a temporary failure
		settled := -1
		if len(f.deliveredAt) > 0 {
			settled = f.deliveredAt[0]
		}
		if len(f.permAt) > 0 && (settled < 0 || f.permAt[0] < settled) {
			settled = f.permAt[0]
		}
		if settled >= 0 {
			for _, tx := range txs {
				if tx.N <= settled || tx.MailErr != "" {
					continue
				}
				for _, x := range tx.Rcpts {
					if x == rc {
						vs = append(vs, ev.Vf("real:offered-again-after-terminal-result:"+shape, "%s got its final answer in transaction %d and was offered again in transaction %d%s", rc, settled, tx.N, describe()))
					}
				}
			}
		}
		if f.offered > sc.MaxTries {
			vs = append(vs, ev.Vf("real:more-attempts-than-max-tries", "%s was offered %d times, max_tries is %d%s", rc, f.offered, sc.MaxTries, describe()))
		}
	}
	return vs
}

func TestVerifC01Real(t *testing.T) {
	r := ev.Get("C01")
	ev.Run(t, r, ev.Spec[c01rScenario]{Name: "real-downstream", Journal: true, N: r.Scale(1, 8, 40), Gen: c01rGen, Run: c01rRun, Info: func(sc c01rScenario) ev.Info {
		faults := 0
		for _, p := range sc.Plans {
			faults += len(p)
		}
		return ev.Info{Nontrivial: faults > 0 && len(sc.Rcpts) > 1, Classes: []string{fmt.Sprintf("lmtp=%v", sc.LMTP), fmt.Sprintf("remote=%v", sc.Remote)}}
	}})
}
