package remote

// C19, configuration layer: the idle lifetime and idle count an operator
// configures on target.remote (conn_max_idle_time, conn_max_idle_count) are the
// ones the connection cache enforces - a connection idle for longer than the
// configured time is never handed out again, and no more than the configured
// number of idle connections is kept. The target is built through its real
// New + Init from a generated configuration block and talks to a scripted
// next hop over loopback; real time (the directive counts whole seconds).

import (
	"context"
	"fmt"
	"net"
	"sync"
	"testing"
	"time"

	"github.com/emersion/go-message/textproto"
	"github.com/emersion/go-smtp"
	"github.com/foxcpp/go-mockdns"
	"github.com/foxcpp/maddy/framework/buffer"
	"github.com/foxcpp/maddy/framework/config"
	"github.com/foxcpp/maddy/framework/log"
	"github.com/foxcpp/maddy/framework/module"
	"github.com/foxcpp/maddy/internal/verifx"
	"pgregory.net/rapid"
	"verifkit/ev"
)

type c19cScenario struct {
	IdleTimeSec int  `json:"conn_max_idle_time"`
	IdleCount   int  `json:"conn_max_idle_count"`
	First       int  `json:"first_wave"`  // overlapping deliveries before the pause
	Second      int  `json:"second_wave"` // overlapping deliveries after it
	LongPause   bool `json:"pause_exceeds_idle_time"`
	// one delivery of the first wave finishes 0.7 s before the others: after a short pause its connection alone
	// has outlived conn_max_idle_time 1 (the bucket, refreshed by the later returns, has not)
	Staggered bool `json:"staggered_first_wave,omitempty"`
	// the next hop drops idle connections after 300 ms with a 421 reply; the cached connections are then closed
	// by shutting the target down
	ServerTimesOut bool `json:"server_idle_timeout,omitempty"`
}

func c19cWave(ctx context.Context, tgt *Target, n int, tag string) error {
	hdr := textproto.Header{}
	hdr.Add("Subject", "c19 "+tag)
	var ds []module.Delivery
	for i := 0; i < n; i++ {
		d, err := tgt.Start(ctx, &module.MsgMetadata{ID: fmt.Sprintf("c19c-%s-%d", tag, i)}, "sender@src.invalid")
		if err != nil {
			return err
		}
		// the connection is taken from the cache (or opened) here and held until Commit
		if err := d.AddRcpt(ctx, "user@one.invalid", smtp.RcptOptions{}); err != nil {
			d.Abort(ctx)
			return err
		}
		ds = append(ds, d)
	}
	for _, d := range ds {
		if err := d.Body(ctx, hdr, buffer.MemoryBuffer{Slice: []byte("x\r\n")}); err != nil {
			d.Abort(ctx)
			return err
		}
		if err := d.Commit(ctx); err != nil {
			return err
		}
	}
	return nil
}

// c19cConn counts Close calls on the socket a cached connection wraps.
type c19cConn struct {
	net.Conn
	mu     sync.Mutex
	closed int
}

func (c *c19cConn) Close() error {
	c.mu.Lock()
	c.closed++
	c.mu.Unlock()
	return c.Conn.Close()
}

func c19cRun(sc c19cScenario) (vs []ev.V) {
	r := ev.Get("C19")
	hc := verifx.HopConfig{Name: "mx.one.invalid", UTF8: true}
	if sc.ServerTimesOut {
		hc.IdleTimeout = 300 * time.Millisecond
	}
	hop, err := verifx.StartNextHop(hc)
	if err != nil {
		r.HarnessError("next hop: %v", err)
		return nil
	}
	defer hop.Close()
	mod, err := New("target.remote", "verif", nil, nil)
	if err != nil {
		r.HarnessError("%v", err)
		return nil
	}
	tgt := mod.(*Target)
	tgt.Log = log.Logger{Out: log.NopOutput{}}
	if err := tgt.Init(config.NewMap(map[string]interface{}{"hostname": "mx.maddy.test"}, config.Node{Children: []config.Node{
		{Name: "conn_max_idle_time", Args: []string{fmt.Sprint(sc.IdleTimeSec)}},
		{Name: "conn_max_idle_count", Args: []string{fmt.Sprint(sc.IdleCount)}},
	}})); err != nil {
		r.HarnessError("target.remote init: %v", err)
		return nil
	}
	tgtClosed := false
	closeTgt := func() {
		if !tgtClosed {
			tgtClosed = true
			tgt.Close()
		}
	}
	defer closeTgt()
	tgt.Log = log.Logger{Out: log.NopOutput{}}
	tgt.extResolver = nil
	tgt.resolver = &mockdns.Resolver{Zones: map[string]mockdns.Zone{
		"one.invalid.":    {MX: []net.MX{{Host: "mx.one.invalid.", Pref: 10}}},
		"mx.one.invalid.": {A: []string{"127.0.0.1"}},
	}}
	var cmu sync.Mutex
	var dialed []*c19cConn
	tgt.dialer = func(ctx context.Context, network, addr string) (net.Conn, error) {
		c, err := (&net.Dialer{}).DialContext(ctx, "tcp", hop.Addr)
		if err != nil {
			return nil, err
		}
		cc := &c19cConn{Conn: c}
		cmu.Lock()
		dialed = append(dialed, cc)
		cmu.Unlock()
		return cc, nil
	}
	ctx, cancel := context.WithTimeout(context.Background(), 30*time.Second)
	defer cancel()
	if sc.ServerTimesOut {
		// every socket the target opened is closed once the target has been shut down, also when the server
		// announced its own time-out (421) in the meantime
		if err := c19cWave(ctx, tgt, sc.First, "a"); err != nil {
			r.HarnessError("first wave: %v", err)
			return nil
		}
		time.Sleep(700 * time.Millisecond)
		closeTgt()
		time.Sleep(300 * time.Millisecond) // the pool closes evicted connections in the background
		cmu.Lock()
		defer cmu.Unlock()
		for i, c := range dialed {
			c.mu.Lock()
			n := c.closed
			c.mu.Unlock()
			if n == 0 {
				vs = append(vs, ev.Vf("config:socket-never-closed:server-timed-out", "connection %d of %d was cached, dropped by the next hop after its idle time-out (421) and never closed on maddy's side although the target was shut down", i, len(dialed)))
				break
			}
		}
		return vs
	}
	if sc.Staggered {
		hdr := textproto.Header{}
		hdr.Add("Subject", "c19 staggered")
		open := func(tag string) (module.Delivery, error) {
			d, err := tgt.Start(ctx, &module.MsgMetadata{ID: "c19c-" + tag}, "sender@src.invalid")
			if err != nil {
				return nil, err
			}
			if err := d.AddRcpt(ctx, "user@one.invalid", smtp.RcptOptions{}); err != nil {
				d.Abort(ctx)
				return nil, err
			}
			return d, nil
		}
		// all deliveries open their connections now; the first one finishes at once, the others 0.7 s later
		var ds []module.Delivery
		for i := 0; i < sc.First; i++ {
			d, err := open(fmt.Sprintf("w%d", i))
			if err != nil {
				r.HarnessError("staggered: %v", err)
				return nil
			}
			ds = append(ds, d)
		}
		for i, d := range ds {
			if i == 1 {
				time.Sleep(700 * time.Millisecond)
			}
			if err := d.Body(ctx, hdr, buffer.MemoryBuffer{Slice: []byte("x\r\n")}); err != nil {
				r.HarnessError("staggered body: %v", err)
				return nil
			}
			d.Commit(ctx)
		}
		before := hop.Sessions()
		time.Sleep(600 * time.Millisecond) // the early connection is now >= 1.3 s old, the others about 0.6 s
		if err := c19cWave(ctx, tgt, sc.Second, "b"); err != nil {
			r.HarnessError("second wave: %v", err)
			return nil
		}
		reused := sc.Second - (hop.Sessions() - before)
		// the connection returned first was last used 1.3 s ago; it also occupies one of the idle slots
		young := sc.First - 1
		if young > sc.IdleCount-1 {
			young = sc.IdleCount - 1
		}
		if reused > young {
			vs = append(vs, ev.Vf("config:idle-time-not-enforced:connection-older-than-its-bucket", "conn_max_idle_time 1 s: %d connections were cached, the first of them last used 1.3 s ago; %d of %d later deliveries reused a cached connection, at most %d may", sc.First, reused, sc.Second, young))
		}
		return vs
	}
	if err := c19cWave(ctx, tgt, sc.First, "a"); err != nil {
		r.HarnessError("first wave: %v", err)
		return nil
	}
	if got := hop.Sessions(); got != sc.First {
		r.HarnessError("first wave of %d overlapping deliveries opened %d connections", sc.First, got)
		return nil
	}
	pause := 300 * time.Millisecond
	if sc.LongPause {
		pause = time.Duration(sc.IdleTimeSec)*time.Second + 1200*time.Millisecond // whole-second granularity in the pool
	}
	time.Sleep(pause)
	if err := c19cWave(ctx, tgt, sc.Second, "b"); err != nil {
		r.HarnessError("second wave: %v", err)
		return nil
	}
	opened := hop.Sessions() - sc.First
	reused := sc.Second - opened
	if sc.LongPause && reused > 0 {
		vs = append(vs, ev.Vf("config:idle-time-not-enforced", "conn_max_idle_time %d s: after a pause of %v, %d of %d deliveries were made over connections cached before the pause", sc.IdleTimeSec, pause, reused, sc.Second))
	}
	keep := sc.IdleCount
	if sc.First < keep {
		keep = sc.First
	}
	if !sc.LongPause && reused > keep {
		vs = append(vs, ev.Vf("config:idle-count-not-enforced", "conn_max_idle_count %d: %d connections were returned, yet %d deliveries reused a cached connection", sc.IdleCount, sc.First, reused))
	}
	return vs
}

func TestVerifC19RemoteConfig(t *testing.T) {
	r := ev.Get("C19")
	ev.Run(t, r, ev.Spec[c19cScenario]{Name: "remote-config", N: r.N, Journal: true, Gen: func(t *rapid.T) c19cScenario {
		sc := c19cScenario{IdleTimeSec: rapid.IntRange(1, 2).Draw(t, "idle_time"), IdleCount: rapid.IntRange(1, 3).Draw(t, "idle_count"),
			First: rapid.IntRange(1, 4).Draw(t, "first"), Second: rapid.IntRange(1, 4).Draw(t, "second"), LongPause: rapid.Bool().Draw(t, "long_pause")}
		switch rapid.IntRange(0, 3).Draw(t, "variant") {
		case 0:
			sc.Staggered, sc.IdleTimeSec, sc.LongPause = true, 1, false
			if sc.First < 2 {
				sc.First = 2
			}
		case 1:
			sc.ServerTimesOut, sc.IdleTimeSec, sc.LongPause = true, 2, false
		}
		return sc
	}, Run: c19cRun, Info: func(sc c19cScenario) ev.Info {
		return ev.Info{Nontrivial: sc.LongPause || sc.First > sc.IdleCount || sc.Staggered || sc.ServerTimesOut, Classes: []string{fmt.Sprintf("long_pause=%v", sc.LongPause), fmt.Sprintf("staggered=%v", sc.Staggered), fmt.Sprintf("server_times_out=%v", sc.ServerTimesOut)}}
	}})
}
