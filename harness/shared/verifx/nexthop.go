package verifx

// NextHop is a scripted SMTP/LMTP server (go-smtp server with a scripted
// backend) that plays the remote MX / downstream server for the outbound
// targets: capability set, optional STARTTLS, scripted replies per command and
// per recipient, per-recipient LMTP statuses, connection drop, capture of what
// was received together with the TLS state of the connection.

import (
	"crypto/tls"
	"errors"
	"fmt"
	"io"
	"net"
	"os"
	"strconv"
	"strings"
	"sync"
	"time"

	"github.com/emersion/go-sasl"
	"github.com/emersion/go-smtp"
)

type HopMsg struct {
	From    string
	Opts    smtp.MailOptions
	To      []string
	Data    []byte
	TLS     bool
	Session int
}

// HopTx is what the server saw of one MAIL transaction and how it answered.
type HopTx struct {
	N        int
	From     string
	MailErr  string
	Rcpts    []string          // RCPT commands in order
	RcptErr  map[string]string // address -> reply class ("" accepted, T, P, drop)
	DataSeen bool
	DataErr  string            // reply class for the whole DATA (SMTP) or transaction-level failure (LMTP)
	Status   map[string]string // LMTP: address -> reply class of the per-recipient reply ("" = 250); only replies actually produced
	Dropped  bool              // the connection was cut by the server during this transaction
}

type HopConfig struct {
	Name       string
	ListenIP   string // e.g. 127.0.0.1
	LMTP       bool
	UTF8       bool
	RequireTLS bool
	DSN        bool        // the DSN extension (NOTIFY, ORCPT parameters of RCPT) is offered
	TLS        *tls.Config // non-nil: STARTTLS is advertised
	// the server drops idle connections after this long, announcing it with a 421 reply (0: never)
	IdleTimeout time.Duration
}

type NextHop struct {
	Cfg  HopConfig
	Addr string

	mu     sync.Mutex
	script map[string]string // "mail", "rcpt:<addr>", "rcpt", "data", "status:<addr>", "drop:<stage>" -> T | P | drop; "dropafter" -> number of per-recipient LMTP replies given before the connection is cut
	Msgs   []HopMsg
	Log    []string
	// Plans, when set, scripts the n-th MAIL transaction seen by the server (in arrival order) with
	// Plans[n]; transactions beyond the list are not scripted. It takes precedence over Script.
	Plans    []map[string]string
	ntx      int
	TxLog    []HopTx
	sessions int
	srv      *smtp.Server
	l        net.Listener
}

func StartNextHop(cfg HopConfig) (*NextHop, error) {
	ip := cfg.ListenIP
	if ip == "" {
		// every shard of a check listens on its own loopback address, so that sockets left in TIME_WAIT by
		// the other shards never exhaust the port range of one address
		shard, _ := strconv.Atoi(os.Getenv("VERIF_SHARD"))
		ip = fmt.Sprintf("127.0.%d.2", 1+shard%200)
	}
	l, err := net.Listen("tcp", ip+":0")
	for try := 0; err != nil && strings.Contains(err.Error(), "address already in use") && try < 100; try++ {
		time.Sleep(100 * time.Millisecond)
		l, err = net.Listen("tcp", ip+":0")
	}
	if err != nil {
		return nil, err
	}
	h := &NextHop{Cfg: cfg, Addr: l.Addr().String(), script: map[string]string{}, l: l}
	s := smtp.NewServer(h)
	s.Domain = cfg.Name
	if s.Domain == "" {
		s.Domain = "nexthop.test"
	}
	s.LMTP = cfg.LMTP
	s.EnableSMTPUTF8 = cfg.UTF8
	s.EnableREQUIRETLS = cfg.RequireTLS
	s.EnableDSN = cfg.DSN
	s.TLSConfig = cfg.TLS
	s.AllowInsecureAuth = true
	if cfg.IdleTimeout > 0 {
		s.ReadTimeout = cfg.IdleTimeout
	}
	h.srv = s
	go s.Serve(l)
	return h, nil
}

func (h *NextHop) Close() { h.srv.Close() }

// Script sets the scripted reply for a key ("" removes it).
func (h *NextHop) Script(key, val string) {
	h.mu.Lock()
	defer h.mu.Unlock()
	if val == "" {
		delete(h.script, key)
	} else {
		h.script[key] = val
	}
}

func (h *NextHop) ResetScript() {
	h.mu.Lock()
	h.script = map[string]string{}
	h.mu.Unlock()
}

func (h *NextHop) Messages() []HopMsg {
	h.mu.Lock()
	defer h.mu.Unlock()
	return append([]HopMsg(nil), h.Msgs...)
}

func (h *NextHop) Sessions() int {
	h.mu.Lock()
	defer h.mu.Unlock()
	return h.sessions
}

func (h *NextHop) get(keys ...string) string {
	h.mu.Lock()
	defer h.mu.Unlock()
	for _, k := range keys {
		if v, ok := h.script[k]; ok {
			return v
		}
	}
	return ""
}

func hopErr(cls, what string) *smtp.SMTPError {
	switch cls {
	case "Tn": // replies without an enhanced status code (servers without ENHANCEDSTATUSCODES)
		return &smtp.SMTPError{Code: 450, EnhancedCode: smtp.NoEnhancedCode, Message: "next hop: try again later, " + what}
	case "Pn":
		return &smtp.SMTPError{Code: 550, EnhancedCode: smtp.NoEnhancedCode, Message: "next hop: no such user here, " + what}
	case "T":
		return &smtp.SMTPError{Code: 451, EnhancedCode: smtp.EnhancedCode{4, 3, 0}, Message: "next hop: temporary failure at " + what}
	case "T421": // "service not available, closing transmission channel" (the server keeps the connection open here)
		return &smtp.SMTPError{Code: 421, EnhancedCode: smtp.EnhancedCode{4, 4, 2}, Message: "next hop: shutting down, " + what}
	case "P":
		return &smtp.SMTPError{Code: 550, EnhancedCode: smtp.EnhancedCode{5, 1, 1}, Message: "next hop: permanent failure at " + what}
	}
	return nil
}

type hopSession struct {
	h    *NextHop
	conn *smtp.Conn
	n    int
	msg  *HopMsg
	plan map[string]string
	tx   *HopTx
	// the server closes the connection once the reply to DATA is on the wire
	goneAfterData bool
}

func (s *hopSession) get(keys ...string) string {
	if s.plan != nil {
		for _, k := range keys {
			if v, ok := s.plan[k]; ok {
				return v
			}
		}
		return ""
	}
	return s.h.get(keys...)
}

func (s *hopSession) txDone() {
	// may be called from the connection's goroutine (Reset, Logout) and from the LMTP data goroutine
	s.h.mu.Lock()
	defer s.h.mu.Unlock()
	if s.tx != nil {
		s.h.TxLog = append(s.h.TxLog, *s.tx)
		s.tx = nil
	}
}

// MailCount is the number of MAIL commands seen so far (HopTx.N of the next transaction).
func (h *NextHop) MailCount() int {
	h.mu.Lock()
	defer h.mu.Unlock()
	return h.ntx
}

// Transactions returns what the server saw, one entry per MAIL command (finished or abandoned ones).
func (h *NextHop) Transactions() []HopTx {
	h.mu.Lock()
	defer h.mu.Unlock()
	return append([]HopTx(nil), h.TxLog...)
}

func (h *NextHop) NewSession(c *smtp.Conn) (smtp.Session, error) {
	h.mu.Lock()
	h.sessions++
	n := h.sessions
	h.mu.Unlock()
	return &hopSession{h: h, conn: c, n: n}, nil
}

func (s *hopSession) AuthMechanisms() []string         { return nil }
func (s *hopSession) Auth(string) (sasl.Server, error) { return nil, errors.New("no auth") }
func (s *hopSession) Reset() {
	s.msg = nil
	s.txDone()
	if s.goneAfterData {
		// go-smtp resets the session right after it has written the reply to DATA
		s.goneAfterData = false
		s.conn.Conn().Close()
	}
}
func (s *hopSession) Logout() error { s.txDone(); return nil }

func (s *hopSession) act(cls, what string) error {
	if cls == "drop" {
		if s.tx != nil {
			s.tx.Dropped = true
		}
		s.conn.Conn().Close()
		return &smtp.SMTPError{Code: 421, EnhancedCode: smtp.EnhancedCode{4, 4, 2}, Message: "dropping"}
	}
	if cls == "slow" {
		// a positive reply that comes later than the client is willing to wait (SlowReply against its command time-out)
		time.Sleep(SlowReply)
		return nil
	}
	if e := hopErr(cls, what); e != nil {
		return e
	}
	return nil
}

// SlowReply is the delay of the replies scripted as "slow".
const SlowReply = 250 * time.Millisecond

func (s *hopSession) Mail(from string, opts *smtp.MailOptions) error {
	s.txDone()
	s.h.mu.Lock()
	s.plan = nil
	if s.h.Plans != nil {
		s.plan = map[string]string{}
		if s.h.ntx < len(s.h.Plans) && s.h.Plans[s.h.ntx] != nil {
			s.plan = s.h.Plans[s.h.ntx]
		}
	}
	s.tx = &HopTx{N: s.h.ntx, From: from, RcptErr: map[string]string{}, Status: map[string]string{}}
	s.h.ntx++
	s.h.mu.Unlock()
	if err := s.act(s.get("mail"), "MAIL"); err != nil {
		s.tx.MailErr = s.get("mail")
		s.txDone()
		return err
	}
	_, isTLS := s.conn.TLSConnectionState()
	s.msg = &HopMsg{From: from, Opts: *opts, TLS: isTLS, Session: s.n}
	return nil
}

func (s *hopSession) Rcpt(to string, _ *smtp.RcptOptions) error {
	if s.tx != nil {
		s.tx.Rcpts = append(s.tx.Rcpts, to)
	}
	if err := s.act(s.get("rcpt:"+to, "rcpt"), "RCPT"); err != nil {
		if s.tx != nil {
			s.tx.RcptErr[to] = s.get("rcpt:"+to, "rcpt")
		}
		return err
	}
	if s.msg == nil {
		s.msg = &HopMsg{Session: s.n}
	}
	s.msg.To = append(s.msg.To, to)
	return nil
}

func (s *hopSession) Data(r io.Reader) error {
	b, err := io.ReadAll(r)
	if err != nil {
		return err
	}
	if s.tx != nil {
		s.tx.DataSeen = true
	}
	if s.get("data") == "S2" {
		// the message is taken, but the reply is a positive one other than "250" (e.g. "252 message queued")
		s.msg.Data = b
		s.h.mu.Lock()
		s.h.Msgs = append(s.h.Msgs, *s.msg)
		s.h.mu.Unlock()
		s.txDone()
		return &smtp.SMTPError{Code: 252, EnhancedCode: smtp.EnhancedCode{2, 0, 0}, Message: "message queued"}
	}
	if err := s.act(s.get("data"), "DATA"); err != nil {
		if s.tx != nil {
			s.tx.DataErr = s.get("data")
		}
		s.txDone()
		return err
	}
	s.msg.Data = b
	s.h.mu.Lock()
	s.h.Msgs = append(s.h.Msgs, *s.msg)
	s.h.mu.Unlock()
	if s.get("afterdata") == "drop" {
		// the message is accepted; the server goes away before the client can say QUIT
		s.goneAfterData = true
	}
	s.txDone()
	return nil
}

func (s *hopSession) LMTPData(r io.Reader, status smtp.StatusCollector) error {
	s.h.mu.Lock()
	tx := s.tx // the connection's goroutine may end the transaction (Logout) while this one still runs
	s.h.mu.Unlock()
	b, err := io.ReadAll(r)
	if err != nil {
		return err
	}
	if tx != nil {
		tx.DataSeen = true
	}
	if err := s.act(s.get("data"), "DATA"); err != nil {
		if tx != nil {
			tx.DataErr = s.get("data")
		}
		s.txDone()
		return err
	}
	defer s.txDone()
	s.msg.Data = b
	delivered := *s.msg
	delivered.To = nil
	dropAfter := -1
	if v := s.get("dropafter"); v != "" {
		dropAfter, _ = strconv.Atoi(v)
	}
	for i, rc := range s.msg.To {
		if i == dropAfter {
			// the server dies after it has answered for the first `dropAfter` recipients
			time.Sleep(3 * time.Millisecond) // let the replies already produced reach the wire
			s.h.mu.Lock()
			s.h.Msgs = append(s.h.Msgs, delivered)
			s.h.mu.Unlock()
			if tx != nil {
				tx.Dropped = true
			}
			s.conn.Conn().Close()
			return &smtp.SMTPError{Code: 421, EnhancedCode: smtp.EnhancedCode{4, 4, 2}, Message: "dropping"}
		}
		if e := hopErr(s.get("status:"+rc, "status"), "delivery to "+rc); e != nil {
			if tx != nil {
				tx.Status[rc] = s.get("status:"+rc, "status")
			}
			status.SetStatus(rc, e)
			continue
		}
		if tx != nil {
			tx.Status[rc] = ""
		}
		status.SetStatus(rc, nil)
		delivered.To = append(delivered.To, rc)
	}
	s.h.mu.Lock()
	s.h.Msgs = append(s.h.Msgs, delivered)
	s.h.mu.Unlock()
	return nil
}
