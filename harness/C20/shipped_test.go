package maddy

// C20, last clause: "the configuration files shipped with maddy parse and pass
// pipeline validation". The shipped files are loaded the way `maddy run` does
// it (cfgparser.Read -> ReadGlobals -> RegisterModules -> initModules: every
// endpoint parses its pipeline and every referenced module is initialised),
// for generated values of the three variables an administrator is told to
// edit ($(hostname), $(primary_domain), $(local_domains); MADDY_HOSTNAME /
// MADDY_DOMAIN for the Docker variant). The module registry is process-global,
// so every case runs in a child process (this test binary re-executed).
//
// Only what cannot exist in the sandbox is substituted: listen addresses
// become 127.0.0.1:0, the `tls file ...` certificate pair becomes a pair
// generated for the case, state and runtime directories are temporary.

import (
	"bytes"
	"crypto/ecdsa"
	"crypto/elliptic"
	"crypto/rand"
	"crypto/x509"
	"crypto/x509/pkix"
	"encoding/json"
	"encoding/pem"
	"fmt"
	"math/big"
	"os"
	"os/exec"
	"path/filepath"
	"strings"
	"testing"
	"time"

	parser "github.com/foxcpp/maddy/framework/cfgparser"
	"github.com/foxcpp/maddy/framework/config"
	"github.com/foxcpp/maddy/framework/log"
	"github.com/foxcpp/maddy/framework/module"
	"pgregory.net/rapid"
	"verifkit/ev"
)

type c20sCase struct {
	File     string   `json:"file"` // maddy.conf | maddy.conf.docker
	Hostname string   `json:"hostname"`
	Primary  string   `json:"primary_domain"`
	Extra    []string `json:"more_local_domains,omitempty"`
}

var c20sDomains = []string{"example.org", "mail.example.org", "EXAMPLE.ORG", "xn--e1aybc.example", "тест.example", "a.b.c.d.example.co.uk",
	"bücher.example", "example.xn--p1ai", "x.org", "mx1.sub-domain.example.net", strings.Repeat("a", 60) + ".example"}

func c20sGen(t *rapid.T) c20sCase {
	c := c20sCase{File: rapid.SampledFrom([]string{"maddy.conf", "maddy.conf.docker"}).Draw(t, "file"),
		Hostname: rapid.SampledFrom(c20sDomains).Draw(t, "hostname"), Primary: rapid.SampledFrom(c20sDomains).Draw(t, "primary")}
	c.Extra = rapid.SliceOfNDistinct(rapid.SampledFrom(c20sDomains), 0, 2, rapid.ID[string]).Draw(t, "extra")
	return c
}

func c20sRepo() string {
	if r := os.Getenv("VERIF_REPO"); r != "" {
		return r
	}
	return "/repo"
}

func c20sRun(c c20sCase) []ev.V {
	r := ev.Get("C20")
	js, _ := json.Marshal(c)
	dir, err := os.MkdirTemp("", "c20shipped")
	if err != nil {
		r.HarnessError("%v", err)
		return nil
	}
	defer os.RemoveAll(dir)
	cmd := exec.Command(os.Args[0], "-test.run", "^TestVerifC20ShippedChild$", "-test.timeout", "120s")
	cmd.Env = append(os.Environ(), "VERIF_C20_CASE="+string(js), "VERIF_C20_DIR="+dir, "MADDY_HOSTNAME="+c.Hostname, "MADDY_DOMAIN="+c.Primary)
	var out bytes.Buffer
	cmd.Stdout, cmd.Stderr = &out, &out
	err = cmd.Run()
	s := out.String()
	switch {
	case strings.Contains(s, "C20S-RESULT ok"):
		return nil
	case strings.Contains(s, "C20S-RESULT harness:"):
		r.HarnessError("child: %s", s[strings.Index(s, "C20S-RESULT harness:"):])
		return nil
	case strings.Contains(s, "C20S-RESULT stage="):
		line := s[strings.Index(s, "C20S-RESULT stage="):]
		if i := strings.IndexByte(line, '\n'); i > 0 {
			line = line[:i]
		}
		stage := strings.Fields(strings.TrimPrefix(line, "C20S-RESULT stage="))[0]
		return []ev.V{ev.Vf("shipped:"+c.File+":"+stage, "%s with hostname=%q primary_domain=%q local_domains+=%q is refused: %s", c.File, c.Hostname, c.Primary, c.Extra, line)}
	}
	if len(s) > 4000 {
		s = s[:2500] + "\n[...]\n" + s[len(s)-1500:]
	}
	return []ev.V{ev.Vf("shipped:"+c.File+":crash", "loading %s with hostname=%q primary_domain=%q crashed or hung (%v):\n%s", c.File, c.Hostname, c.Primary, err, s)}
}

func TestVerifC20Shipped(t *testing.T) {
	r := ev.Get("C20")
	r.Assume("shipped configuration files: listen addresses are replaced by unix sockets in a temporary directory, the `tls file` certificate pair by a generated one, state_dir/runtime_dir by temporary directories; " +
		"everything else, including every pipeline, check, modifier, table, storage and target block, is loaded exactly as `maddy run` does")
	ev.Run(t, r, ev.Spec[c20sCase]{Name: "shipped-configs", N: r.N, Gen: c20sGen, Run: c20sRun, Info: func(c c20sCase) ev.Info {
		idn := false
		for _, d := range append([]string{c.Hostname, c.Primary}, c.Extra...) {
			if strings.Contains(strings.ToLower(d), "xn--") || strings.IndexFunc(d, func(r rune) bool { return r >= 0x80 }) >= 0 {
				idn = true
			}
		}
		return ev.Info{Nontrivial: idn || len(c.Extra) > 0 || c.Hostname != c.Primary, Classes: []string{"file=" + c.File, fmt.Sprintf("idn=%v", idn)}}
	}})
}

func c20sCert(dir, host string) (certPath, keyPath string, err error) {
	key, err := ecdsa.GenerateKey(elliptic.P256(), rand.Reader)
	if err != nil {
		return "", "", err
	}
	tmpl := &x509.Certificate{SerialNumber: big.NewInt(1), Subject: pkix.Name{CommonName: "c20"}, NotBefore: time.Now().Add(-time.Hour), NotAfter: time.Now().Add(24 * time.Hour),
		DNSNames: []string{"mx.example.org"}, KeyUsage: x509.KeyUsageDigitalSignature, ExtKeyUsage: []x509.ExtKeyUsage{x509.ExtKeyUsageServerAuth}}
	der, err := x509.CreateCertificate(rand.Reader, tmpl, tmpl, &key.PublicKey, key)
	if err != nil {
		return "", "", err
	}
	kb, err := x509.MarshalPKCS8PrivateKey(key)
	if err != nil {
		return "", "", err
	}
	certPath, keyPath = filepath.Join(dir, "fullchain.pem"), filepath.Join(dir, "privkey.pem")
	if err := os.WriteFile(certPath, pem.EncodeToMemory(&pem.Block{Type: "CERTIFICATE", Bytes: der}), 0o600); err != nil {
		return "", "", err
	}
	return certPath, keyPath, os.WriteFile(keyPath, pem.EncodeToMemory(&pem.Block{Type: "PRIVATE KEY", Bytes: kb}), 0o600)
}

// TestVerifC20ShippedChild loads one shipped file in this (fresh) process.
func TestVerifC20ShippedChild(t *testing.T) {
	js := os.Getenv("VERIF_C20_CASE")
	if js == "" {
		t.Skip("child of TestVerifC20Shipped only")
	}
	var c c20sCase
	if err := json.Unmarshal([]byte(js), &c); err != nil {
		fmt.Println("C20S-RESULT harness: bad case", err)
		return
	}
	dir := os.Getenv("VERIF_C20_DIR")
	src, err := os.ReadFile(filepath.Join(c20sRepo(), c.File))
	if err != nil {
		fmt.Println("C20S-RESULT harness:", err)
		return
	}
	text := string(src)
	// the three variables the file tells the administrator to edit
	repl := func(name, val string) bool {
		lines := strings.Split(text, "\n")
		for i, l := range lines {
			if strings.HasPrefix(l, "$("+name+") =") {
				lines[i] = "$(" + name + ") = " + val
				text = strings.Join(lines, "\n")
				return true
			}
		}
		return false
	}
	if c.File == "maddy.conf" {
		if !repl("hostname", c.Hostname) || !repl("primary_domain", c.Primary) {
			fmt.Println("C20S-RESULT harness: variable definitions not found in", c.File)
			return
		}
	}
	if !repl("local_domains", strings.Join(append([]string{"$(primary_domain)"}, c.Extra...), " ")) {
		fmt.Println("C20S-RESULT harness: $(local_domains) not found in", c.File)
		return
	}
	nodes, err := parser.Read(strings.NewReader(text), filepath.Join(c20sRepo(), c.File))
	if err != nil {
		fmt.Println("C20S-RESULT stage=parse", err)
		return
	}
	certPath, keyPath, err := c20sCert(dir, c.Hostname)
	if err != nil {
		fmt.Println("C20S-RESULT harness:", err)
		return
	}
	state := filepath.Join(dir, "state")
	var cfg []config.Node
	nsock := 0
	cfg = append(cfg, config.Node{Name: "state_dir", Args: []string{state}}, config.Node{Name: "runtime_dir", Args: []string{filepath.Join(dir, "run")}})
	for _, n := range nodes {
		if n.Name == "tls" && len(n.Args) == 3 && n.Args[0] == "file" {
			n.Args = []string{"file", certPath, keyPath}
		}
		if module.GetEndpoint(n.Name) != nil {
			for i := range n.Args {
				nsock++
				n.Args[i] = fmt.Sprintf("unix://%s/s%d.sock", dir, nsock)
			}
		}
		cfg = append(cfg, n)
	}
	log.DefaultLogger.Out = log.NopOutput{}
	globals, modBlocks, err := ReadGlobals(cfg)
	if err != nil {
		fmt.Println("C20S-RESULT stage=globals", err)
		return
	}
	if err := InitDirs(); err != nil {
		fmt.Println("C20S-RESULT harness: InitDirs:", err)
		return
	}
	endpoints, mods, err := RegisterModules(globals, modBlocks)
	if err != nil {
		fmt.Println("C20S-RESULT stage=register", err)
		return
	}
	// No orderly shutdown afterwards: Endpoint.Close right after Init can wait for ever (the Serve
	// goroutine may register its listener with go-smtp only after Server.Close has run); the process
	// simply exits. Noted in DESIGN.md 7.5, outside the listed properties.
	if err := initModules(globals, endpoints, mods); err != nil {
		fmt.Println("C20S-RESULT stage=init", err)
		os.Stdout.Sync()
		os.Exit(0)
	}
	fmt.Println("C20S-RESULT ok")
	os.Stdout.Sync()
	os.Exit(0)
}
