package smtp

// C16, replies to AUTH: a failed authentication is a failure maddy itself
// reports to an SMTP client. Generated AUTH exchanges (PLAIN with and without
// initial response, LOGIN) against the real submission endpoint with an
// authentication provider whose answer is scripted per account: accepted,
// unknown credentials, an unclassified provider error, a temporary provider
// error carrying internal detail.

import (
	"bufio"
	"encoding/base64"
	"errors"
	"fmt"
	"net"
	"strconv"
	"strings"
	"testing"
	"time"

	"github.com/foxcpp/maddy/framework/config"
	"github.com/foxcpp/maddy/framework/exterrors"
	"github.com/foxcpp/maddy/framework/log"
	"github.com/foxcpp/maddy/framework/module"
	"pgregory.net/rapid"
	"verifkit/ev"
)

type c16aCase struct {
	Mech      string `json:"mech"`      // PLAIN | PLAIN-continued | LOGIN
	Behaviour string `json:"behaviour"` // ok | unknown | unclassified | temporary
	Authzid   bool   `json:"authzid"`   // PLAIN: authorization identity given (equal to the user name)
	SASLLogin bool   `json:"sasl_login"`
}

const c16aDetail = "dial tcp 10.1.2.3:389: connect: connection refused (ldap bind cn=admin,dc=corp)"

type c16aAuth struct{}

func (c16aAuth) Init(*config.Map) error { return nil }
func (c16aAuth) Name() string          { return "auth.verif_c16auth" }
func (c16aAuth) InstanceName() string  { return "verif_c16auth" }
func (c16aAuth) AuthPlain(user, pass string) error {
	switch user {
	case "ok":
		return nil
	case "unknown":
		return module.ErrUnknownCredentials
	case "unclassified":
		return errors.New("sql: no rows in result set")
	default:
		return exterrors.WithTemporary(errors.New(c16aDetail), true)
	}
}

func init() {
	module.Register("auth.verif_c16auth", func(_, _ string, _, _ []string) (module.Module, error) { return c16aAuth{}, nil })
}

type c16aReply struct {
	Code int
	Ench [3]int
	Has  bool
	Text string
}

func c16aRead(r *bufio.Reader) (c16aReply, error) {
	var rep c16aReply
	for {
		line, err := r.ReadString('\n')
		if err != nil {
			return rep, err
		}
		line = strings.TrimRight(line, "\r\n")
		if len(line) < 4 {
			return rep, fmt.Errorf("short reply line %q", line)
		}
		rep.Code, _ = strconv.Atoi(line[:3])
		text := line[4:]
		var a, b, c int
		if n, _ := fmt.Sscanf(text, "%d.%d.%d", &a, &b, &c); n == 3 {
			rep.Ench, rep.Has = [3]int{a, b, c}, true
		}
		rep.Text += text + "\n"
		if line[3] == ' ' {
			return rep, nil
		}
	}
}

func c16aRun(sc c16aCase) (vs []ev.V) {
	r := ev.Get("C16")
	mod, err := New("submission", []string{"tcp://127.0.0.1:0"})
	if err != nil {
		r.HarnessError("%v", err)
		return nil
	}
	endp := mod.(*Endpoint)
	endp.Log = log.Logger{Out: log.NopOutput{}}
	cfg := []config.Node{
		{Name: "hostname", Args: []string{"mx.maddy.test"}},
		{Name: "tls", Args: []string{"off"}},
		{Name: "auth", Args: []string{"verif_c16auth"}},
		{Name: "sasl_login", Args: []string{map[bool]string{true: "yes", false: "no"}[sc.SASLLogin]}},
		{Name: "deliver_to", Args: []string{"verif_mon", "t1"}},
	}
	if err := endp.Init(config.NewMap(nil, config.Node{Children: cfg})); err != nil {
		r.HarnessError("cannot start the submission endpoint: %v", err)
		return nil
	}
	endp.pipeline.Log = log.Logger{Out: log.NopOutput{}}
	defer endp.Close()
	conn, err := net.DialTimeout("tcp", endp.listeners[0].Addr().String(), 3*time.Second)
	if err != nil {
		r.HarnessError("dial: %v", err)
		return nil
	}
	defer conn.Close()
	conn.SetDeadline(time.Now().Add(20 * time.Second))
	rd := bufio.NewReader(conn)
	var dialog []string
	xchg := func(line string) (c16aReply, bool) {
		if line != "" {
			dialog = append(dialog, "C: "+line)
			if _, err := conn.Write([]byte(line + "\r\n")); err != nil {
				return c16aReply{}, false
			}
		}
		rep, err := c16aRead(rd)
		if err != nil {
			return rep, false
		}
		dialog = append(dialog, fmt.Sprintf("S: %d %s", rep.Code, strings.TrimSpace(rep.Text)))
		return rep, true
	}
	if _, ok := xchg(""); !ok {
		return nil
	}
	if _, ok := xchg("EHLO client.example"); !ok {
		return nil
	}
	b64 := func(s string) string { return base64.StdEncoding.EncodeToString([]byte(s)) }
	user := sc.Behaviour
	authz := ""
	if sc.Authzid {
		authz = user
	}
	var rep c16aReply
	ok := true
	switch sc.Mech {
	case "PLAIN":
		rep, ok = xchg("AUTH PLAIN " + b64(authz+"\x00"+user+"\x00secret"))
	case "PLAIN-continued":
		rep, ok = xchg("AUTH PLAIN")
		if ok && rep.Code == 334 {
			rep, ok = xchg(b64(authz + "\x00" + user + "\x00secret"))
		}
	default:
		rep, ok = xchg("AUTH LOGIN")
		if ok && rep.Code == 334 {
			rep, ok = xchg(b64(user))
			if ok && rep.Code == 334 {
				rep, ok = xchg(b64("secret"))
			}
		}
	}
	if !ok {
		return nil
	}
	desc := fmt.Sprintf("AUTH %s for an account whose provider answers %q is answered %d %v %q\n%s", sc.Mech, sc.Behaviour, rep.Code, rep.Ench, strings.TrimSpace(rep.Text), strings.Join(dialog, "\n"))
	if sc.Mech == "LOGIN" && !sc.SASLLogin {
		// mechanism not offered: refused whatever the credentials are; only coherence is asserted
		if rep.Code == 235 {
			vs = append(vs, ev.Vf("auth-reply:login-although-disabled", "%s", desc))
		}
	} else if sc.Behaviour == "ok" {
		if rep.Code != 235 {
			vs = append(vs, ev.Vf("auth-reply:valid-credentials-refused", "%s", desc))
		}
		return vs
	}
	if rep.Code == 235 {
		return vs
	}
	class := rep.Code / 100
	if class != 4 && class != 5 {
		vs = append(vs, ev.Vf("auth-reply:code-class", "%s: neither 4yz nor 5yz", desc))
		return vs
	}
	if rep.Has && rep.Ench[0] != class {
		vs = append(vs, ev.Vf("auth-reply:enhanced-class-differs", "%s", desc))
	}
	if !(sc.Mech == "LOGIN" && !sc.SASLLogin) {
		want := 5
		if sc.Behaviour == "temporary" {
			want = 4
		}
		if class != want {
			vs = append(vs, ev.Vf("auth-reply:class-vs-treatment:"+sc.Behaviour, "%s: the failure is %s", desc, map[int]string{4: "temporary (the provider said so)", 5: "permanent (the credentials are not accepted; nothing marks the failure temporary)"}[want]))
		}
	}
	for _, m := range []string{"10.1.2.3", "ldap", "cn=admin", "sql:", "no rows"} {
		if strings.Contains(rep.Text, m) {
			vs = append(vs, ev.Vf("auth-reply:discloses-internal-detail", "%s: the reply contains %q", desc, m))
			break
		}
	}
	return vs
}

func TestVerifC16Auth(t *testing.T) {
	r := ev.Get("C16")
	ev.Run(t, r, ev.Spec[c16aCase]{Name: "auth-replies", N: r.Scale(1, 100, 60), Gen: func(t *rapid.T) c16aCase {
		return c16aCase{Mech: rapid.SampledFrom([]string{"PLAIN", "PLAIN-continued", "LOGIN"}).Draw(t, "mech"),
			Behaviour: rapid.SampledFrom([]string{"ok", "unknown", "unknown", "unclassified", "temporary"}).Draw(t, "behaviour"),
			Authzid:   rapid.Bool().Draw(t, "authzid"), SASLLogin: rapid.IntRange(0, 3).Draw(t, "sasl_login") != 0}
	}, Run: c16aRun, Info: func(sc c16aCase) ev.Info {
		return ev.Info{Nontrivial: sc.Behaviour != "ok", Classes: []string{"mech=" + sc.Mech, "behaviour=" + sc.Behaviour}}
	}})
}
