package queue

// C08 harness: modify.dkim (real Init, generated keys) -> real queue spool
// (optionally closed and re-opened so the header is re-read from disk) -> real
// SMTP client (target.smtp) -> loopback next hop capturing the DATA bytes.
// Oracle: the captured bytes verify against the key the signer published (.dns
// file), both raw and after the parse/serialise cycle maddy's own check.dkim
// performs; tampering with a signed field at the next hop makes verification
// fail.

import (
	"bufio"
	"bytes"
	"context"
	"errors"
	"fmt"
	"io"
	"os"
	"path/filepath"
	"strings"
	"sync"
	"testing"
	"time"

	"github.com/emersion/go-message/textproto"
	"github.com/emersion/go-msgauth/dkim"
	"github.com/emersion/go-smtp"
	"github.com/foxcpp/maddy/framework/buffer"
	"github.com/foxcpp/maddy/framework/config"
	"github.com/foxcpp/maddy/framework/exterrors"
	"github.com/foxcpp/maddy/framework/log"
	"github.com/foxcpp/maddy/framework/module"
	moddkim "github.com/foxcpp/maddy/internal/modify/dkim"
	smtptarget "github.com/foxcpp/maddy/internal/target/smtp"
	"github.com/foxcpp/maddy/internal/verifx"
	"golang.org/x/net/idna"
	"pgregory.net/rapid"
	"verifkit/ev"
)

type c08Field struct {
	Name  string `json:"name"`
	Value ev.QS  `json:"value"` // everything after the colon, without the final CRLF (may contain CRLF+WSP folds)
}

type c08Case struct {
	Algo        string     `json:"key"`
	HeaderCanon string     `json:"header_canon"`
	BodyCanon   string     `json:"body_canon"`
	Extra       bool       `json:"explicit_field_lists"` // signer configured with explicit oversign_fields/sign_fields incl. repeated fields
	EAI         bool       `json:"smtputf8"`
	Sender      string     `json:"sender"`
	Domains     []string   `json:"sign_domains"` // as spelled in the signer's configuration; the first one is used for <> and postmaster
	SignSub     bool       `json:"sign_subdomains"`
	Fields      []c08Field `json:"fields"`
	Body        ev.QS      `json:"body"`
	Restart     bool       `json:"restart"` // the queue is closed after a failed first attempt and re-opened: the header is re-read from the spool
	BodyInFile  bool       `json:"body_in_file"`
	Victim      int        `json:"victim"` // which signed field the tampering picks
	AddAt       int        `json:"add_at"`
}

const c08Selector = "sel"

var (
	c08IDN        = "тест.example"
	c08IDNA, _    = idna.ToASCII(c08IDN)
	c08DomainSets = [][]string{{"example.org", c08IDN}, {c08IDN, "example.org"}, {c08IDNA, "example.org"}, {"example.org"}, {c08IDN}, {c08IDNA}}
	c08Oversign   = []string{"Subject", "To", "From", "Date", "MIME-Version", "Content-Type", "Content-Transfer-Encoding", "Reply-To", "Message-Id", "References", "Autocrypt", "Openpgp"}
	c08Sign       = []string{"List-Id", "List-Help", "List-Unsubscribe", "List-Post", "List-Owner", "List-Archive", "Resent-To", "Resent-Sender", "Resent-Message-Id", "Resent-Date", "Resent-From", "Resent-Cc"}
	// explicit lists used by the `Extra` signers
	c08XOversign = []string{"From", "Subject", "To", "Date", "X-Verif-Once"}
	c08XSign     = []string{"Received", "Comments", "Keywords", "X-Verif-Many", "Resent-To"}

	c08Mu     sync.Mutex
	c08Mods   = map[string]*moddkim.Modifier{}
	c08KeyDir string
	c08Hop    *verifx.NextHop
)

func c08Modifier(c *c08Case) (*moddkim.Modifier, error) {
	c08Mu.Lock()
	defer c08Mu.Unlock()
	key := fmt.Sprintf("%s/%s/%s/%v/%v/%v", c.Algo, c.HeaderCanon, c.BodyCanon, c.Extra, c.Domains, c.SignSub)
	if m, ok := c08Mods[key]; ok {
		return m, nil
	}
	if c08KeyDir == "" {
		d, err := os.MkdirTemp("", "c08keys")
		if err != nil {
			return nil, err
		}
		c08KeyDir = d
	}
	mod, err := moddkim.New("modify.dkim", "verif", nil, append(append([]string{}, c.Domains...), c08Selector))
	if err != nil {
		return nil, err
	}
	nodes := []config.Node{
		{Name: "key_path", Args: []string{filepath.Join(c08KeyDir, c08KeySet(c), "{domain}_{selector}.key")}},
		{Name: "sign_subdomains", Args: []string{map[bool]string{true: "yes", false: "no"}[c.SignSub]}},
		{Name: "newkey_algo", Args: []string{c.Algo}},
		{Name: "header_canon", Args: []string{c.HeaderCanon}},
		{Name: "body_canon", Args: []string{c.BodyCanon}},
	}
	if c.Extra {
		nodes = append(nodes, config.Node{Name: "oversign_fields", Args: c08XOversign}, config.Node{Name: "sign_fields", Args: c08XSign})
	}
	if err := mod.(*moddkim.Modifier).Init(config.NewMap(nil, config.Node{Children: nodes})); err != nil {
		return nil, err
	}
	c08Mods[key] = mod.(*moddkim.Modifier)
	return c08Mods[key], nil
}

// c08TXT is the DNS of the test: the record the signer wrote to the .dns file,
// published at <selector>._domainkey.<domain>. A U-label query name is
// converted to A-labels first (the zone holds A-labels).
func c08KeySet(c *c08Case) string { return c.Algo + "-" + strings.Join(c.Domains, "+") }

func c08TXT(algo string, ulabel *bool) func(string) ([]string, error) {
	return func(name string) ([]string, error) {
		name = strings.TrimSuffix(name, ".")
		for i := 0; i < len(name); i++ {
			if name[i] >= 0x80 {
				*ulabel = true
			}
		}
		an, err := idna.ToASCII(name)
		if err != nil {
			return nil, fmt.Errorf("bad name %q", name)
		}
		an = strings.ToLower(an)
		for _, d := range []string{"example.org", c08IDN, c08IDNA} { // whichever spelling the signer was configured with
			ad, _ := idna.ToASCII(d)
			if an == c08Selector+"._domainkey."+ad {
				b, err := os.ReadFile(filepath.Join(c08KeyDir, algo, d+"_"+c08Selector+".dns"))
				if err != nil {
					continue
				}
				return []string{string(b)}, nil
			}
		}
		return nil, nil
	}
}

// ---- generator ---------------------------------------------------------------------------

var c08Once = []string{"Subject", "To", "Date", "MIME-Version", "Content-Type", "Content-Transfer-Encoding", "Reply-To", "Message-Id", "References",
	"Autocrypt", "Openpgp", "List-Id", "List-Help", "List-Unsubscribe", "List-Post", "List-Owner", "List-Archive", "Cc", "Sender", "In-Reply-To", "X-Verif-Once"}
var c08Many = []string{"Received", "Comments", "Keywords", "X-Verif-Many", "Resent-To", "Resent-From", "Resent-Date", "Resent-Message-Id", "X-Unsigned"}

func c08NameCase(t *rapid.T, n string) string {
	switch rapid.IntRange(0, 5).Draw(t, "namecase") {
	case 0:
		return strings.ToLower(n)
	case 1:
		return strings.ToUpper(n)
	}
	return n
}

var c08WordsASCII = []string{"a", "hello", "World", "=?utf-8?q?h=C3=A9?=", "<user@example.org>", "\"quoted  text\"", "(comment)", "a=b;", "x:y", "1.0",
	"text/plain;", "charset=utf-8", "Mon,", "2", "Jan", "2006", "15:04:05", "-0700", ".", "..", "-", "DKIM-Signature:", "b=", "bh=abc"}
var c08WordsUTF8 = []string{"héllo", "тест", "日本語", "é", "<юзер@тест.example>", "\U0001F600"}

func c08Value(t *rapid.T, eai bool) string {
	var b strings.Builder
	lineLen := 40 // generous allowance for the field name
	emit := func(s string) {
		b.WriteString(s)
		lineLen += len(s)
	}
	switch rapid.IntRange(0, 7).Draw(t, "lead") {
	case 0: // nothing after the colon
	case 1:
		emit("  ")
	case 2:
		emit("\t")
	default:
		emit(" ")
	}
	n := rapid.IntRange(0, 8).Draw(t, "nwords")
	if rapid.IntRange(0, 9).Draw(t, "emptyvalue") == 0 {
		n = 0
	}
	for i := 0; i < n; i++ {
		var w string
		k := rapid.IntRange(0, 19).Draw(t, "wordkind")
		switch {
		case k == 0:
			w = strings.Repeat("L", rapid.IntRange(100, 900).Draw(t, "longword"))
		case k <= 3 && eai:
			w = rapid.SampledFrom(c08WordsUTF8).Draw(t, "uword")
		case k == 4:
			w = rapid.StringMatching(`[!-~]{1,20}`).Draw(t, "rword")
		default:
			w = rapid.SampledFrom(c08WordsASCII).Draw(t, "word")
		}
		if i > 0 {
			sep := rapid.IntRange(0, 5).Draw(t, "sep")
			switch {
			case sep <= 1 || lineLen+len(w)+4 > 990:
				fold := "\r\n" + rapid.SampledFrom([]string{" ", "\t", "  ", " \t ", "        "}).Draw(t, "foldws")
				if sep == 1 {
					fold = " " + fold // trailing whitespace before the fold
				}
				b.WriteString(fold)
				lineLen = 8
			case sep == 2:
				emit("  ")
			case sep == 3:
				emit("\t")
			default:
				emit(" ")
			}
		} else if lineLen+len(w) > 990 {
			b.WriteString("\r\n ")
			lineLen = 1
		}
		emit(w)
	}
	if n > 0 && rapid.IntRange(0, 4).Draw(t, "trailws") == 0 {
		emit(rapid.SampledFrom([]string{" ", "  ", "\t", " \t"}).Draw(t, "trail"))
	}
	return b.String()
}

var c08BodyLines = []string{"", "", ".", "..", "...", ".leading dot", "text", "trailing space ", "trailing tab\t", " \t ", "\t", "  leading space",
	"From someone", "multiple   inner    spaces", "caf\xe9 latin1 \xff\xfe", "текст utf-8", "-- ", "=3D quoted=\r", "DKIM-Signature: v=1", "x"}

func c08GenBody(t *rapid.T) string {
	if rapid.IntRange(0, 7).Draw(t, "emptybody") == 0 {
		return ""
	}
	var b strings.Builder
	for i, n := 0, rapid.IntRange(0, 8).Draw(t, "nlines"); i < n; i++ {
		k := rapid.IntRange(0, 29).Draw(t, "linekind")
		switch {
		case k == 0:
			b.WriteString(strings.Repeat("x", rapid.SampledFrom([]int{997, 998, 500}).Draw(t, "longline")))
		case k == 1:
			b.WriteString("." + strings.Repeat("y", 997))
		case k == 2:
			b.WriteString(rapid.StringMatching(`[ -~\t]{0,60}`).Draw(t, "rline"))
		default:
			l := rapid.SampledFrom(c08BodyLines).Draw(t, "line")
			b.WriteString(strings.TrimSuffix(l, "\r")) // no bare CR
		}
		b.WriteString("\r\n")
	}
	for i, n := 0, rapid.SampledFrom([]int{0, 0, 1, 2, 3}).Draw(t, "trailing_empty"); i < n; i++ {
		b.WriteString("\r\n")
	}
	return b.String()
}

func c08Gen(t *rapid.T) c08Case {
	c := c08Case{
		Algo:        rapid.SampledFrom([]string{"rsa2048", "ed25519"}).Draw(t, "key"),
		HeaderCanon: rapid.SampledFrom([]string{"relaxed", "simple"}).Draw(t, "hc"),
		BodyCanon:   rapid.SampledFrom([]string{"relaxed", "simple"}).Draw(t, "bc"),
		Extra:       rapid.IntRange(0, 2).Draw(t, "extra") == 0,
		EAI:         rapid.Bool().Draw(t, "eai"),
		Restart:     rapid.IntRange(0, 2).Draw(t, "restart") != 0,
		BodyInFile:  rapid.IntRange(0, 3).Draw(t, "body_in_file") == 0,
		Victim:      rapid.IntRange(0, 1000).Draw(t, "victim"),
		AddAt:       rapid.IntRange(0, 1000).Draw(t, "add_at"),
	}
	c.Domains = rapid.SampledFrom(c08DomainSets).Draw(t, "sign_domains")
	c.SignSub = len(c.Domains) == 1 && rapid.Bool().Draw(t, "sign_subdomains")
	senders := []string{"", ""} // "postmaster" is not a valid reverse-path on the wire
	for _, d := range c.Domains {
		ad, _ := idna.ToASCII(d)
		senders = append(senders, "user@"+ad, "User.Name+tag@"+strings.ToUpper(ad))
		if c.EAI {
			senders = append(senders, "user@"+d, "юзер@"+d)
		}
		if c.SignSub {
			senders = append(senders, "user@sub."+ad, "user@a.b."+ad)
			if c.EAI {
				senders = append(senders, "user@sub."+d)
			}
		}
	}
	c.Sender = rapid.SampledFrom(senders).Draw(t, "sender")
	fromAddr := c.Sender
	if fromAddr == "" || fromAddr == "postmaster" {
		fromAddr = "mailer-daemon@example.org"
	}
	c.Fields = append(c.Fields, c08Field{Name: c08NameCase(t, "From"), Value: ev.QS(rapid.SampledFrom([]string{" ", "", " Some One ", " \"One, Some\"\r\n "}).Draw(t, "fromlead") + "<" + fromAddr + ">")})
	once := rapid.SliceOfNDistinct(rapid.SampledFrom(c08Once), 0, 8, rapid.ID[string]).Draw(t, "once")
	for _, n := range once {
		c.Fields = append(c.Fields, c08Field{Name: c08NameCase(t, n), Value: ev.QS(c08Value(t, c.EAI))})
	}
	for i, n := 0, rapid.IntRange(0, 5).Draw(t, "nmany"); i < n; i++ {
		c.Fields = append(c.Fields, c08Field{Name: c08NameCase(t, rapid.SampledFrom(c08Many).Draw(t, "many")), Value: ev.QS(c08Value(t, c.EAI))})
	}
	// order of the fields
	perm := rapid.Permutation(c.Fields).Draw(t, "order")
	c.Fields = perm
	c.Body = ev.QS(c08GenBody(t))
	return c
}

// ---- execution ------------------------------------------------------------------------------

type c08Gate struct {
	module.DeliveryTarget
	failFirst bool
	mu        sync.Mutex
	attempts  int
	done      chan error
}

var c08Later = &exterrors.SMTPError{Code: 451, EnhancedCode: exterrors.EnhancedCode{4, 4, 1}, Message: "C08: come back after the restart"}

func (g *c08Gate) Start(ctx context.Context, meta *module.MsgMetadata, from string) (module.Delivery, error) {
	g.mu.Lock()
	g.attempts++
	fail := g.failFirst
	g.mu.Unlock()
	if fail {
		defer func() { g.done <- c08Later }()
		return nil, c08Later
	}
	d, err := g.DeliveryTarget.Start(ctx, meta, from)
	if err != nil {
		g.done <- err
		return nil, err
	}
	return &c08GateDelivery{Delivery: d, g: g}, nil
}

type c08GateDelivery struct {
	module.Delivery
	g   *c08Gate
	err error
}

func (d *c08GateDelivery) AddRcpt(ctx context.Context, to string, o smtp.RcptOptions) error {
	err := d.Delivery.AddRcpt(ctx, to, o)
	if err != nil && d.err == nil {
		d.err = err
	}
	return err
}
func (d *c08GateDelivery) Body(ctx context.Context, h textproto.Header, b buffer.Buffer) error {
	err := d.Delivery.Body(ctx, h, b)
	if err != nil && d.err == nil {
		d.err = err
	}
	return err
}
func (d *c08GateDelivery) Abort(ctx context.Context) error {
	err := d.Delivery.Abort(ctx)
	if d.err == nil {
		d.err = errors.New("aborted")
	}
	d.g.done <- d.err
	return err
}
func (d *c08GateDelivery) Commit(ctx context.Context) error {
	err := d.Delivery.Commit(ctx)
	d.g.done <- err
	return err
}

func c08Queue(dir string, tgt module.DeliveryTarget, retry time.Duration) (*Queue, error) {
	mod, _ := NewQueue("", "queue", nil, nil)
	q := mod.(*Queue)
	q.initialRetryTime = retry
	q.retryTimeScale = 1
	q.postInitDelay = 0
	q.maxTries = 5
	q.location = dir
	q.hostname = "mx.maddy.test"
	q.autogenMsgDomain = "maddy.test"
	q.Target = tgt
	q.Log = log.Logger{Out: log.NopOutput{}}
	return q, q.start(4)
}

func c08Header(c *c08Case) []byte {
	var b bytes.Buffer
	for _, f := range c.Fields {
		b.WriteString(f.Name + ":" + string(f.Value) + "\r\n")
	}
	return b.Bytes()
}

// c08Blocks splits a header block into its fields (name, raw bytes incl. folds).
func c08Blocks(hdr []byte) (names []string, raws [][]byte) {
	for _, line := range bytes.SplitAfter(hdr, []byte("\r\n")) {
		if len(line) == 0 {
			continue
		}
		if (line[0] == ' ' || line[0] == '\t') && len(raws) > 0 {
			raws[len(raws)-1] = append(raws[len(raws)-1], line...)
			continue
		}
		i := bytes.IndexByte(line, ':')
		if i < 0 {
			i = len(line)
		}
		names = append(names, strings.TrimSpace(string(line[:i])))
		raws = append(raws, append([]byte(nil), line...))
	}
	return
}

type c08Verdict struct {
	Sigs int
	Err  error
}

// c08VerifyRaw verifies the bytes as they are; c08VerifyMaddy reproduces what
// maddy's SMTP endpoint + check.dkim do (parse the header, serialise it again).
func c08VerifyRaw(msg []byte, algo string, ul *bool) c08Verdict {
	vs, err := dkim.VerifyWithOptions(bytes.NewReader(msg), &dkim.VerifyOptions{LookupTXT: c08TXT(algo, ul)})
	if err != nil {
		return c08Verdict{Err: err}
	}
	v := c08Verdict{Sigs: len(vs)}
	for _, x := range vs {
		if x.Err != nil {
			v.Err = x.Err
		}
	}
	if len(vs) == 0 {
		v.Err = errors.New("no signature found")
	}
	return v
}

func c08VerifyMaddy(msg []byte, algo string, ul *bool) c08Verdict {
	br := bufio.NewReader(bytes.NewReader(msg))
	h, err := textproto.ReadHeader(br)
	if err != nil {
		return c08Verdict{Err: fmt.Errorf("next hop cannot parse the header: %w", err)}
	}
	var b bytes.Buffer
	_ = textproto.WriteHeader(&b, h)
	rest := new(bytes.Buffer)
	_, _ = rest.ReadFrom(br)
	b.Write(rest.Bytes())
	return c08VerifyRaw(b.Bytes(), algo, ul)
}

func c08In(list []string, n string) bool {
	for _, x := range list {
		if strings.EqualFold(x, n) {
			return true
		}
	}
	return false
}

func c08Run(c c08Case) (vs []ev.V) {
	r := ev.Get("C08")
	mod, err := c08Modifier(&c)
	if err != nil {
		r.HarnessError("modify.dkim init: %v", err)
		return nil
	}
	c08Mu.Lock()
	if c08Hop == nil {
		c08Hop, err = verifx.StartNextHop(verifx.HopConfig{Name: "next.hop.test", UTF8: true})
	}
	hop := c08Hop
	c08Mu.Unlock()
	if err != nil {
		r.HarnessError("next hop: %v", err)
		return nil
	}
	ctx, cancel := context.WithTimeout(context.Background(), 30*time.Second)
	defer cancel()

	// --- the submission side: header as the SMTP endpoint parses it
	rawHdr := c08Header(&c)
	hdr, err := textproto.ReadHeader(bufio.NewReader(bytes.NewReader(append(append([]byte{}, rawHdr...), '\r', '\n'))))
	if err != nil {
		r.AddExtra("generated_header_not_accepted_by_parser", 1)
		return nil
	}
	dir, err := os.MkdirTemp("", "c08spool")
	if err != nil {
		r.HarnessError("%v", err)
		return nil
	}
	defer os.RemoveAll(dir)
	var body buffer.Buffer = buffer.MemoryBuffer{Slice: []byte(c.Body)}
	if c.BodyInFile {
		fb, err := buffer.BufferInFile(strings.NewReader(string(c.Body)), dir)
		if err != nil {
			r.HarnessError("%v", err)
			return nil
		}
		defer fb.Remove()
		body = fb
	}
	meta := &module.MsgMetadata{ID: "c08msg", SMTPOpts: smtp.MailOptions{UTF8: c.EAI}, OriginalFrom: c.Sender}
	st, err := mod.ModStateForMsg(ctx, meta)
	if err != nil {
		r.HarnessError("%v", err)
		return nil
	}
	if _, err := st.RewriteSender(ctx, c.Sender); err != nil {
		return []ev.V{ev.Vf("sign:sender-refused", "RewriteSender(%q): %v", c.Sender, err)}
	}
	if err := st.RewriteBody(ctx, &hdr, body); err != nil {
		return []ev.V{ev.Vf("sign:error", "RewriteBody failed for a conformant message: %v", err)}
	}
	st.Close()
	if !hdr.Has("DKIM-Signature") {
		if strings.Contains(c.Sender, "@sub.") || strings.Contains(c.Sender, "@a.b.") {
			// sign_subdomains matches the sender's domain against the configured one as spelled; a
			// sub-domain sender in another spelling is left unsigned. The statement speaks about
			// signed messages only.
			r.AddExtra("observed_not_asserted_subdomain_sender_left_unsigned", 1)
			return nil
		}
		return []ev.V{ev.Vf("sign:not-signed", "message from %q (smtputf8=%v) was not signed by a signer for %v", c.Sender, c.EAI, c.Domains)}
	}
	sigField := hdr.Get("DKIM-Signature")
	if !c.EAI {
		for i := 0; i < len(sigField); i++ {
			if sigField[i] >= 0x80 {
				return []ev.V{ev.Vf("sign:non-ascii-signature-in-non-eai-message", "DKIM-Signature of a non-SMTPUTF8 message holds non-ASCII bytes: %q", sigField)}
			}
		}
	}

	// --- queue -> spool -> (restart) -> SMTP client -> next hop
	dmod, _ := smtptarget.NewDownstream("target.smtp", "verif", nil, []string{"tcp://" + hop.Addr})
	down := dmod.(*smtptarget.Downstream)
	if err := down.Init(config.NewMap(map[string]interface{}{"hostname": "mx.maddy.test"}, config.Node{Children: []config.Node{{Name: "starttls", Args: []string{"no"}}}})); err != nil {
		r.HarnessError("target.smtp init: %v", err)
		return nil
	}
	oldRecover := dontRecover
	dontRecover = false
	defer func() { dontRecover = oldRecover }()

	before := len(hop.Messages())
	gate := &c08Gate{DeliveryTarget: down, failFirst: c.Restart, done: make(chan error, 8)}
	retry := time.Duration(0)
	if c.Restart {
		retry = time.Hour
	}
	q, err := c08Queue(dir, gate, retry)
	if err != nil {
		r.HarnessError("queue: %v", err)
		return nil
	}
	closeQ := func() {
		if q != nil {
			q.Close()
			q = nil
		}
	}
	defer closeQ()
	d, err := q.Start(ctx, meta, c.Sender)
	if err == nil {
		if err = d.AddRcpt(ctx, "rcpt@next.hop.test", smtp.RcptOptions{}); err == nil {
			if err = d.Body(ctx, hdr, body); err == nil {
				err = d.Commit(ctx)
			}
		}
	}
	if err != nil {
		r.HarnessError("queue refused the message: %v", err)
		return nil
	}
	wait := func() (error, bool) {
		select {
		case e := <-gate.done:
			return e, true
		case <-ctx.Done():
			return nil, false
		}
	}
	if c.Restart {
		if _, ok := wait(); !ok {
			r.HarnessError("first attempt never made")
			return nil
		}
		closeQ()
		gate.mu.Lock()
		gate.failFirst = false
		gate.mu.Unlock()
		if q, err = c08Queue(dir, gate, 0); err != nil {
			r.HarnessError("queue reopen: %v", err)
			return nil
		}
	}
	derr, ok := wait()
	if !ok {
		r.HarnessError("delivery to the next hop never completed (restart=%v)", c.Restart)
		return nil
	}
	closeQ()
	if derr != nil {
		return []ev.V{ev.Vf("transmit:refused", "the SMTP client could not transmit the signed message: %v", derr)}
	}
	msgs := hop.Messages()
	if len(msgs) != before+1 {
		r.HarnessError("next hop holds %d new messages", len(msgs)-before)
		return nil
	}
	got := msgs[len(msgs)-1].Data

	// --- oracle 1: verifies at the next hop
	ul := false
	if v := c08VerifyRaw(got, c08KeySet(&c), &ul); v.Err != nil || v.Sigs != 1 {
		vs = append(vs, ev.Vf(fmt.Sprintf("verify-raw:hc=%s:bc=%s", c.HeaderCanon, c.BodyCanon), "signature does not verify at the next hop (%d signatures): %v\nreceived: %q", v.Sigs, v.Err, got))
		return vs
	}
	if v := c08VerifyMaddy(got, c08KeySet(&c), &ul); v.Err != nil || v.Sigs != 1 {
		vs = append(vs, ev.Vf(fmt.Sprintf("verify-reparsed:hc=%s:bc=%s", c.HeaderCanon, c.BodyCanon), "signature does not verify after the next hop's header parse/serialise cycle: %v\nreceived: %q", v.Err, got))
		return vs
	}
	if ul {
		r.AddExtra("observed_not_asserted_txt_lookup_with_u_label_name", 1)
	}

	// --- oracle 2: tampering at the next hop
	sep := bytes.Index(got, []byte("\r\n\r\n"))
	if sep < 0 {
		r.HarnessError("no header/body separator in %q", got)
		return nil
	}
	names, raws := c08Blocks(got[:sep+2])
	rest := got[sep+2:]
	oversign, sign := c08Oversign, c08Sign
	if c.Extra {
		oversign, sign = c08XOversign, c08XSign
	}
	var signed []int
	for i, n := range names {
		if c08In(oversign, n) || c08In(sign, n) {
			signed = append(signed, i)
		}
	}
	assemble := func(bl [][]byte) []byte {
		var b bytes.Buffer
		for _, x := range bl {
			b.Write(x)
		}
		b.Write(rest)
		return b.Bytes()
	}
	expectFail := func(kind, field string, msg []byte) {
		var u bool
		if v := c08VerifyRaw(msg, c08KeySet(&c), &u); v.Err == nil {
			vs = append(vs, ev.Vf("tamper-undetected:"+kind+":"+strings.ToLower(field), "signature still verifies after %s of signed field %q\ntampered: %q", kind, field, msg))
		}
	}
	if len(signed) > 0 {
		vi := signed[c.Victim%len(signed)]
		// delete
		del := append(append([][]byte{}, raws[:vi]...), raws[vi+1:]...)
		expectFail("removal", names[vi], assemble(del))
		// alter: one more visible character at the end of the value
		alt := append([][]byte{}, raws...)
		trimmed := bytes.TrimRight(raws[vi], " \t\r\n")
		alt[vi] = append(append(append([]byte{}, trimmed...), 'X'), raws[vi][len(trimmed):]...)
		expectFail("alteration", names[vi], assemble(alt))
	}
	// add one more instance of an over-signed field
	ov := oversign[c.AddAt%len(oversign)]
	pos := (c.AddAt / len(oversign)) % (len(raws) + 1)
	add := append(append(append([][]byte{}, raws[:pos]...), []byte(ov+": injected\r\n")), raws[pos:]...)
	expectFail("addition", ov, assemble(add))
	return vs
}

func c08Info(c c08Case) ev.Info {
	seen := map[string]int{}
	folded, eight, emptyVal, trailWS := false, false, false, false
	for _, f := range c.Fields {
		if c08In(c08Oversign, f.Name) || c08In(c08Sign, f.Name) || (c.Extra && (c08In(c08XOversign, f.Name) || c08In(c08XSign, f.Name))) {
			seen[strings.ToLower(f.Name)]++
			if strings.Contains(string(f.Value), "\r\n") {
				folded = true
			}
			if strings.TrimSpace(string(f.Value)) == "" {
				emptyVal = true
			}
		}
		for i := 0; i < len(f.Value); i++ {
			if f.Value[i] >= 0x80 {
				eight = true
			}
		}
	}
	repeated := false
	for _, n := range seen {
		if n > 1 {
			repeated = true
		}
	}
	body := string(c.Body)
	dot := strings.HasPrefix(body, ".") || strings.Contains(body, "\r\n.")
	for _, l := range strings.Split(body, "\r\n") {
		if strings.HasSuffix(l, " ") || strings.HasSuffix(l, "\t") {
			trailWS = true
		}
		for i := 0; i < len(l); i++ {
			if l[i] >= 0x80 {
				eight = true
			}
		}
	}
	trailEmpty := strings.HasSuffix(body, "\r\n\r\n") || body == "\r\n"
	cl := []string{"key=" + c.Algo, "canon=" + c.HeaderCanon + "/" + c.BodyCanon, fmt.Sprintf("restart=%v", c.Restart), fmt.Sprintf("eai=%v", c.EAI)}
	for k, v := range map[string]bool{"folded_signed_field": folded, "repeated_signed_field": repeated, "8bit": eight, "dot_line": dot, "trailing_ws": trailWS,
		"trailing_empty_lines": trailEmpty, "empty_body": body == "", "empty_signed_value": emptyVal, "idn_sender": strings.Contains(strings.ToLower(c.Sender), "xn--") || strings.Contains(c.Sender, c08IDN),
		"default_domain_idn": (c.Sender == "" || c.Sender == "postmaster") && c.Domains[0] != "example.org", "sign_subdomains": c.SignSub} {
		if v {
			cl = append(cl, k)
		}
	}
	return ev.Info{Nontrivial: folded || repeated || eight || dot || trailWS || trailEmpty || body == "", Classes: cl}
}

func TestVerifC08(t *testing.T) {
	r := ev.Get("C08")
	r.Rule("the message has a folded or repeated signed field, 8-bit/UTF-8 content, a dot-leading body line, trailing whitespace or trailing empty lines in the body, or an empty body")
	r.Assume("signer and verifier share a library (go-msgauth): the oracle is verification of the bytes the next hop received against the key the signer itself published in its .dns file, not an independent canonicaliser")
	r.Assume("the test zone answers a TXT query whose name holds U-labels as if it had been converted to A-labels (counted as observed_not_asserted_txt_lookup_with_u_label_name)")
	r.Assume("header fields hold UTF-8 only in SMTPUTF8 messages; raw 8-bit bytes appear in bodies only; bare CR/LF and NUL are outside the quantifier")
	ev.Run(t, r, ev.Spec[c08Case]{Name: "sign-spool-transmit-verify", Journal: true, N: r.Scale(1, 1, 1), Gen: c08Gen, Run: c08Run, Info: c08Info})
	c08Cleanup()
}

func c08Cleanup() {
	c08Mu.Lock()
	defer c08Mu.Unlock()
	if c08KeyDir != "" {
		os.RemoveAll(c08KeyDir)
		c08KeyDir = ""
	}
	c08Mods = map[string]*moddkim.Modifier{}
	if c08Hop != nil {
		c08Hop.Close()
		c08Hop = nil
	}
}

// ---- a transmission that fails half-way leaves nothing at the next hop ---------------------------------------

type c08fCase struct {
	Case   c08Case `json:"message"`
	FailAt int     `json:"body_read_fails_after"` // octets of the body read before the spool file reader fails
}

type c08FailingBuffer struct {
	data []byte
	at   int
}

type c08FailingReader struct {
	data []byte
	at   int
	pos  int
}

func (r *c08FailingReader) Read(p []byte) (int, error) {
	if r.pos >= r.at {
		return 0, errors.New("scripted I/O error while reading the spooled body")
	}
	n := copy(p, r.data[r.pos:r.at])
	r.pos += n
	return n, nil
}
func (r *c08FailingReader) Close() error { return nil }

func (b c08FailingBuffer) Open() (io.ReadCloser, error) {
	return &c08FailingReader{data: b.data, at: b.at}, nil
}
func (b c08FailingBuffer) Len() int      { return len(b.data) }
func (b c08FailingBuffer) Remove() error { return nil }

// c08fRun: the signed message is handed to the real SMTP client with a body whose reader fails after FailAt
// octets. The client reports the failure; whatever the next hop accepted in the meantime must verify - in
// practice: a cut-off message must not be completed and accepted.
func c08fRun(fc c08fCase) (vs []ev.V) {
	c := fc.Case
	r := ev.Get("C08")
	mod, err := c08Modifier(&c)
	if err != nil {
		r.HarnessError("modify.dkim init: %v", err)
		return nil
	}
	c08Mu.Lock()
	if c08Hop == nil {
		c08Hop, err = verifx.StartNextHop(verifx.HopConfig{Name: "next.hop.test", UTF8: true})
	}
	hop := c08Hop
	c08Mu.Unlock()
	if err != nil {
		r.HarnessError("next hop: %v", err)
		return nil
	}
	ctx, cancel := context.WithTimeout(context.Background(), 30*time.Second)
	defer cancel()
	hdr, err := textproto.ReadHeader(bufio.NewReader(bytes.NewReader(append(append([]byte{}, c08Header(&c)...), '\r', '\n'))))
	if err != nil {
		return nil
	}
	full := buffer.MemoryBuffer{Slice: []byte(c.Body)}
	meta := &module.MsgMetadata{ID: "c08fail", SMTPOpts: smtp.MailOptions{UTF8: c.EAI}, OriginalFrom: c.Sender}
	st, err := mod.ModStateForMsg(ctx, meta)
	if err != nil {
		r.HarnessError("%v", err)
		return nil
	}
	st.RewriteSender(ctx, c.Sender)
	if err := st.RewriteBody(ctx, &hdr, full); err != nil || !hdr.Has("DKIM-Signature") {
		st.Close()
		return nil // covered by the main sub-check
	}
	st.Close()
	dmod, _ := smtptarget.NewDownstream("target.smtp", "verif", nil, []string{"tcp://" + hop.Addr})
	down := dmod.(*smtptarget.Downstream)
	if err := down.Init(config.NewMap(map[string]interface{}{"hostname": "mx.maddy.test"}, config.Node{Children: []config.Node{{Name: "starttls", Args: []string{"no"}}}})); err != nil {
		r.HarnessError("target.smtp init: %v", err)
		return nil
	}
	before := len(hop.Messages())
	d, err := down.Start(ctx, meta, c.Sender)
	if err != nil {
		r.HarnessError("start: %v", err)
		return nil
	}
	if err := d.AddRcpt(ctx, "rcpt@next.hop.test", smtp.RcptOptions{}); err != nil {
		d.Abort(ctx)
		r.HarnessError("rcpt: %v", err)
		return nil
	}
	at := fc.FailAt
	if at > len(c.Body) {
		at = len(c.Body)
	}
	berr := d.Body(ctx, hdr, c08FailingBuffer{data: []byte(c.Body), at: at})
	if berr == nil {
		d.Commit(ctx)
		return []ev.V{ev.Vf("transmit-failure:error-swallowed", "the body reader failed after %d of %d octets but the SMTP client reported success", at, len(c.Body))}
	}
	d.Abort(ctx)
	time.Sleep(5 * time.Millisecond)
	for _, m := range hop.Messages()[before:] {
		var ul bool
		if v := c08VerifyRaw(m.Data, c08KeySet(&c), &ul); v.Err != nil || v.Sigs != 1 {
			vs = append(vs, ev.Vf("transmit-failure:truncated-message-accepted", "reading the spooled body failed after %d of %d octets (the client reported: %v), yet the next hop accepted a message, and its signature does not verify: %v\nreceived: %q", at, len(c.Body), berr, v.Err, m.Data))
		}
	}
	return vs
}

func TestVerifC08Failure(t *testing.T) {
	r := ev.Get("C08")
	ev.Run(t, r, ev.Spec[c08fCase]{Name: "transmit-failure", N: r.Scale(1, 4, 25), Journal: true, Gen: func(t *rapid.T) c08fCase {
		c := c08Gen(t)
		if len(c.Body) < 40 {
			c.Body = ev.QS(string(c.Body) + strings.Repeat("filler line of the body\r\n", 40))
		}
		return c08fCase{Case: c, FailAt: rapid.IntRange(0, len(c.Body)-1).Draw(t, "fail_at")}
	}, Run: c08fRun, Info: func(fc c08fCase) ev.Info { return ev.Info{Nontrivial: fc.FailAt > 0} }})
	c08Cleanup()
}
