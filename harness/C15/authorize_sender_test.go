package authorize_sender

// C15 harness (injected into internal/check/authorize_sender by overlay).
//
// The generator builds the message from a structure, so the oracle knows by
// construction which addresses appear in MAIL FROM, in every From field and
// in Sender; it never parses the header itself. Entitlement is decided by a
// reference model over base identities (spelling variants of an address share
// one identity).

import (
	"bufio"
	"context"
	"encoding/base64"
	"fmt"
	"strings"
	"testing"
	"unicode"

	"github.com/emersion/go-message/textproto"
	"github.com/foxcpp/maddy/framework/config"
	"github.com/foxcpp/maddy/framework/log"
	"github.com/foxcpp/maddy/framework/module"
	"github.com/foxcpp/maddy/internal/table"
	"golang.org/x/net/idna"
	"golang.org/x/text/unicode/norm"
	"pgregory.net/rapid"
	"verifkit/ev"
)

// address universe: canonical spelling (NFC, lower case, U-label domain)
var c15Addrs = []string{
	"alice@example.org", "alias@example.org", "bob@example.org", "ceo@victim.example",
	"anyone@corp.example", "x@тест.example", "rené@example.org", "postmaster@example.org",
	// domains that merely end in / contain an entitled domain
	"ceo@notexample.org", "ceo@sub.example.org", "boss@mycorp.example", "boss@evil-corp.example", "x@нетест.example", "alice@example.org.victim.example",
	// addresses the address validator of maddy does not take (a local part that needs quoting, an over-long one) in a
	// domain that has a fullwidth commercial at before an entitled domain: it is not that domain
	"x(@victim.example\uff20corp.example", "x(@victim.example\uff20example.org", strings.Repeat("x", 330) + "@victim.example\uff20corp.example",
}

// c15Header spells the address for a header field: the local part is quoted when it has to be (the envelope
// carries it without the quotes, go-smtp removes them).
func c15Header(a string) string {
	at := strings.LastIndexByte(a, '@')
	if at < 0 || !strings.ContainsAny(a[:at], "()<>[]:;@\\,\" ") {
		return a
	}
	return "\"" + strings.NewReplacer("\\", "\\\\", "\"", "\\\"").Replace(a[:at]) + "\"" + a[at:]
}

var c15Users = []string{"alice@example.org", "bob@example.org", "carol@тест.example", "dave", "rené@example.org"}

type c15Spelled struct {
	Idx  int `json:"idx"`
	Form int `json:"form"` // 0 canonical, 1 upper-case local part, 2 upper-case everything, 3 NFD, 4 A-label domain, 5 upper-case A-label domain
}

func c15Upper(r rune) rune {
	u := unicode.ToUpper(r)
	if u != r && unicode.ToLower(u) == r {
		return u
	}
	return r
}

func c15Spell(canon string, form int) string {
	at := strings.LastIndexByte(canon, '@')
	local, dom := canon, ""
	if at >= 0 {
		local, dom = canon[:at], canon[at+1:]
	}
	switch form {
	case 1:
		local = strings.Map(c15Upper, local)
	case 2:
		local, dom = strings.Map(c15Upper, local), strings.Map(c15Upper, dom)
	case 3:
		local, dom = norm.NFD.String(local), norm.NFD.String(dom)
	case 4, 5:
		if a, err := idna.ToASCII(dom); err == nil {
			dom = a
			if form == 5 {
				dom = strings.ToUpper(dom)
			}
		}
	}
	if at < 0 {
		return local
	}
	return local + "@" + dom
}

type c15Mailbox struct {
	Addr c15Spelled `json:"addr"`
	// 0 bare addr-spec, 1 <addr>, 2 plain display name, 3 display name that looks like another address (quoted),
	// 4 RFC 2047 encoded display name containing an address, 5 trailing comment containing an address
	Style int `json:"style"`
	Decoy int `json:"decoy"` // address index used inside display name / comment
}

func (m c15Mailbox) render() string {
	a := c15Header(c15Spell(c15Addrs[m.Addr.Idx], m.Addr.Form))
	decoy := c15Addrs[m.Decoy]
	if len(decoy) > 100 {
		decoy = c15Addrs[0]
	}
	switch m.Style {
	case 0:
		return a
	case 1:
		return "<" + a + ">"
	case 2:
		return "Some Person <" + a + ">"
	case 3:
		return "\"" + decoy + "\" <" + a + ">"
	case 4:
		return "=?utf-8?q?" + strings.ReplaceAll(strings.ReplaceAll(decoy, "@", "=40"), ".", "=2E") + "?= <" + a + ">"
	case 6:
		// encoded words that decode to structural characters: decoded as a whole, the field would read
		// "decoy ( <a> ()" - the author is a
		return "=?utf-8?q?" + strings.ReplaceAll(strings.ReplaceAll(decoy, "@", "=40"), ".", "=2E") + "_=28?= <" + a + "> (=?utf-8?q?=29?=)"
	case 7:
		// decoded as a whole: "<decoy>, <a>" - the author is a alone
		return "=?utf-8?b?" + base64.StdEncoding.EncodeToString([]byte("<"+decoy+">,")) + "?= <" + a + ">"
	default:
		return a + " (" + decoy + ")"
	}
}

type c15FromField struct {
	Boxes []c15Mailbox `json:"mailboxes"`
	Group bool         `json:"group"`  // wrap the mailboxes in group syntax
	Fold  bool         `json:"folded"` // fold the field over two lines
}

func (f c15FromField) render(name string) string {
	var parts []string
	for _, b := range f.Boxes {
		parts = append(parts, b.render())
	}
	sep := ", "
	if f.Fold {
		sep = ",\r\n\t"
	}
	v := strings.Join(parts, sep)
	if f.Group {
		v = "Team: " + v + ";"
	}
	return name + ": " + v + "\r\n"
}

type c15Scenario struct {
	// configuration
	UserToEmail int    `json:"user_to_email"` // 0 identity, 1 single-value table, 2 multi-value table
	Prepare     int    `json:"prepare_email"` // 0 identity, 1 alias table (single), 2 alias table (multi)
	FromNorm    string `json:"from_normalize"`
	AuthNorm    string `json:"auth_normalize"`
	CheckHeader bool   `json:"check_header"`
	// table content selector: which entitlements each user has (index into c15Entitlements)
	Ent int `json:"entitlements"`
	// session
	Auth     *c15Spelled    `json:"auth_user"` // nil: unauthenticated; Idx into c15Users
	MailFrom c15Spelled     `json:"mail_from"`
	From     []c15FromField `json:"from_fields"`
	Sender   *c15Mailbox    `json:"sender"`
	// a second Sender field (a header may not have two: which one is "the Sender address" is anybody's guess, so
	// every one of them has to be an address of the user, or the message has to be refused)
	Sender2 *c15Mailbox `json:"second_sender,omitempty"`
	// the same check object handled the same message before, while the mapping gave the user the entitlements
	// of this set (the tables are changed at run time: a reloaded file, a changed database row)
	EntBefore *int `json:"entitlements_before,omitempty"`
	// position of the From fields relative to other fields: 0 first, 1 after Subject
	Layout int `json:"layout"`
}

// entitlement tables on canonical spellings: user -> entitlements (addresses, domains, "*")
var c15Entitlements = []map[string][]string{
	{"alice@example.org": {"alice@example.org"}, "bob@example.org": {"bob@example.org", "postmaster@example.org"}, "dave": {"corp.example"},
		"carol@тест.example": {"тест.example"}, "rené@example.org": {"rené@example.org"}},
	{"alice@example.org": {"*"}, "bob@example.org": {"example.org"}, "dave": {"alice@example.org"}},
	{"alice@example.org": {"alice@example.org", "corp.example"}, "carol@тест.example": {"x@тест.example"}},
}

var c15Aliases = map[string][]string{"alias@example.org": {"alice@example.org"}, "postmaster@example.org": {"bob@example.org"}}

type c15MapTable struct {
	m     map[string][]string
	multi bool
}

func (t c15MapTable) Lookup(_ context.Context, k string) (string, bool, error) {
	v, ok := t.m[k]
	if !ok || len(v) == 0 {
		return "", false, nil
	}
	return v[0], true, nil
}

type c15MultiTable struct{ c15MapTable }

func (t c15MultiTable) LookupMulti(_ context.Context, k string) ([]string, error) { return t.m[k], nil }

// ---- reference model ------------------------------------------------------------

func (sc c15Scenario) entitlementsOf(user string) []string {
	switch sc.UserToEmail {
	case 0:
		return []string{user} // identity: the user name is the address
	case 1:
		if v := c15Entitlements[sc.Ent][user]; len(v) > 0 {
			return v[:1] // a single-value table only ever yields the first value
		}
		return nil
	default:
		return c15Entitlements[sc.Ent][user]
	}
}

func (sc c15Scenario) entitled(user, addr string) bool {
	cands := []string{addr}
	if sc.Prepare != 0 {
		if al, ok := c15Aliases[addr]; ok {
			cands = al
			if sc.Prepare == 1 {
				cands = al[:1]
			}
		}
	}
	for _, c := range cands {
		dom := c[strings.LastIndexByte(c, '@')+1:]
		for _, e := range sc.entitlementsOf(user) {
			if e == "*" || e == c || e == dom {
				return true
			}
		}
	}
	return false
}

// mayAccept is the necessary condition of the property.
func (sc c15Scenario) mayAccept() (bool, string) {
	if sc.Auth == nil {
		return false, "client is not authenticated"
	}
	user := c15Users[sc.Auth.Idx]
	if !sc.entitled(user, c15Addrs[sc.MailFrom.Idx]) {
		return false, "envelope sender " + c15Addrs[sc.MailFrom.Idx] + " is not an address of " + user
	}
	if !sc.CheckHeader {
		return true, "header check disabled by configuration"
	}
	allFrom := true
	n := 0
	bad := ""
	for _, f := range sc.From {
		for _, b := range f.Boxes {
			n++
			if !sc.entitled(user, c15Addrs[b.Addr.Idx]) {
				allFrom = false
				bad = c15Addrs[b.Addr.Idx]
			}
		}
	}
	if n == 0 {
		allFrom = false
		bad = "(no author address)"
	}
	if allFrom {
		return true, "every From address belongs to the user"
	}
	if sc.Sender != nil && sc.entitled(user, c15Addrs[sc.Sender.Addr.Idx]) && (sc.Sender2 == nil || sc.entitled(user, c15Addrs[sc.Sender2.Addr.Idx])) {
		return true, "Sender belongs to the user"
	}
	return false, "From address " + bad + " is not an address of " + user + " and neither is Sender"
}

// ---- generation ------------------------------------------------------------------

func c15GenSpelled(t *rapid.T, n int, label string) c15Spelled {
	return c15Spelled{Idx: rapid.IntRange(0, n-1).Draw(t, label), Form: rapid.SampledFrom([]int{0, 0, 0, 1, 2, 3, 4, 5}).Draw(t, label+"_form")}
}

func c15GenBox(t *rapid.T, bias int) c15Mailbox {
	b := c15Mailbox{Addr: c15GenSpelled(t, len(c15Addrs), "addr"), Style: rapid.IntRange(0, 7).Draw(t, "style"), Decoy: rapid.IntRange(0, len(c15Addrs)-1).Draw(t, "decoy")}
	if bias >= 0 && rapid.IntRange(0, 2).Draw(t, "useuser") != 0 {
		b.Addr.Idx = bias
	}
	return b
}

func c15Gen(t *rapid.T) c15Scenario {
	sc := c15Scenario{
		UserToEmail: rapid.IntRange(0, 2).Draw(t, "user_to_email"),
		Prepare:     rapid.IntRange(0, 2).Draw(t, "prepare"),
		FromNorm:    rapid.SampledFrom([]string{"auto", "auto", "precis_casefold_email", "precis_email", "casefold", "noop"}).Draw(t, "from_norm"),
		AuthNorm:    rapid.SampledFrom([]string{"auto", "auto", "precis_casefold_email", "precis_casefold", "casefold", "noop"}).Draw(t, "auth_norm"),
		CheckHeader: rapid.IntRange(0, 9).Draw(t, "check_header") != 0,
		Ent:         rapid.IntRange(0, len(c15Entitlements)-1).Draw(t, "ent"),
		Layout:      rapid.IntRange(0, 1).Draw(t, "layout"),
	}
	bias := -1
	if rapid.IntRange(0, 9).Draw(t, "unauth") != 0 {
		a := c15GenSpelled(t, len(c15Users), "user")
		sc.Auth = &a
		// make the user's own address likely
		for i, ad := range c15Addrs {
			if ad == c15Users[a.Idx] {
				bias = i
			}
		}
	}
	sc.MailFrom = c15GenSpelled(t, len(c15Addrs), "mailfrom")
	if bias >= 0 && rapid.IntRange(0, 3).Draw(t, "mf_user") != 0 {
		sc.MailFrom.Idx = bias
	}
	nf := rapid.SampledFrom([]int{1, 1, 1, 1, 2, 2, 0, 3}).Draw(t, "nfrom")
	for i := 0; i < nf; i++ {
		f := c15FromField{Group: rapid.IntRange(0, 7).Draw(t, "group") == 0, Fold: rapid.IntRange(0, 3).Draw(t, "fold") == 0}
		nb := rapid.SampledFrom([]int{1, 1, 1, 1, 2, 3}).Draw(t, "nboxes")
		for j := 0; j < nb; j++ {
			f.Boxes = append(f.Boxes, c15GenBox(t, bias))
		}
		sc.From = append(sc.From, f)
	}
	if rapid.IntRange(0, 2).Draw(t, "sender") == 0 {
		b := c15GenBox(t, bias)
		if b.Style == 5 || b.Style == 6 {
			b.Style = 0
		}
		sc.Sender = &b
		if rapid.IntRange(0, 3).Draw(t, "second_sender") == 0 {
			b2 := c15GenBox(t, -1)
			if b2.Style == 5 || b2.Style == 6 {
				b2.Style = 0
			}
			sc.Sender2 = &b2
		}
	}
	if rapid.IntRange(0, 4).Draw(t, "mapping_changed") == 0 {
		e := rapid.IntRange(0, len(c15Entitlements)-1).Draw(t, "ent_before")
		sc.EntBefore = &e
	}
	return sc
}

func (sc c15Scenario) header() string {
	var b strings.Builder
	if sc.Layout == 1 {
		b.WriteString("Subject: hello\r\nDate: Thu, 01 Jan 2026 00:00:00 +0000\r\n")
	}
	for _, f := range sc.From {
		b.WriteString(f.render("From"))
	}
	if sc.Sender != nil {
		b.WriteString("Sender: " + sc.Sender.render() + "\r\n")
	}
	if sc.Sender2 != nil {
		b.WriteString("Sender: " + sc.Sender2.render() + "\r\n")
	}
	if sc.Layout == 0 {
		b.WriteString("Subject: hello\r\n")
	}
	b.WriteString("\r\n")
	return b.String()
}

// ---- execution ----------------------------------------------------------------------

func c15Run(sc c15Scenario) (vs []ev.V) {
	// built through the real New + Init from a configuration block (documented defaults for the three actions:
	// reject); only the two tables are put in place afterwards
	mod, err := New("check.authorize_sender", "verif", nil, nil)
	if err != nil {
		return []ev.V{ev.Vf("harness:new", "%v", err)}
	}
	c := mod.(*Check)
	if err := c.Init(config.NewMap(nil, config.Node{Children: []config.Node{
		{Name: "check_header", Args: []string{map[bool]string{true: "yes", false: "no"}[sc.CheckHeader]}},
		{Name: "from_normalize", Args: []string{sc.FromNorm}},
		{Name: "auth_normalize", Args: []string{sc.AuthNorm}},
	}})); err != nil {
		return []ev.V{ev.Vf("harness:init", "%v", err)}
	}
	c.log = log.Logger{Out: log.NopOutput{}}
	setEnt := func(ent int) {
		switch sc.UserToEmail {
		case 0:
			c.userToEmail = &table.Identity{}
		case 1:
			c.userToEmail = c15MapTable{m: c15Entitlements[ent]}
		default:
			c.userToEmail = c15MultiTable{c15MapTable{m: c15Entitlements[ent]}}
		}
	}
	setEnt(sc.Ent)
	switch sc.Prepare {
	case 0:
		c.emailPrepare = &table.Identity{}
	case 1:
		c.emailPrepare = c15MapTable{m: c15Aliases}
	default:
		c.emailPrepare = c15MultiTable{c15MapTable{m: c15Aliases}}
	}
	meta := &module.MsgMetadata{ID: "c15", Conn: &module.ConnState{Proto: "ESMTPSA", Hostname: "client.example"}}
	if sc.Auth != nil {
		meta.Conn.AuthUser = c15Spell(c15Users[sc.Auth.Idx], sc.Auth.Form)
	}
	ctx := context.Background()
	hdrText := sc.header()
	hdr, err := textproto.ReadHeader(bufio.NewReader(strings.NewReader(hdrText)))
	if err != nil {
		return nil // the endpoint would not have accepted such a header; not this check's business
	}
	mailFrom := c15Spell(c15Addrs[sc.MailFrom.Idx], sc.MailFrom.Form)
	if sc.EntBefore != nil {
		// the earlier message, under the earlier mapping (its outcome is not judged here)
		setEnt(*sc.EntBefore)
		if st0, err := c.CheckStateForMsg(ctx, &module.MsgMetadata{ID: "c15-earlier", Conn: meta.Conn}); err == nil {
			if r := st0.CheckSender(ctx, mailFrom); !r.Reject && !r.Quarantine {
				st0.CheckBody(ctx, hdr, nil)
			}
			st0.Close()
		}
		setEnt(sc.Ent)
	}
	st, err := c.CheckStateForMsg(ctx, meta)
	if err != nil {
		return []ev.V{ev.Vf("harness", "CheckStateForMsg: %v", err)}
	}
	defer st.Close()
	accepted := true
	if r := st.CheckSender(ctx, mailFrom); r.Reject || r.Quarantine {
		accepted = false
	}
	if accepted {
		if r := st.CheckBody(ctx, hdr, nil); r.Reject || r.Quarantine {
			accepted = false
		}
	}
	c15LastAccepted = accepted
	may, why := sc.mayAccept()
	if accepted && !may {
		shape := "other"
		switch {
		case sc.Auth == nil:
			shape = "unauthenticated"
		case len(sc.From) > 1:
			shape = "several-From-fields"
		}
		vs = append(vs, ev.Vf("accepted-not-entitled:"+shape, "user %q, MAIL FROM %q, header:\n%s\nwas accepted although %s", meta.Conn.AuthUser, mailFrom, hdrText, why))
	}
	return vs
}

var c15LastAccepted bool

func c15Info(sc c15Scenario) ev.Info {
	may, _ := sc.mayAccept()
	nboxes := 0
	variant := sc.MailFrom.Form != 0 || (sc.Auth != nil && sc.Auth.Form != 0)
	for _, f := range sc.From {
		nboxes += len(f.Boxes)
		for _, b := range f.Boxes {
			if b.Addr.Form != 0 {
				variant = true
			}
		}
	}
	cl := []string{fmt.Sprintf("may_accept=%v", may), fmt.Sprintf("accepted=%v", c15LastAccepted), fmt.Sprintf("from_fields=%d", len(sc.From))}
	return ev.Info{Nontrivial: sc.Auth != nil && (!may || len(sc.From) > 1 || nboxes > 1 || variant), Classes: cl}
}

func TestVerifC15(t *testing.T) {
	r := ev.Get("C15")
	r.Rule("Scenario = configuration (user_to_email identity / single-value / multi-value table with address, domain and '*' entitlements; prepare_email identity / alias table; " +
		"from_normalize and auth_normalize settings; check_header) x authenticated user or none x MAIL FROM x 0-3 From fields of 1-3 mailboxes (bare, angle, display name, display name that " +
		"looks like another address, RFC 2047 encoded name, comment; group syntax; folding) x optional Sender, every address a spelling variant (case, NFD, A-label, upper-case A-label) of a " +
		"member of a small universe (which includes addresses maddy's address validator refuses - a local part that needs quoting, one of 330 octets - in a domain that merely has a fullwidth at-sign before an entitled domain). The check's CheckSender and CheckBody are called as the pipeline does. Oracle (one direction): accepted => authenticated and envelope sender entitled and " +
		"(all From addresses entitled or Sender entitled), entitlement decided by a reference model over base identities; which addresses are in the header is known by construction. " +
		"Non-trivial = authenticated and (the model forbids acceptance, or several From fields/addresses, or a non-canonical spelling). Distinct = distinct scenario.")
	ev.Run(t, r, ev.Spec[c15Scenario]{Name: "authorize", N: r.N, Gen: c15Gen, Run: c15Run, Info: c15Info})
}
