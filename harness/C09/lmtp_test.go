package smtp_downstream

// C09 harness, target.lmtp / target.smtp (injected into internal/target/smtp by overlay).

import (
	"context"
	"fmt"
	"sort"
	"strings"
	"sync"
	"testing"
	"time"

	"github.com/emersion/go-message/textproto"
	"github.com/emersion/go-smtp"
	"github.com/foxcpp/maddy/framework/buffer"
	"github.com/foxcpp/maddy/framework/config"
	"github.com/foxcpp/maddy/framework/log"
	"github.com/foxcpp/maddy/framework/module"
	"github.com/foxcpp/maddy/internal/verifx"
	"golang.org/x/net/idna"
	"pgregory.net/rapid"
	"verifkit/ev"
)

var c09lRcpts = []string{
	"a@example.invalid", "b@example.invalid", "A@example.invalid", "user@тест.invalid", "other@тест.invalid",
	"почта@example.invalid", "c@second.invalid",
}

type c09lTx struct {
	UTF8   bool              `json:"smtputf8"`
	Rcpts  []int             `json:"rcpts"`
	Faults map[string]string `json:"faults,omitempty"` // mail | data | rcpt:<i> | status:<i>
}

type c09lScenario struct {
	LMTP    bool     `json:"lmtp"`
	HopUTF8 bool     `json:"next_hop_smtputf8"`
	Txs     []c09lTx `json:"transactions"`
}

func c09lASCII(addr string) string {
	at := strings.LastIndexByte(addr, '@')
	d, err := idna.ToASCII(addr[at+1:])
	if err != nil {
		return addr
	}
	return addr[:at+1] + d
}

type c09lCollector struct {
	mu   sync.Mutex
	keys []string
	errs map[string]bool
}

func (c *c09lCollector) SetStatus(rcpt string, err error) {
	c.mu.Lock()
	c.keys = append(c.keys, rcpt)
	if err != nil {
		c.errs[rcpt] = true
	}
	c.mu.Unlock()
}

func c09lRun(sc c09lScenario) (vs []ev.V) {
	hop, err := verifx.StartNextHop(verifx.HopConfig{Name: "downstream.test", UTF8: sc.HopUTF8, LMTP: sc.LMTP})
	if err != nil {
		ev.Get("C09").HarnessError("cannot start the next hop: %v", err)
		return nil
	}
	defer hop.Close()
	name := "target.smtp"
	if sc.LMTP {
		name = "target.lmtp"
	}
	mod, _ := NewDownstream(name, "verif", nil, []string{"tcp://" + hop.Addr})
	u := mod.(*Downstream)
	if err := u.Init(config.NewMap(nil, config.Node{Children: []config.Node{{Name: "hostname", Args: []string{"mx.maddy.test"}}, {Name: "starttls", Args: []string{"no"}}}})); err != nil {
		return []ev.V{ev.Vf("harness:init", "%v", err)}
	}
	u.log = log.Logger{Out: log.NopOutput{}}
	ctx, cancel := context.WithTimeout(context.Background(), 20*time.Second)
	defer cancel()
	hdr := textproto.Header{}
	hdr.Add("Subject", "c09")
	for ti, tx := range sc.Txs {
		hop.ResetScript()
		for k, v := range tx.Faults {
			var idx int
			switch {
			case strings.HasPrefix(k, "rcpt:"):
				fmt.Sscanf(k, "rcpt:%d", &idx)
				hop.Script("rcpt:"+c09lRcpts[idx], v)
				hop.Script("rcpt:"+c09lASCII(c09lRcpts[idx]), v)
			case strings.HasPrefix(k, "status:"):
				fmt.Sscanf(k, "status:%d", &idx)
				hop.Script("status:"+c09lRcpts[idx], v)
				hop.Script("status:"+c09lASCII(c09lRcpts[idx]), v)
			case k == "bodyopen" || k == "bodyread":
			default:
				hop.Script(k, v)
			}
		}
		meta := &module.MsgMetadata{ID: fmt.Sprintf("c09l-%d", ti), SMTPOpts: smtp.MailOptions{UTF8: tx.UTF8}}
		d, err := u.Start(ctx, meta, "sender@example.com")
		if err != nil {
			continue
		}
		var accepted []string
		for _, r := range tx.Rcpts {
			if err := d.AddRcpt(ctx, c09lRcpts[r], smtp.RcptOptions{}); err == nil {
				accepted = append(accepted, c09lRcpts[r])
			}
		}
		pd, partial := d.(module.PartialDelivery)
		if len(accepted) == 0 || !partial {
			d.Abort(ctx)
			continue
		}
		col := &c09lCollector{errs: map[string]bool{}}
		body := verifx.FaultyBuffer{Data: []byte("body\r\n"), ReadErrAfter: -1}
		if tx.Faults["bodyopen"] != "" {
			body.OpenErr = verifx.ErrBodyOpen
		}
		if v, ok := tx.Faults["bodyread"]; ok {
			fmt.Sscan(v, &body.ReadErrAfter)
		}
		pd.BodyNonAtomic(ctx, col, hdr, buffer.Buffer(body))
		d.Commit(ctx)
		if tx.Faults["bodyopen"] != "" || tx.Faults["bodyread"] != "" {
			for _, k := range col.keys {
				if !col.errs[k] {
					vs = append(vs, ev.Vf("status:success-although-body-unreadable:lmtp", "transaction %d: the message body could not be read (%v) but success was reported for %q (all results: %q)", ti, tx.Faults, k, col.keys))
					break
				}
			}
		}
		got := append([]string(nil), col.keys...)
		want := append([]string(nil), accepted...)
		sort.Strings(got)
		sort.Strings(want)
		if strings.Join(got, "\x00") != strings.Join(want, "\x00") {
			shape := "other"
			for _, g := range got {
				for _, w := range want {
					if g != w && g == c09lASCII(w) {
						shape = "key-converted-for-next-hop"
					}
				}
			}
			vs = append(vs, ev.Vf("status:keys-differ:lmtp:"+shape, "transaction %d (next hop SMTPUTF8=%v, message SMTPUTF8=%v): accepted recipients %q, results reported for %q", ti, sc.HopUTF8, tx.UTF8, want, got))
			continue
		}
		// the result of each recipient must be its own
		for k, v := range tx.Faults {
			if !strings.HasPrefix(k, "status:") || tx.Faults["data"] != "" {
				continue
			}
			var idx int
			fmt.Sscanf(k, "status:%d", &idx)
			for _, a := range accepted {
				if a == c09lRcpts[idx] && !col.errs[a] && v != "" {
					dup := 0
					for _, b := range accepted {
						if b == a {
							dup++
						}
					}
					if dup == 1 {
						vs = append(vs, ev.Vf("status:wrong-recipient:lmtp", "transaction %d: the next hop failed %s but its result was reported as success (results with errors: %v)", ti, a, col.errs))
					}
				}
			}
		}
	}
	return vs
}

func TestVerifC09LMTP(t *testing.T) {
	r := ev.Get("C09")
	ev.Run(t, r, ev.Spec[c09lScenario]{Name: "lmtp", Journal: true, N: r.N, Gen: func(t *rapid.T) c09lScenario {
		sc := c09lScenario{LMTP: rapid.IntRange(0, 3).Draw(t, "lmtp") != 0, HopUTF8: rapid.Bool().Draw(t, "hop_utf8")}
		for i, n := 0, rapid.IntRange(1, 3).Draw(t, "ntx"); i < n; i++ {
			tx := c09lTx{Faults: map[string]string{}, UTF8: rapid.Bool().Draw(t, "utf8")}
			tx.Rcpts = rapid.SliceOfN(rapid.IntRange(0, len(c09lRcpts)-1), 1, 4).Draw(t, "rcpts")
			for _, r := range tx.Rcpts {
				if strings.HasPrefix(c09lRcpts[r], "почта") {
					tx.UTF8 = true
				}
			}
			for k, m := 0, rapid.SampledFrom([]int{0, 0, 1, 1, 2}).Draw(t, "nfaults"); k < m; k++ {
				key := rapid.SampledFrom([]string{"mail", "data", "rcpt", "status", "status"}).Draw(t, "faultat")
				if key == "rcpt" || key == "status" {
					key = fmt.Sprintf("%s:%d", key, rapid.SampledFrom(tx.Rcpts).Draw(t, "faultrcpt"))
				}
				tx.Faults[key] = rapid.SampledFrom([]string{"T", "P"}).Draw(t, "class")
			}
			switch rapid.IntRange(0, 9).Draw(t, "bodyfault") {
			case 0:
				tx.Faults["bodyopen"] = "io"
			case 1:
				tx.Faults["bodyread"] = fmt.Sprint(rapid.SampledFrom([]int{0, 1, 3, 5}).Draw(t, "bodyread_after"))
			}
			if sc.LMTP && rapid.IntRange(0, 4).Draw(t, "dropafter?") == 0 {
				// the next hop dies after answering for this many recipients
				tx.Faults["dropafter"] = fmt.Sprint(rapid.IntRange(0, len(tx.Rcpts)-1).Draw(t, "dropafter"))
			}
			sc.Txs = append(sc.Txs, tx)
		}
		return sc
	}, Run: c09lRun, Info: func(sc c09lScenario) ev.Info {
		conv := false
		for _, tx := range sc.Txs {
			for _, r := range tx.Rcpts {
				if !sc.HopUTF8 && c09lASCII(c09lRcpts[r]) != c09lRcpts[r] {
					conv = true
				}
			}
		}
		return ev.Info{Nontrivial: sc.LMTP && (conv || len(sc.Txs) > 1), Classes: []string{fmt.Sprintf("lmtp=%v", sc.LMTP)}}
	}})
}
