package modconfig

// C16 harness, check actions: `<x>_action reject|quarantine [code [enhanced [text]]]`
// of every check. Where the administrator gives no enhanced code, maddy picks
// it and it has to agree with the basic code's class; the failure is then
// treated (temporary / permanent) as its code says.

import (
	"errors"
	"fmt"
	"strconv"
	"testing"

	"github.com/foxcpp/maddy/framework/exterrors"
	"github.com/foxcpp/maddy/framework/module"
	"pgregory.net/rapid"
	"verifkit/ev"
)

type c16Action struct {
	Args []string `json:"args"`
}

func c16RunAction(sc c16Action) []ev.V {
	fa, err := ParseActionDirective(sc.Args)
	if err != nil {
		return nil
	}
	res := fa.Apply(module.CheckResult{Reason: errors.New("the check failed")})
	if !res.Reject && !res.Quarantine {
		return nil
	}
	se, ok := res.Reason.(*exterrors.SMTPError)
	if !ok {
		return nil // no override: the reason is converted by the endpoint (wrap sub-check)
	}
	if len(sc.Args) >= 3 {
		return nil // both codes typed by the administrator
	}
	var vs []ev.V
	if se.Code/100 != se.EnhancedCode[0] {
		vs = append(vs, ev.Vf("check-action:class-mismatch", "`%v` yields %d with enhanced code %v", sc.Args, se.Code, se.EnhancedCode))
	}
	if exterrors.IsTemporary(res.Reason) != (se.Code/100 == 4) {
		vs = append(vs, ev.Vf("check-action:class-vs-treatment", "`%v` yields %d %v, treated as temporary=%v", sc.Args, se.Code, se.EnhancedCode, exterrors.IsTemporary(res.Reason)))
	}
	return vs
}

func TestVerifC16Action(t *testing.T) {
	r := ev.Get("C16")
	ev.Run(t, r, ev.Spec[c16Action]{Name: "check-action", N: r.Scale(1, 40, 200), Gen: func(t *rapid.T) c16Action {
		a := []string{rapid.SampledFrom([]string{"reject", "reject", "quarantine", "ignore"}).Draw(t, "action")}
		n := rapid.IntRange(0, 3).Draw(t, "nargs")
		if n >= 1 {
			a = append(a, strconv.Itoa(rapid.SampledFrom([]int{450, 451, 421, 410, 499, 550, 554, 501, 599, 250, 399, 600}).Draw(t, "code")))
		}
		if n >= 2 {
			a = append(a, fmt.Sprintf("%d.%d.%d", rapid.SampledFrom([]int{4, 5, 2}).Draw(t, "e0"), rapid.IntRange(0, 7).Draw(t, "e1"), rapid.IntRange(0, 30).Draw(t, "e2")))
		}
		if n >= 3 {
			a = append(a, rapid.SampledFrom([]string{"Go away", "No", ""}).Draw(t, "msg"))
		}
		return c16Action{Args: a}
	}, Run: c16RunAction, Info: func(sc c16Action) ev.Info { return ev.Info{Nontrivial: len(sc.Args) == 2} }})
}
