package msgpipeline

// C07 harness (injected into internal/msgpipeline by overlay).
//
// Every scenario is delivered through a real MsgPipeline with DMARC enabled:
// a scripted body check supplies the SPF/DKIM results, a mock resolver the
// policy lookup outcome. Observed: refusal (code, enhanced code), or the
// delivered message's Quarantine flag and the dmarc= value of its
// Authentication-Results field. Oracle: a reference model written from the
// property statement and RFC 7489 that uses a fixed table of organisational
// domains (never golang.org/x/net/publicsuffix).

import (
	"bufio"
	"context"
	"fmt"
	"net"
	"strings"
	"testing"
	"time"

	"github.com/emersion/go-message/textproto"
	"github.com/emersion/go-msgauth/authres"
	"github.com/emersion/go-smtp"
	"github.com/foxcpp/go-mockdns"
	"github.com/foxcpp/maddy/framework/buffer"
	"github.com/foxcpp/maddy/framework/exterrors"
	"github.com/foxcpp/maddy/framework/log"
	"github.com/foxcpp/maddy/framework/module"
	"github.com/foxcpp/maddy/internal/testutils"
	"golang.org/x/net/idna"
	"pgregory.net/rapid"
	"verifkit/ev"
)

// domain -> organisational domain ("" = the name is a public suffix)
var c07Org = map[string]string{
	"example.org": "example.org", "sub.example.org": "example.org", "deep.sub.example.org": "example.org",
	"sibling.example.org": "example.org", "x.sub.example.org": "example.org", "x.example.org": "example.org",
	"example.co.uk": "example.co.uk", "mail.example.co.uk": "example.co.uk", "x.mail.example.co.uk": "example.co.uk",
	"sibling.example.co.uk": "example.co.uk", "x.example.co.uk": "example.co.uk",
	"co.uk": "", "org": "", "uk": "", "x.co.uk": "x.co.uk",
	"other.net": "other.net", "": "-",
	// internationalised names (keys in U-label form; A-label spellings are converted before the table is consulted)
	"bücher.example": "bücher.example", "sub.bücher.example": "bücher.example", "x.bücher.example": "bücher.example", "x.sub.bücher.example": "bücher.example",
	"sibling.bücher.example": "bücher.example", "notbücher.example": "notbücher.example", "example": "",
	// names that merely end in the From domain's organisational domain, not at a label boundary
	"notexample.org": "notexample.org", "notexample.co.uk": "notexample.co.uk", "notco.uk": "notco.uk",
}

var c07FromDomains = []string{"example.org", "sub.example.org", "mail.example.co.uk", "example.co.uk", "co.uk", "Sub.Example.ORG", "bücher.example", "sub.bücher.example"}

var c07Values = []authres.ResultValue{authres.ResultPass, authres.ResultFail, authres.ResultNone, authres.ResultNeutral,
	authres.ResultSoftFail, authres.ResultTempError, authres.ResultPermError}

const (
	relSame = iota
	relSub
	relOrg
	relSibling
	relSuffix
	relUnrelated
	relUpper
	relEmpty
	relLookalike
	relALabel
	relCount
)

var c07RelNames = []string{"same", "subdomain", "org", "sibling", "public-suffix", "unrelated", "upper-case-same", "empty", "look-alike-suffix", "same-in-a-labels"}

// c07Lower: the canonical spelling of a domain (lower case, U-labels)
func c07Lower(s string) string {
	u, err := idna.ToUnicode(strings.ToLower(s))
	if err != nil {
		return strings.ToLower(s)
	}
	return strings.ToLower(u)
}

func c07ALabel(s string) string {
	a, err := idna.ToASCII(strings.ToLower(s))
	if err != nil {
		panic(err)
	}
	return a
}

// c07Rel builds an identifier domain standing in a known relation to the From domain.
func c07Rel(from string, rel int) string {
	lf := c07Lower(from)
	org := c07Org[lf]
	switch rel {
	case relSame:
		return from
	case relSub:
		return "x." + lf
	case relOrg:
		if org == "" {
			return lf
		}
		return org
	case relSibling:
		if org == "" {
			return "x." + lf
		}
		return "sibling." + org
	case relSuffix:
		if org == "" {
			return lf
		}
		return org[strings.Index(org, ".")+1:]
	case relUnrelated:
		return "other.net"
	case relUpper:
		return strings.ToUpper(from)
	case relALabel:
		return c07ALabel(from)
	case relLookalike:
		if org == "" {
			return "not" + lf
		}
		return "not" + org
	default:
		return ""
	}
}

type c07ID struct {
	Value int `json:"value"` // index into c07Values
	Rel   int `json:"rel"`
}

type c07Scenario struct {
	FromShape int     `json:"from_shape"` // 0 one address, 1 no From field, 2 several addresses, 3 several From fields, 4 an empty From field in front of the real one, 5 ... and one behind it
	FromDom   int     `json:"from_domain"`
	DKIM      []c07ID `json:"dkim"`
	SPF       *c07ID  `json:"spf"`      // nil: SPF not evaluated
	SPFHelo   bool    `json:"spf_helo"` // null MAIL FROM: HELO identity is used
	Adkim     string  `json:"adkim"`    // "", "r", "s"
	Aspf      string  `json:"aspf"`
	P         string  `json:"p"`  // none quarantine reject, or "" (absent: invalid record)
	SP        string  `json:"sp"` // "" absent
	Pct100    bool    `json:"pct100"`
	// the check that contributes the SPF/DKIM results also quarantines the message on its own (e.g. check.dkim
	// with broken_sig_action quarantine): the DMARC evaluation must still see its results
	CheckQuarantines bool `json:"check_quarantines,omitempty"`
	// 0 record at From domain; 1 record only at organisational domain (From domain NXDOMAIN);
	// 2 no DMARC record (unrelated TXT at both); 3 two DMARC records at From domain; 4 NXDOMAIN for both names;
	// 5 SERVFAIL at From domain; 6 NXDOMAIN at From domain, SERVFAIL at organisational domain; 7 timeout at From domain;
	// 8 only TXT records that are not DMARC records at the From domain (a wildcard SPF record, say), the record at the organisational domain
	Lookup int `json:"lookup"`
	// the resolver answers after 2 ms and honours the context it was given, as net.Resolver does (the policy is
	// fetched in the background while the body checks run)
	SlowDNS bool `json:"slow_context_aware_resolver,omitempty"`
	// spelling of the record: 0 as usual; 1 keywords capitalised (p=Reject, adkim=S: the literals of the grammar are
	// case-insensitive); 2 tags this receiver does not use carry values it may not know (ri=0; rf=iodef; fo=2:
	// "syntax errors in the remainder of the record SHOULD be discarded in favour of default values")
	RecordSpelling int `json:"record_spelling,omitempty"`
}

// c07SlowResolver: answers late and gives up when its context is cancelled.
type c07SlowResolver struct {
	*mockdns.Resolver
}

func (r c07SlowResolver) LookupTXT(ctx context.Context, name string) ([]string, error) {
	select {
	case <-ctx.Done():
		return nil, ctx.Err()
	case <-time.After(2 * time.Millisecond):
	}
	return r.Resolver.LookupTXT(ctx, name)
}

func (sc c07Scenario) fromDomain() string { return c07FromDomains[sc.FromDom] }

func (sc c07Scenario) record() string {
	r := "v=DMARC1"
	if sc.P != "" {
		r += "; p=" + sc.P
	}
	if sc.SP != "" {
		r += "; sp=" + sc.SP
	}
	if sc.Adkim != "" {
		r += "; adkim=" + sc.Adkim
	}
	if sc.Aspf != "" {
		r += "; aspf=" + sc.Aspf
	}
	if sc.Pct100 {
		r += "; pct=100"
	}
	switch sc.RecordSpelling {
	case 1:
		for _, kw := range []string{"none", "quarantine", "reject"} {
			r = strings.ReplaceAll(r, "p="+kw, "p="+strings.ToUpper(kw[:1])+kw[1:])
		}
		r = strings.ReplaceAll(strings.ReplaceAll(r, "=s", "=S"), "=r;", "=R;")
	case 2:
		r += "; ri=0; rf=iodef; fo=2"
	}
	return r
}

func c07Gen(t *rapid.T) c07Scenario {
	sc := c07Scenario{}
	sc.FromShape = rapid.SampledFrom([]int{0, 0, 0, 0, 0, 0, 0, 0, 0, 1, 2, 3, 4, 5}).Draw(t, "from_shape")
	sc.FromDom = rapid.IntRange(0, len(c07FromDomains)-1).Draw(t, "from_domain")
	id := func(label string) c07ID {
		return c07ID{Value: rapid.SampledFrom([]int{0, 0, 0, 1, 2, 3, 4, 5, 5, 6}).Draw(t, label+"_value"), Rel: rapid.IntRange(0, relCount-1).Draw(t, label+"_rel")}
	}
	n := rapid.IntRange(1, 3).Draw(t, "ndkim")
	for i := 0; i < n; i++ {
		sc.DKIM = append(sc.DKIM, id("dkim"))
	}
	if rapid.IntRange(0, 11).Draw(t, "nosig") == 0 {
		sc.DKIM = []c07ID{{Value: 2, Rel: relEmpty}} // message without signatures
	}
	if rapid.IntRange(0, 14).Draw(t, "nospf") != 0 {
		s := id("spf")
		sc.SPF = &s
		sc.SPFHelo = rapid.IntRange(0, 4).Draw(t, "helo") == 0
	}
	sc.Adkim = rapid.SampledFrom([]string{"", "r", "s"}).Draw(t, "adkim")
	sc.Aspf = rapid.SampledFrom([]string{"", "r", "s"}).Draw(t, "aspf")
	sc.P = rapid.SampledFrom([]string{"none", "quarantine", "reject", "reject", "quarantine", ""}).Draw(t, "p")
	sc.SP = rapid.SampledFrom([]string{"", "", "none", "quarantine", "reject"}).Draw(t, "sp")
	sc.Pct100 = rapid.IntRange(0, 3).Draw(t, "pct") == 0
	sc.Lookup = rapid.SampledFrom([]int{0, 0, 0, 0, 1, 1, 1, 2, 3, 4, 5, 6, 7, 8, 8}).Draw(t, "lookup")
	sc.CheckQuarantines = rapid.IntRange(0, 5).Draw(t, "check_quarantines") == 0
	sc.SlowDNS = rapid.IntRange(0, 11).Draw(t, "slow_dns") == 0
	sc.RecordSpelling = rapid.SampledFrom([]int{0, 0, 0, 0, 1, 2}).Draw(t, "record_spelling")
	return sc
}

// ---- reference model ----------------------------------------------------

func c07Aligned(from, id string, strict bool) bool {
	lf, li := c07Lower(from), c07Lower(id)
	if li == "" {
		return false
	}
	if strict {
		return lf == li
	}
	of, ok1 := c07Org[lf]
	oi, ok2 := c07Org[li]
	if !ok1 || !ok2 {
		panic("c07: domain missing from the organisational-domain table: " + lf + " / " + li)
	}
	if of == "" || oi == "" {
		// a public suffix has no organisational domain: only identical names align
		return lf == li
	}
	return of == oi
}

type c07Expect struct {
	// allowed actions: "accept", "quarantine", "reject5", "reject4"
	Actions map[string]bool
	// allowed dmarc= verdicts when the message is delivered ("*" = anything but pass)
	Verdicts map[string]bool
	Why      string
}

func c07Model(sc c07Scenario) c07Expect {
	set := func(xs ...string) map[string]bool {
		m := map[string]bool{}
		for _, x := range xs {
			m[x] = true
		}
		return m
	}
	if sc.FromShape != 0 {
		return c07Expect{Actions: set("accept", "quarantine", "reject5", "reject4"), Verdicts: set("*"), Why: "no or several author addresses: never a pass"}
	}
	from := sc.fromDomain()
	lf := c07Lower(from)
	org := c07Org[lf]
	fromIsOrg := org == lf
	// which record applies
	haveRecord, atFrom := false, false
	switch sc.Lookup {
	case 0:
		haveRecord, atFrom = true, true
	case 8:
		switch {
		case fromIsOrg:
			// one name only, and it has no DMARC record among its TXT records
			return c07Expect{Actions: set("accept"), Verdicts: set("none"), Why: "no DMARC record among the TXT records of the only name"}
		case org == "":
			return c07Expect{Actions: set("accept"), Verdicts: set("*"), Why: "From domain is a public suffix without its own record: no policy"}
		default:
			haveRecord = true // records that are not DMARC records are discarded first; the set is empty then: organisational domain
		}
	case 1:
		switch {
		case fromIsOrg:
			haveRecord, atFrom = true, true // generator publishes at the organisational name = the From name
		case org == "":
			// From domain is a public suffix: there is no organisational domain to query
			return c07Expect{Actions: set("accept"), Verdicts: set("*"), Why: "From domain is a public suffix without its own record: no policy"}
		default:
			haveRecord = true
		}
	case 2, 3, 4:
		if org == "" && sc.Lookup != 3 {
			return c07Expect{Actions: set("accept"), Verdicts: set("*"), Why: "public-suffix From domain, no record: no policy"}
		}
		if sc.Lookup == 3 && !fromIsOrg {
			// two records at the From domain: "multiple => no record" (statement lists it as an outcome of its own)
		}
		return c07Expect{Actions: set("accept"), Verdicts: set("none"), Why: "no (single) policy record discovered"}
	case 5, 7:
		return c07Expect{Actions: set("reject4"), Why: "temporary DNS failure while fetching the policy"}
	case 6:
		if fromIsOrg {
			// only one name is queried and it does not exist
			return c07Expect{Actions: set("accept"), Verdicts: set("none"), Why: "NXDOMAIN, From domain is the organisational domain"}
		}
		if org == "" {
			return c07Expect{Actions: set("accept"), Verdicts: set("*"), Why: "public-suffix From domain, no record"}
		}
		return c07Expect{Actions: set("reject4"), Why: "temporary DNS failure while fetching the policy at the organisational domain"}
	}
	if !haveRecord {
		panic("unreachable")
	}
	if sc.P == "" {
		return c07Expect{Actions: set("accept"), Verdicts: set("*", "pass"), Why: "record without p= is not a valid policy: no action may be taken"}
	}
	dkimPresent := len(sc.DKIM) > 0
	if !dkimPresent || sc.SPF == nil {
		return c07Expect{Actions: set("accept"), Verdicts: set("none"), Why: "SPF or DKIM not evaluated: no verdict"}
	}
	strictD, strictS := sc.Adkim == "s", sc.Aspf == "s"
	alignedPass, undecided, spfTempUnaligned := false, false, false
	for _, d := range sc.DKIM {
		al := c07Aligned(from, c07Rel(from, d.Rel), strictD)
		if al && c07Values[d.Value] == authres.ResultPass {
			alignedPass = true
		}
		if al && c07Values[d.Value] == authres.ResultTempError {
			undecided = true
		}
	}
	spfAl := c07Aligned(from, c07Rel(from, sc.SPF.Rel), strictS)
	switch c07Values[sc.SPF.Value] {
	case authres.ResultPass:
		if spfAl {
			alignedPass = true
		}
	case authres.ResultTempError:
		if spfAl {
			undecided = true
		} else {
			spfTempUnaligned = true
		}
	}
	pol := sc.P
	if !atFrom && sc.SP != "" {
		pol = sc.SP
	}
	act := map[string]string{"none": "accept", "quarantine": "quarantine", "reject": "reject5"}[pol]
	switch {
	case alignedPass:
		return c07Expect{Actions: set("accept"), Verdicts: set("pass"), Why: "an aligned identifier passed"}
	case undecided:
		if pol == "reject" {
			act = "reject4"
		}
		return c07Expect{Actions: set(act), Verdicts: set("temperror"), Why: "temporary authentication error on an aligned identifier, policy " + pol}
	case spfTempUnaligned:
		// An SPF temperror on an identity that could not align anyway does not leave alignment undecided:
		// the verdict is fail and the published action applies (the temporary code is reserved for errors
		// "that leave alignment undecided"). The verdict string reported for a delivered message may be either.
		return c07Expect{Actions: set(act), Verdicts: set("temperror", "fail"), Why: "SPF temperror on a non-aligned identity (alignment is decided: fail), policy " + pol}
	default:
		return c07Expect{Actions: set(act), Verdicts: set("fail"), Why: "no aligned identifier passed, policy " + pol}
	}
}

// ---- execution ---------------------------------------------------------------

func c07Zones(sc c07Scenario) map[string]mockdns.Zone {
	from := c07Lower(sc.fromDomain())
	org := c07Org[from]
	z := map[string]mockdns.Zone{}
	// the DNS knows A-labels only
	fromName := "_dmarc." + c07ALabel(from) + "."
	orgName := "_dmarc." + c07ALabel(org) + "."
	servfail := &net.DNSError{Err: "server misbehaving", Name: fromName, IsTemporary: true}
	timeout := &net.DNSError{Err: "i/o timeout", Name: fromName, IsTimeout: true}
	switch sc.Lookup {
	case 0:
		z[fromName] = mockdns.Zone{TXT: []string{sc.record()}}
	case 1:
		if org != "" {
			z[orgName] = mockdns.Zone{TXT: []string{sc.record()}}
		}
	case 2:
		z[fromName] = mockdns.Zone{TXT: []string{"v=spf1 -all"}}
		if org != "" && org != from {
			z[orgName] = mockdns.Zone{TXT: []string{"unrelated"}}
		}
	case 3:
		z[fromName] = mockdns.Zone{TXT: []string{sc.record(), "v=DMARC1; p=none"}}
	case 4:
	case 5:
		z[fromName] = mockdns.Zone{Err: servfail}
	case 6:
		if org != "" && org != from {
			z[orgName] = mockdns.Zone{Err: servfail}
		}
	case 7:
		z[fromName] = mockdns.Zone{Err: timeout}
	case 8:
		z[fromName] = mockdns.Zone{TXT: []string{"v=spf1 -all", "site-verification=abc123"}}
		if org != "" && org != from {
			z[orgName] = mockdns.Zone{TXT: []string{sc.record()}}
		}
	}
	return z
}

func c07Header(sc c07Scenario) string {
	d := sc.fromDomain()
	switch sc.FromShape {
	case 0:
		return "From: Some One <user@" + d + ">\r\nSubject: x\r\n\r\n"
	case 1:
		return "Subject: x\r\n\r\n"
	case 2:
		return "From: user@" + d + ", other@" + d + "\r\nSubject: x\r\n\r\n"
	case 4:
		return "From:\r\nFrom: user@" + d + "\r\nSubject: x\r\n\r\n"
	case 5:
		return "From: \r\nFrom: user@" + d + "\r\nFrom:\r\nSubject: x\r\n\r\n"
	default:
		return "From: user@" + d + "\r\nFrom: second@" + d + "\r\nSubject: x\r\n\r\n"
	}
}

func c07AuthRes(sc c07Scenario) []authres.Result {
	from := sc.fromDomain()
	var out []authres.Result
	for _, d := range sc.DKIM {
		out = append(out, &authres.DKIMResult{Value: c07Values[d.Value], Domain: c07Rel(from, d.Rel)})
	}
	if sc.SPF != nil {
		r := &authres.SPFResult{Value: c07Values[sc.SPF.Value]}
		if sc.SPFHelo {
			r.Helo = c07Rel(from, sc.SPF.Rel)
		} else {
			r.From = c07Rel(from, sc.SPF.Rel)
			r.Helo = "mx.other.net"
		}
		out = append(out, r)
	}
	return out
}

type c07Observed struct {
	Action  string
	Verdict string
	Detail  string
}

func c07Execute(sc c07Scenario) c07Observed {
	tgt := testutils.Target{}
	p := MsgPipeline{
		msgpipelineCfg: msgpipelineCfg{
			globalChecks: []module.Check{&testutils.Check{BodyRes: module.CheckResult{AuthResult: c07AuthRes(sc), Quarantine: sc.CheckQuarantines,
				Reason: map[bool]error{true: &exterrors.SMTPError{Code: 550, EnhancedCode: exterrors.EnhancedCode{5, 7, 20}, Message: "check says quarantine"}, false: nil}[sc.CheckQuarantines]}}},
			perSource: map[string]sourceBlock{},
			defaultSource: sourceBlock{
				perRcpt:     map[string]*rcptBlock{},
				defaultRcpt: &rcptBlock{targets: []module.DeliveryTarget{&tgt}},
			},
			doDMARC: true,
		},
		Log:      log.Logger{Out: log.NopOutput{}},
		Resolver: &mockdns.Resolver{Zones: c07Zones(sc)},
	}
	if sc.SlowDNS {
		p.Resolver = c07SlowResolver{&mockdns.Resolver{Zones: c07Zones(sc)}}
	}
	hdr, err := textproto.ReadHeader(bufio.NewReader(strings.NewReader(c07Header(sc))))
	if err != nil {
		panic(err)
	}
	ctx := context.Background()
	meta := module.MsgMetadata{DontTraceSender: true, ID: "c07"}
	fail := func(stage string, err error) c07Observed {
		var se *exterrors.SMTPError
		if e, ok := err.(*exterrors.SMTPError); ok {
			se = e
		}
		if se == nil {
			return c07Observed{Action: "error", Detail: fmt.Sprintf("%s failed with a non-SMTP error: %v", stage, err)}
		}
		cls := "reject5"
		if se.Code/100 == 4 {
			cls = "reject4"
		}
		if se.Code/100 != int(se.EnhancedCode[0]) {
			cls = "incoherent"
		}
		return c07Observed{Action: cls, Detail: fmt.Sprintf("%s: %d %v %s (check=%s)", stage, se.Code, se.EnhancedCode, se.Message, se.CheckName)}
	}
	d, err := p.Start(ctx, &meta, "sender@other.net")
	if err != nil {
		return fail("Start", err)
	}
	if err := d.AddRcpt(ctx, "rcpt@example.com", smtp.RcptOptions{}); err != nil {
		d.Abort(ctx)
		return fail("AddRcpt", err)
	}
	if err := d.Body(ctx, hdr, buffer.MemoryBuffer{Slice: []byte("body\r\n")}); err != nil {
		d.Abort(ctx)
		if len(tgt.Messages) != 0 {
			return c07Observed{Action: "error", Detail: "message refused but the target received it"}
		}
		return fail("Body", err)
	}
	if err := d.Commit(ctx); err != nil {
		return fail("Commit", err)
	}
	if len(tgt.Messages) != 1 {
		return c07Observed{Action: "error", Detail: fmt.Sprintf("accepted but the target has %d messages", len(tgt.Messages))}
	}
	msg := tgt.Messages[0]
	obs := c07Observed{Action: "accept"}
	if msg.MsgMeta.Quarantine {
		obs.Action = "quarantine"
	}
	if f := msg.Header.Get("Authentication-Results"); f != "" {
		if _, results, err := authres.Parse(f); err == nil {
			for _, r := range results {
				if dr, ok := r.(*authres.DMARCResult); ok {
					obs.Verdict = string(dr.Value)
				}
			}
		} else {
			obs.Detail = "unparsable Authentication-Results: " + f
		}
	}
	return obs
}

func c07Run(sc c07Scenario) (vs []ev.V) {
	want := c07Model(sc)
	if sc.CheckQuarantines && want.Actions["accept"] {
		// accepted by DMARC, but flagged by the check itself
		acts := map[string]bool{}
		for k, v := range want.Actions {
			acts[k] = v
		}
		delete(acts, "accept")
		acts["quarantine"] = true
		want.Actions = acts
	}
	got := c07Execute(sc)
	desc := func() string {
		return fmt.Sprintf("From-shape=%d From-domain=%s dkim=%v spf=%v helo=%v record=%q lookup=%d; model: %s; observed action=%s verdict=%q %s",
			sc.FromShape, sc.fromDomain(), c07Describe(sc), c07DescribeSPF(sc), sc.SPFHelo, sc.record(), sc.Lookup, want.Why, got.Action, got.Verdict, got.Detail)
	}
	if got.Action == "error" || got.Action == "incoherent" {
		return []ev.V{ev.Vf("dmarc:"+got.Action, "%s", desc())}
	}
	if !want.Actions[got.Action] {
		return []ev.V{ev.Vf(fmt.Sprintf("dmarc:action:%s-instead-of-%s", got.Action, c07Keys(want.Actions)), "%s", desc())}
	}
	if got.Action == "accept" || got.Action == "quarantine" {
		ok := want.Verdicts[got.Verdict] || (want.Verdicts["*"] && got.Verdict != "pass")
		if want.Verdicts == nil {
			ok = true
		}
		if !ok {
			return []ev.V{ev.Vf(fmt.Sprintf("dmarc:verdict:%s-instead-of-%s", got.Verdict, c07Keys(want.Verdicts)), "%s", desc())}
		}
	}
	return nil
}

func c07Keys(m map[string]bool) string {
	var ks []string
	for _, k := range []string{"accept", "quarantine", "reject5", "reject4", "pass", "fail", "none", "temperror", "permerror", "*"} {
		if m[k] {
			ks = append(ks, k)
		}
	}
	return strings.Join(ks, "|")
}

func c07Describe(sc c07Scenario) string {
	var out []string
	for _, d := range sc.DKIM {
		out = append(out, string(c07Values[d.Value])+"@"+c07RelNames[d.Rel])
	}
	return strings.Join(out, ",")
}

func c07DescribeSPF(sc c07Scenario) string {
	if sc.SPF == nil {
		return "absent"
	}
	return string(c07Values[sc.SPF.Value]) + "@" + c07RelNames[sc.SPF.Rel]
}

func c07Info(sc c07Scenario) ev.Info {
	want := c07Model(sc)
	verdictNotNone := !(len(want.Verdicts) == 1 && want.Verdicts["none"])
	rel := false
	for _, d := range sc.DKIM {
		if d.Rel != relSame {
			rel = true
		}
	}
	if sc.SPF != nil && sc.SPF.Rel != relSame {
		rel = true
	}
	temp := sc.Lookup >= 5
	for _, d := range sc.DKIM {
		if c07Values[d.Value] == authres.ResultTempError {
			temp = true
		}
	}
	if sc.SPF != nil && c07Values[sc.SPF.Value] == authres.ResultTempError {
		temp = true
	}
	return ev.Info{Nontrivial: verdictNotNone && (rel || len(sc.DKIM) > 1 || temp),
		Classes: []string{"expect=" + c07Keys(want.Actions), fmt.Sprintf("lookup=%d", sc.Lookup), fmt.Sprintf("fromshape=%d", sc.FromShape)}}
}

func TestVerifC07(t *testing.T) {
	r := ev.Get("C07")
	r.Rule("Scenario = From shape (one/none/several addresses/several fields) x From domain from a fixed set with known organisational domains x 1-3 DKIM results and 0-1 SPF result " +
		"(7 result values x identifier domain in relation same/subdomain/org/sibling/public-suffix/unrelated/upper-case/empty; MAIL FROM or HELO identity) x adkim/aspf in {absent,r,s} x " +
		"p in {none,quarantine,reject,absent} x sp in {absent,none,quarantine,reject} x pct in {absent,100} x lookup outcome (record at domain / at org domain / none / multiple / NXDOMAIN / " +
		"SERVFAIL at domain / SERVFAIL at org domain / timeout), delivered through a real MsgPipeline. Non-trivial = the model's verdict is not 'none' and (some identifier is not identical to the " +
		"From domain, or >1 DKIM result, or a temporary error is involved). Distinct = distinct scenario. Thorough tier also enumerates the sub-product with exactly one DKIM result completely.")
	r.Assume("organisational domains are taken from a fixed table in the harness, not from publicsuffix")
	r.Assume("an SPF temperror on a non-aligned identity may yield either fail or temperror (the statement leaves it open)")
	ev.Run(t, r, ev.Spec[c07Scenario]{Name: "random", N: r.N, Gen: c07Gen, Run: c07Run, Info: c07Info})
	if r.Thorough() && r.Shard == 0 {
		ev.Enumerate(t, r, "product-1dkim", true, func(yield func(c07Scenario) bool) {
			for fd := 0; fd < 4; fd++ {
				for dv := 0; dv < 7; dv++ {
					for dr := 0; dr < relCount; dr++ {
						for sv := 0; sv < 7; sv++ {
							for sr := 0; sr < relCount; sr++ {
								for _, ad := range []string{"r", "s"} {
									for _, as := range []string{"r", "s"} {
										for _, p := range []string{"none", "quarantine", "reject"} {
											for _, sp := range []string{"", "none", "quarantine", "reject"} {
												for _, lk := range []int{0, 1} {
													s := c07ID{sv, sr}
													if !yield(c07Scenario{FromDom: fd, DKIM: []c07ID{{dv, dr}}, SPF: &s, Adkim: ad, Aspf: as, P: p, SP: sp, Lookup: lk}) {
														return
													}
												}
											}
										}
									}
								}
							}
						}
					}
				}
			}
		}, c07Run, c07Info)
	}
}
