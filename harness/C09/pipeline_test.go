package msgpipeline

// C09 harness, pipeline: results of rewritten recipients are reported under the
// addresses the client supplied (uses the shared msgpipeline harness modules).

import (
	"context"
	"fmt"
	"sort"
	"strings"
	"sync"
	"testing"

	"github.com/emersion/go-message/textproto"
	"github.com/emersion/go-smtp"
	"github.com/foxcpp/maddy/framework/buffer"
	"github.com/foxcpp/maddy/framework/config"
	"github.com/foxcpp/maddy/framework/exterrors"
	"github.com/foxcpp/maddy/framework/log"
	"github.com/foxcpp/maddy/framework/module"
	"pgregory.net/rapid"
	"verifkit/ev"
)

type c09pScenario struct {
	// rewrite table: client address index -> effective address indices (images may be shared: two aliases of one mailbox)
	Rewrites map[int][]int `json:"rewrites"`
	Rcpts    []int         `json:"rcpts"`
	Fail     []int         `json:"failing_effective"`               // effective addresses whose per-recipient status is an error
	Refuse   []int         `json:"second_target_refuses,omitempty"` // client recipients that a second target of the block refuses (AddRcpt fails there)
	Level    string        `json:"rewrite_level"`                   // global | source | destination | both (global 1-to-1, then destination block)
}

var c09pClient = []string{"alias1@example.org", "alias2@example.org", "plain@example.org", "list@example.org"}
// images of rewrites; the last four are the client addresses themselves: a recipient may be rewritten to an address
// that the client also names (and that is rewritten further when named directly) - one level only, not transitively
var c09pEffective = []string{"u1@example.org", "u2@example.org", "u3@example.org", "u4@example.org", "u5@example.org", "u6@example.org",
	"alias1@example.org", "alias2@example.org", "plain@example.org", "list@example.org"}

type c09pCollector struct {
	mu     sync.Mutex
	keys   []string
	failed map[string]int
}

func (c *c09pCollector) SetStatus(r string, err error) {
	c.mu.Lock()
	c.keys = append(c.keys, r)
	if err != nil {
		if c.failed == nil {
			c.failed = map[string]int{}
		}
		c.failed[r]++
	}
	c.mu.Unlock()
}

// c09pTwoBlocks: alias1@ is rewritten to plain@ inside its own destination block (target t1), the client names
// plain@ as well and that one is handled by the default block (target t3). t1 fails plain@; t3 delivers it.
func c09pTwoBlocks() (vs []ev.V) {
	vReset()
	nodes := []config.Node{
		{Name: "destination", Args: []string{"alias1@example.org"}, Children: []config.Node{
			{Name: "modify", Children: []config.Node{{Name: "replace_rcpt", Args: []string{"verif_map", "alias1@example.org", "plain@example.org"}}}},
			{Name: "deliver_to", Args: []string{"verif_ptgt", "t1"}}}},
		{Name: "default_destination", Children: []config.Node{{Name: "deliver_to", Args: []string{"verif_ptgt", "t3"}}}},
	}
	p, err := New(nil, nodes)
	if err != nil {
		return []ev.V{ev.Vf("harness:load", "%v", err)}
	}
	p.Log = log.Logger{Out: log.NopOutput{}}
	vRec.fail["t1/status/plain@example.org"] = fmt.Errorf("scripted failure of t1 for plain@example.org")
	ctx := context.Background()
	d, err := p.Start(ctx, &module.MsgMetadata{ID: "c09p2", DontTraceSender: true}, "sender@example.com")
	if err != nil {
		return []ev.V{ev.Vf("harness:start", "%v", err)}
	}
	for _, r := range []string{"alias1@example.org", "plain@example.org"} {
		if err := d.AddRcpt(ctx, r, smtp.RcptOptions{}); err != nil {
			return []ev.V{ev.Vf("harness:rcpt", "%s: %v", r, err)}
		}
	}
	col := &c09pCollector{}
	hdr := textproto.Header{}
	hdr.Add("Subject", "x")
	d.(module.PartialDelivery).BodyNonAtomic(ctx, col, hdr, buffer.MemoryBuffer{Slice: []byte("x\r\n")})
	d.Commit(ctx)
	if col.failed["alias1@example.org"] == 0 {
		vs = append(vs, ev.Vf("status:pipeline-failure-not-reported", "target t1 failed plain@example.org, which stands for alias1@example.org there, but no failure names alias1@example.org (reported: %v, failed: %v)", col.keys, col.failed))
	}
	if col.failed["plain@example.org"] > 0 {
		vs = append(vs, ev.Vf("status:pipeline-result-of-another-target", "plain@example.org was named by the client and handled by target t3 alone, which delivered it; the failure of target t1 (which holds plain@ for alias1@) was reported for it as well (reported: %v, failed: %v)", col.keys, col.failed))
	}
	return vs
}

func c09pRun(sc c09pScenario) (vs []ev.V) {
	if sc.Level == "two-blocks" {
		return c09pTwoBlocks()
	}
	vReset()
	var args []string
	var keys []int
	for k := range sc.Rewrites {
		keys = append(keys, k)
	}
	sort.Ints(keys)
	for _, k := range keys {
		var vals []string
		for _, e := range sc.Rewrites[k] {
			vals = append(vals, c09pEffective[e])
		}
		args = append(args, c09pClient[k], strings.Join(vals, ","))
	}
	nodes := []config.Node{}
	deliver := config.Node{Name: "deliver_to", Args: []string{"verif_ptgt", "t1"}}
	var second []config.Node
	if len(sc.Refuse) > 0 {
		second = []config.Node{{Name: "deliver_to", Args: []string{"verif_ptgt", "t2"}}}
	}
	mod := func(a []string) config.Node {
		return config.Node{Name: "modify", Children: []config.Node{{Name: "replace_rcpt", Args: append([]string{"verif_map"}, a...)}}}
	}
	switch {
	case len(args) == 0:
		nodes = append(append(nodes, deliver), second...)
	case sc.Level == "source":
		nodes = append(nodes, config.Node{Name: "source", Args: []string{"example.com"}, Children: append([]config.Node{mod(args), deliver}, second...)},
			config.Node{Name: "default_source", Children: []config.Node{{Name: "reject"}}})
	case sc.Level == "destination":
		nodes = append(nodes, config.Node{Name: "destination", Args: []string{"example.org"}, Children: append([]config.Node{mod(args), deliver}, second...)},
			config.Node{Name: "default_destination", Children: []config.Node{{Name: "reject"}}})
	case sc.Level == "both":
		// client address -> intermediate address globally, intermediate -> effective addresses in the destination block
		var first, second2 []string
		for i := 0; i+1 < len(args); i += 2 {
			mid := "mid-" + args[i]
			first = append(first, args[i], mid)
			second2 = append(second2, mid, args[i+1])
		}
		nodes = append(nodes, mod(first), config.Node{Name: "destination", Args: []string{"example.org"}, Children: append([]config.Node{mod(second2), deliver}, second...)},
			config.Node{Name: "default_destination", Children: []config.Node{{Name: "reject"}}})
	case sc.Level == "reroute":
		// the rewritten recipients are handed to a nested pipeline (its Start runs inside the outer AddRcpt)
		nodes = append(nodes, mod(args), config.Node{Name: "reroute", Children: append([]config.Node{deliver}, second...)})
	case sc.Level == "reroute-in-destination":
		nodes = append(nodes, config.Node{Name: "destination", Args: []string{"example.org"}, Children: []config.Node{mod(args),
			{Name: "reroute", Children: append([]config.Node{deliver}, second...)}}},
			config.Node{Name: "default_destination", Children: []config.Node{{Name: "reject"}}})
	default:
		nodes = append(append(nodes, mod(args), deliver), second...)
	}
	p, err := New(nil, nodes)
	if err != nil {
		return []ev.V{ev.Vf("harness:load", "%v", err)}
	}
	p.Log = log.Logger{Out: log.NopOutput{}}
	for _, e := range sc.Fail {
		vRec.fail["t1/status/"+c09pEffective[e]] = fmt.Errorf("scripted failure for %s", c09pEffective[e])
	}
	refusedClient := map[string]bool{}
	for _, k := range sc.Refuse {
		refusedClient[c09pClient[k]] = true
		eff := []string{c09pClient[k]}
		if exp, ok := sc.Rewrites[k]; ok {
			eff = nil
			for _, e := range exp {
				eff = append(eff, c09pEffective[e])
			}
		}
		// the second target refuses the last effective address of the recipient
		vRec.fail["t2/rcpt/"+eff[len(eff)-1]] = &exterrors.SMTPError{Code: 550, EnhancedCode: exterrors.EnhancedCode{5, 1, 1}, Message: "second target: no such user"}
	}
	// a refused address may also be the image of another client recipient (rewrite chains)
	for _, k := range sc.Rcpts {
		eff := []string{c09pClient[k]}
		if exp, ok := sc.Rewrites[k]; ok {
			eff = nil
			for _, e := range exp {
				eff = append(eff, c09pEffective[e])
			}
		}
		for _, a := range eff {
			if _, bad := vRec.fail["t2/rcpt/"+a]; bad {
				refusedClient[c09pClient[k]] = true
			}
		}
	}
	ctx := context.Background()
	d, err := p.Start(ctx, &module.MsgMetadata{ID: "c09p", DontTraceSender: true}, "sender@example.com")
	if err != nil {
		return []ev.V{ev.Vf("harness:start", "%v", err)}
	}
	var accepted []string
	for _, r := range sc.Rcpts {
		if err := d.AddRcpt(ctx, c09pClient[r], smtp.RcptOptions{}); err == nil {
			accepted = append(accepted, c09pClient[r])
		}
	}
	col := &c09pCollector{}
	hdr := textproto.Header{}
	hdr.Add("Subject", "x")
	d.(module.PartialDelivery).BodyNonAtomic(ctx, col, hdr, buffer.MemoryBuffer{Slice: []byte("x\r\n")})
	d.Commit(ctx)
	supplied := map[string]bool{}
	for _, a := range accepted {
		supplied[a] = true
	}
	reported := map[string]bool{}
	for _, k := range col.keys {
		reported[k] = true
		if !supplied[k] && refusedClient[k] {
			vs = append(vs, ev.Vf("status:pipeline-result-for-refused-recipient:later-target-refused", "the pipeline refused recipient %q (its second target did), yet it reports a result for it: the first target kept the recipient (accepted: %q)", k, accepted))
		} else if !supplied[k] {
			vs = append(vs, ev.Vf("status:pipeline-key-not-client-address", "result reported under %q, the client supplied %q (rewrites %v)", k, accepted, sc.Rewrites))
		}
	}
	// every accepted client address whose expansion contains a failing effective address must get a result
	// (an address that is not rewritten is its own expansion: it may be the image of another recipient as well)
	for _, a := range accepted {
		r := -1
		for i, x := range c09pClient {
			if x == a {
				r = i
			}
		}
		exp, ok := sc.Rewrites[r]
		if !ok {
			exp = []int{6 + r}
		}
		for _, e := range exp {
			for _, f := range sc.Fail {
				if e == f && !reported[a] {
					vs = append(vs, ev.Vf("status:pipeline-failure-not-reported", "effective recipient %s of %s failed but no result names %s (reported: %v)", c09pEffective[e], a, a, col.keys))
				}
			}
		}
		if len(sc.Refuse) > 0 {
			continue
		}
		// the harness target reports one result per recipient it was given: every accepted client address gets one,
		// and exactly one when it stands for a single effective address
		n := 0
		for _, k := range col.keys {
			if k == a {
				n++
			}
		}
		if n == 0 {
			vs = append(vs, ev.Vf("status:pipeline-no-result-for-accepted-recipient", "%s was accepted (effective %v) and the target reported a result for every recipient, none names %s (reported: %v, rewrites %v)", a, exp, a, col.keys, sc.Rewrites))
		} else if n > 1 && len(exp) == 1 {
			vs = append(vs, ev.Vf("status:pipeline-several-results-for-one-recipient", "%s stands for one effective address and got %d results (reported: %v, rewrites %v)", a, n, col.keys, sc.Rewrites))
		}
	}
	return vs
}

func TestVerifC09Pipeline(t *testing.T) {
	r := ev.Get("C09")
	ev.Run(t, r, ev.Spec[c09pScenario]{Name: "pipeline", Journal: true, N: r.N, Gen: func(t *rapid.T) c09pScenario {
		sc := c09pScenario{Rewrites: map[int][]int{}, Level: rapid.SampledFrom([]string{"global", "source", "destination", "both", "reroute", "reroute-in-destination", "two-blocks"}).Draw(t, "level")}
		if sc.Level == "two-blocks" {
			return sc
		}
		next := 0
		usedClient := map[int]bool{}
		// shared: two client addresses may have the same image (two aliases of one mailbox), otherwise images stay disjoint
		shared := rapid.IntRange(0, 2).Draw(t, "shared_images") == 0
		for k := 0; k < len(c09pClient); k++ {
			if rapid.Bool().Draw(t, "rewritten") && next < 6 {
				n := rapid.IntRange(1, 2).Draw(t, "fanout")
				for i := 0; i < n && next < 6; i++ {
					// sometimes the image is another client address
					if j := rapid.IntRange(0, 11).Draw(t, "chain_to"); j < len(c09pClient) && j != k && (shared || !usedClient[j]) && sc.Level != "both" {
						dup := false
						for _, x := range sc.Rewrites[k] {
							dup = dup || x == 6+j
						}
						if !dup {
							usedClient[j] = true
							sc.Rewrites[k] = append(sc.Rewrites[k], 6+j)
							continue
						}
					}
					if shared && next > 0 && rapid.Bool().Draw(t, "reuse_image") {
						e := rapid.IntRange(0, next-1).Draw(t, "image")
						dup := false
						for _, x := range sc.Rewrites[k] {
							dup = dup || x == e
						}
						if !dup {
							sc.Rewrites[k] = append(sc.Rewrites[k], e)
							continue
						}
					}
					sc.Rewrites[k] = append(sc.Rewrites[k], next)
					next++
				}
			}
		}
		sc.Rcpts = rapid.SliceOfNDistinct(rapid.IntRange(0, len(c09pClient)-1), 1, 4, rapid.ID[int]).Draw(t, "rcpts")
		if rapid.IntRange(0, 3).Draw(t, "second_target") == 0 {
			sc.Refuse = rapid.SliceOfNDistinct(rapid.SampledFrom(sc.Rcpts), 1, 2, rapid.ID[int]).Draw(t, "refuse")
		}
		var images []int
		for _, v := range sc.Rewrites {
			images = append(images, v...)
		}
		sort.Ints(images)
		if len(images) > 0 {
			sc.Fail = rapid.SliceOfNDistinct(rapid.SampledFrom(images), 0, 2, rapid.ID[int]).Draw(t, "fail")
		}
		return sc
	}, Run: c09pRun, Info: func(sc c09pScenario) ev.Info {
		rw := false
		for _, r := range sc.Rcpts {
			if len(sc.Rewrites[r]) > 0 {
				rw = true
			}
		}
		seen, sharedImg := map[int]bool{}, false
		for _, r := range sc.Rcpts {
			exp, ok := sc.Rewrites[r]
			if !ok {
				exp = []int{6 + r}
			}
			for _, e := range exp {
				sharedImg = sharedImg || seen[e]
				seen[e] = true
			}
		}
		return ev.Info{Nontrivial: rw && len(sc.Fail) > 0, Classes: []string{"level=" + sc.Level, fmt.Sprintf("shared_image=%v", sharedImg)}}
	}})
}
