package remote

// C05 harness (injected into internal/target/remote by overlay).
//
// Scripted MX servers on loopback (plain, STARTTLS with a certificate that is
// valid / self-signed / for another name, STARTTLS advertised but failing), a
// mock DNS server with AD control and TLSA records behind a real ExtResolver,
// a stubbed MTA-STS fetcher, the real mtasts / dane / dnssec / local_policy
// modules and the real Target with its connection cache. The oracle is a
// safety predicate evaluated on what the servers actually received: the facts
// of the server and connection (known by construction) must satisfy every
// policy in force for that message.

import (
	"bytes"
	"context"
	"crypto/ecdsa"
	"crypto/elliptic"
	"crypto/rand"
	"crypto/sha256"
	"crypto/tls"
	"crypto/x509"
	"crypto/x509/pkix"
	"encoding/hex"
	"errors"
	"fmt"
	"math/big"
	"net"
	"os"
	"strconv"
	"strings"
	"sync"
	"testing"
	"time"

	"github.com/emersion/go-message/textproto"
	"github.com/emersion/go-smtp"
	"github.com/foxcpp/go-mockdns"
	"github.com/foxcpp/go-mtasts"
	"github.com/foxcpp/maddy/framework/buffer"
	"github.com/foxcpp/maddy/framework/config"
	"github.com/foxcpp/maddy/framework/dns"
	"github.com/foxcpp/maddy/framework/exterrors"
	"github.com/foxcpp/maddy/framework/log"
	"github.com/foxcpp/maddy/framework/module"
	"github.com/foxcpp/maddy/internal/limits"
	"github.com/foxcpp/maddy/internal/smtpconn/pool"
	"github.com/foxcpp/maddy/internal/verifx"
	miekgdns "github.com/miekg/dns"
	"pgregory.net/rapid"
	"verifkit/ev"
)

// ---- PKI and servers (created once per process) --------------------------------------------------------

type c05Cert struct {
	tlsCert tls.Certificate
	leaf    *x509.Certificate
}

var (
	c05Once    sync.Once
	c05CA      *x509.Certificate
	c05CAKey   *ecdsa.PrivateKey
	c05Roots   *x509.CertPool
	c05Servers = map[string]*verifx.NextHop{} // "<mx>/<kind>"
	c05Certs   = map[string]c05Cert{}         // "<mx>/<kind>"
	c05InitErr error
)

var c05MXNames = []string{"mx1.example.invalid", "mx2.example.invalid"}
var c05Kinds = []string{"plain", "valid", "selfsigned", "wrongname", "failing"}

func c05MakeCert(name string, parent *x509.Certificate, parentKey *ecdsa.PrivateKey, isCA bool) (c05Cert, *ecdsa.PrivateKey) {
	key, _ := ecdsa.GenerateKey(elliptic.P256(), rand.Reader)
	serial, _ := rand.Int(rand.Reader, big.NewInt(1<<62))
	tpl := &x509.Certificate{SerialNumber: serial, Subject: pkix.Name{CommonName: name}, NotBefore: time.Now().Add(-time.Hour), NotAfter: time.Now().Add(24 * 365 * time.Hour),
		BasicConstraintsValid: true, IsCA: isCA, DNSNames: []string{name}, KeyUsage: x509.KeyUsageDigitalSignature, ExtKeyUsage: []x509.ExtKeyUsage{x509.ExtKeyUsageServerAuth}}
	if isCA {
		tpl.KeyUsage |= x509.KeyUsageCertSign
	}
	signer, signerKey := tpl, key
	if parent != nil {
		signer, signerKey = parent, parentKey
	}
	der, err := x509.CreateCertificate(rand.Reader, tpl, signer, &key.PublicKey, signerKey)
	if err != nil {
		panic(err)
	}
	leaf, _ := x509.ParseCertificate(der)
	return c05Cert{tlsCert: tls.Certificate{Certificate: [][]byte{der}, PrivateKey: key}, leaf: leaf}, key
}

func c05Init() {
	ca, caKey := c05MakeCert("verif CA", nil, nil, true)
	c05CA, c05CAKey = ca.leaf, caKey
	c05Roots = x509.NewCertPool()
	c05Roots.AddCert(c05CA)
	for i, mx := range c05MXNames {
		for _, kind := range c05Kinds {
			var tcfg *tls.Config
			switch kind {
			case "valid":
				c, _ := c05MakeCert(mx, c05CA, c05CAKey, false)
				c.tlsCert.Certificate = append(c.tlsCert.Certificate, c05CA.Raw) // the CA is part of the presented chain (DANE-TA)
				c05Certs[mx+"/"+kind] = c
				tcfg = &tls.Config{Certificates: []tls.Certificate{c.tlsCert}}
			case "selfsigned":
				c, _ := c05MakeCert(mx, nil, nil, false)
				c05Certs[mx+"/"+kind] = c
				tcfg = &tls.Config{Certificates: []tls.Certificate{c.tlsCert}}
			case "wrongname":
				c, _ := c05MakeCert("other.invalid", c05CA, c05CAKey, false)
				c.tlsCert.Certificate = append(c.tlsCert.Certificate, c05CA.Raw)
				c05Certs[mx+"/"+kind] = c
				tcfg = &tls.Config{Certificates: []tls.Certificate{c.tlsCert}}
			case "failing":
				tcfg = &tls.Config{GetCertificate: func(*tls.ClientHelloInfo) (*tls.Certificate, error) {
					return nil, errors.New("scripted handshake failure")
				}}
			}
			for _, req := range []bool{true, false} {
				h, err := verifx.StartNextHop(verifx.HopConfig{Name: mx, ListenIP: fmt.Sprintf("127.0.%d.%d", 10+ev.EnvInt("VERIF_SHARD", 0)%200, i+1), TLS: tcfg, UTF8: true, RequireTLS: req})
				if err != nil {
					c05InitErr = err
					return
				}
				c05Servers[fmt.Sprintf("%s/%s/%v", mx, kind, req)] = h
			}
		}
	}
}

// ---- scenario --------------------------------------------------------------------------------------------

type c05MX struct {
	Kind string `json:"kind"` // plain valid selfsigned wrongname failing
	// TLSA: none ee-match ee-mismatch unusable servfail ta-match (DANE-TA record for the harness CA, which signed the
	// `valid` and the `wrongname` certificates and is presented with them)
	TLSA string `json:"tlsa"`
	AD   bool   `json:"ad"` // DNSSEC-authenticated A/TLSA answers for this MX
	// the MX name is a CNAME: "" (no), cname-none (no TLSA at the canonical name: the records at the MX name
	// count), cname-servfail (the TLSA lookup at the canonical name fails), cname-match (authenticated matching
	// record at the canonical name: used, whatever is published at the MX name)
	CNAME string `json:"cname,omitempty"`
	// the host has an AAAA record only (the dialer of the harness still reaches the scripted server)
	V6Only bool `json:"ipv6_only,omitempty"`
	// the server does not advertise the REQUIRETLS extension
	NoReqTLS bool `json:"no_requiretls_extension"`
	// only the first connection to this MX is offered STARTTLS; every later one (the retry after a certificate
	// that does not verify, later messages) reaches a server that does not offer it (someone strips it)
	StripLater bool `json:"starttls_stripped_after_first_connection,omitempty"`
}

type c05Msg struct {
	RequireTLS bool `json:"requiretls"`
	Override   bool `json:"tls_required_no"`
	Quarantine bool `json:"quarantine"`
	QuarLate   bool `json:"quarantined_at_body_stage,omitempty"` // the flag is raised after the recipients were added (a body-stage check or the DMARC policy quarantines)
	NonAtomic  bool `json:"per_recipient_body_path,omitempty"` // BodyNonAtomic (what the queue and the LMTP path use) instead of Body
	Second     bool `json:"second_domain"`                     // recipient at second.invalid (MX = mx2 only) instead of example.invalid
	Implicit   bool `json:"implicit_mx_domain,omitempty"` // recipient at implicit.invalid: no MX records, the domain's own address record (server of MX 1) is used
	Both       bool `json:"both_domains"`                      // recipients at example.invalid and then at second.invalid
}

type c05Scenario struct {
	// policies
	MTASTS        string   `json:"mtasts"`       // "", none, testing, enforce, lost (the cache hands over no policy and no error: go-mtasts does when a fresh policy cannot be stored and nothing is cached)
	MTASTSMatch   string   `json:"mtasts_match"` // which MX the policy lists: all mx1 mx2 other
	DANE          bool     `json:"dane"`
	DNSSEC        bool     `json:"dnssec"`
	MinTLS        string   `json:"min_tls_level"` // "", none encrypted authenticated  ("" = no local_policy)
	MinMX         string   `json:"min_mx_level"`  // none mtasts dnssec
	AllowOverride bool     `json:"requiretls_override"`
	Relaxed       bool     `json:"relaxed_requiretls"`
	ADMX          bool     `json:"ad_on_mx_lookup"`
	implicitMX    c05MX    // derived in c05Run: facts that apply to the implicit-MX host
	MXs           []c05MX  `json:"mx"`
	Msgs          []c05Msg `json:"messages"`
}

func c05Gen(t *rapid.T) c05Scenario {
	sc := c05Scenario{
		MTASTS:      rapid.SampledFrom([]string{"", "", "none", "testing", "enforce", "enforce", "lost"}).Draw(t, "mtasts"),
		MTASTSMatch: rapid.SampledFrom([]string{"all", "all", "mx1", "mx2", "other"}).Draw(t, "mtasts_match"),
		DANE:        rapid.Bool().Draw(t, "dane"), DNSSEC: rapid.Bool().Draw(t, "dnssec"),
		MinTLS:        rapid.SampledFrom([]string{"", "none", "encrypted", "encrypted", "authenticated"}).Draw(t, "min_tls"),
		MinMX:         rapid.SampledFrom([]string{"none", "none", "mtasts", "dnssec"}).Draw(t, "min_mx"),
		AllowOverride: rapid.Bool().Draw(t, "allow_override"), Relaxed: rapid.Bool().Draw(t, "relaxed"),
		ADMX: rapid.Bool().Draw(t, "ad_mx"),
	}
	for i, n := 0, rapid.IntRange(1, 2).Draw(t, "nmx"); i < n; i++ {
		sc.MXs = append(sc.MXs, c05MX{Kind: rapid.SampledFrom(c05Kinds).Draw(t, "kind"),
			TLSA: rapid.SampledFrom([]string{"none", "none", "ee-match", "ee-mismatch", "unusable", "servfail", "ta-match", "ta-match"}).Draw(t, "tlsa"), AD: rapid.IntRange(0, 3).Draw(t, "ad") != 0,
			CNAME: rapid.SampledFrom([]string{"", "", "", "cname-none", "cname-servfail", "cname-match"}).Draw(t, "cname"),
			V6Only:   rapid.IntRange(0, 4).Draw(t, "v6only") == 0,
			NoReqTLS: rapid.IntRange(0, 2).Draw(t, "noreqtls") == 0})
		if mx := &sc.MXs[len(sc.MXs)-1]; mx.Kind != "plain" && rapid.IntRange(0, 4).Draw(t, "strip_later") == 0 {
			mx.StripLater = true
		}
	}
	for i, n := 0, rapid.IntRange(1, 3).Draw(t, "nmsgs"); i < n; i++ {
		sc.Msgs = append(sc.Msgs, c05Msg{RequireTLS: rapid.IntRange(0, 3).Draw(t, "requiretls") == 0, Override: rapid.IntRange(0, 2).Draw(t, "override") == 0,
			Quarantine: rapid.IntRange(0, 9).Draw(t, "quarantine") == 0, NonAtomic: rapid.Bool().Draw(t, "non_atomic"), QuarLate: rapid.Bool().Draw(t, "quar_late"), Second: len(sc.MXs) == 2 && rapid.IntRange(0, 3).Draw(t, "second") == 0,
			Both: len(sc.MXs) == 2 && rapid.IntRange(0, 3).Draw(t, "both") == 0})
		m := &sc.Msgs[len(sc.Msgs)-1]
		if sc.MTASTS == "" && !m.Second && !m.Both && rapid.IntRange(0, 3).Draw(t, "implicit") == 0 {
			m.Implicit = true
		}
	}
	return sc
}

// ---- reference predicate ---------------------------------------------------------------------------------

// facts of MX i as far as the policies are concerned
func (sc c05Scenario) mxMatchesSTS(i int) bool {
	switch sc.MTASTSMatch {
	case "all":
		return true
	case "mx1":
		return i == 0
	case "mx2":
		return i == 1
	}
	return false
}

// c05Allowed says whether message m may be handed to MX i over a connection with the given TLS state.
func c05Allowed(sc c05Scenario, m c05Msg, i int, usedTLS bool) (bool, string) {
	mx := sc.MXs[i]
	if m.Implicit {
		// the host is implicit.invalid itself: the certificate of MX 1's server is for another name, the TLSA
		// facts are the original ones (before the CNAME adjustment), both zones carry AD together
		mx = sc.implicitMX
	}
	if m.Quarantine {
		return false, "quarantined messages are never relayed"
	}
	certValid := mx.Kind == "valid"
	if usedTLS && (mx.Kind == "plain" || mx.Kind == "failing") {
		return false, "harness: TLS on a server that cannot do TLS"
	}
	policies := !(m.Override && sc.AllowOverride)
	daneUsable := sc.DANE && mx.AD && (mx.TLSA == "ee-match" || mx.TLSA == "ee-mismatch" || mx.TLSA == "ta-match")
	// DANE-TA: the CA record matches only a chain in which the server certificate validly leads to that CA for the MX name
	daneMatch := mx.TLSA == "ee-match" || (mx.TLSA == "ta-match" && mx.Kind == "valid")
	daneAuth := daneUsable && daneMatch && usedTLS
	mxLevel := 0 // none
	if policies && sc.MTASTS != "" && sc.MTASTS != "none" && sc.MTASTS != "lost" && sc.mxMatchesSTS(i) {
		mxLevel = 1 // mtasts
	}
	admx := sc.ADMX
	if m.Implicit {
		admx = mx.AD // one zone answers both the (empty) MX query and the address query of the implicit host
	}
	if policies && sc.DNSSEC && admx {
		mxLevel = 2
	}
	tlsLevel := 0
	if usedTLS {
		tlsLevel = 1
		if certValid || daneAuth {
			tlsLevel = 2
		}
	}
	if policies {
		if sc.MTASTS == "enforce" {
			if !sc.mxMatchesSTS(i) {
				return false, "MTA-STS enforce: MX is not listed by the policy"
			}
			if !usedTLS || !certValid {
				return false, "MTA-STS enforce: TLS with a valid certificate is required"
			}
		}
		if sc.DANE && mx.AD {
			if mx.TLSA == "servfail" {
				return false, "TLSA discovery failed: delivery must be deferred"
			}
			if mx.TLSA != "none" && !usedTLS {
				return false, "TLSA records exist: TLS is required (DANE)"
			}
			if daneUsable && !daneMatch {
				return false, "usable TLSA records exist and none matches (DANE)"
			}
		}
		switch sc.MinTLS {
		case "encrypted":
			if tlsLevel < 1 {
				return false, "local_policy min_tls_level encrypted"
			}
		case "authenticated":
			if tlsLevel < 2 {
				return false, "local_policy min_tls_level authenticated"
			}
		}
		if sc.MinTLS != "" {
			switch sc.MinMX {
			case "mtasts":
				if mxLevel < 1 {
					return false, "local_policy min_mx_level mtasts"
				}
			case "dnssec":
				if mxLevel < 2 {
					return false, "local_policy min_mx_level dnssec"
				}
			}
		}
	}
	if m.RequireTLS {
		// REQUIRETLS is a property of the message, not a policy that TLS-Required: No could switch off together with itself
		if tlsLevel < 2 {
			return false, "REQUIRETLS: authenticated TLS is required"
		}
		if mxLevel < 1 {
			return false, "REQUIRETLS: the MX must be authenticated (MTA-STS or DNSSEC)"
		}
	}
	return true, ""
}

// ---- execution ---------------------------------------------------------------------------------------------

func c05TLSA(name string, usage, selector, mtype uint8, data string) map[miekgdns.Type][]miekgdns.RR {
	return map[miekgdns.Type][]miekgdns.RR{miekgdns.Type(miekgdns.TypeTLSA): {&miekgdns.TLSA{
		Hdr:   miekgdns.RR_Header{Name: name, Class: miekgdns.ClassINET, Rrtype: miekgdns.TypeTLSA, Ttl: 9999},
		Usage: usage, Selector: selector, MatchingType: mtype, Certificate: data}}}
}

func c05SPKIHash(c *x509.Certificate) string {
	h := sha256.Sum256(c.RawSubjectPublicKeyInfo)
	return hex.EncodeToString(h[:])
}

func c05Run(sc c05Scenario) (vs []ev.V) {
	c05Once.Do(c05Init)
	if c05InitErr != nil {
		ev.Get("C05").HarnessError("cannot start the scripted MX servers: %v", c05InitErr)
		return nil
	}
	orig0 := sc.MXs[0] // the facts as generated, before the model-side adjustments below
	servers := make([]*verifx.NextHop, len(sc.MXs))
	stripped := make([]*verifx.NextHop, len(sc.MXs)) // the plain server later connections end up at (StripLater)
	laterAddr := map[string]string{}
	var dialMu sync.Mutex
	dials := map[string]int{}
	addrOf := map[string]string{}
	zones := map[string]mockdns.Zone{}
	var mxRecs []net.MX
	for i, mx := range sc.MXs {
		name := c05MXNames[i]
		servers[i] = c05Servers[fmt.Sprintf("%s/%s/%v", name, mx.Kind, !mx.NoReqTLS)]
		servers[i].ResetScript()
		addrOf[name] = servers[i].Addr
		if mx.StripLater {
			stripped[i] = c05Servers[fmt.Sprintf("%s/plain/%v", name, !mx.NoReqTLS)]
			stripped[i].ResetScript()
			laterAddr[servers[i].Addr] = stripped[i].Addr
		}
		mxRecs = append(mxRecs, net.MX{Host: name + ".", Pref: uint16(10 * (i + 1))})
		zones[name+"."] = mockdns.Zone{AD: mx.AD, A: []string{"127.0.0.1"}}
		if mx.V6Only {
			zones[name+"."] = mockdns.Zone{AD: mx.AD, AAAA: []string{"::1"}}
		}
		leaf := c05Certs[name+"/"+mx.Kind].leaf
		other := c05CA
		if mx.CNAME != "" {
			canon := "canon-" + name + "."
			zones[name+"."] = mockdns.Zone{AD: mx.AD, CNAME: canon}
			zones[canon] = mockdns.Zone{AD: mx.AD, A: []string{"127.0.0.1"}}
			if mx.V6Only {
				zones[canon] = mockdns.Zone{AD: mx.AD, AAAA: []string{"::1"}}
			}
			ctlsa := "_25._tcp." + canon
			switch mx.CNAME {
			case "cname-servfail":
				zones[ctlsa] = mockdns.Zone{Err: errors.New("scripted SERVFAIL")}
			case "cname-match":
				if leaf != nil {
					zones[ctlsa] = mockdns.Zone{AD: mx.AD, Misc: c05TLSA(ctlsa, 3, 1, 1, c05SPKIHash(leaf))}
				} else {
					zones[ctlsa] = mockdns.Zone{AD: mx.AD, Misc: c05TLSA(ctlsa, 3, 1, 1, c05SPKIHash(other))}
				}
			}
		}
		tlsaName := "_25._tcp." + name + "."
		switch mx.TLSA {
		case "ee-match":
			if leaf != nil {
				zones[tlsaName] = mockdns.Zone{AD: mx.AD, Misc: c05TLSA(tlsaName, 3, 1, 1, c05SPKIHash(leaf))}
			} else {
				zones[tlsaName] = mockdns.Zone{AD: mx.AD, Misc: c05TLSA(tlsaName, 3, 1, 1, c05SPKIHash(other))}
			}
		case "ee-mismatch":
			zones[tlsaName] = mockdns.Zone{AD: mx.AD, Misc: c05TLSA(tlsaName, 3, 1, 1, c05SPKIHash(other))}
		case "ta-match":
			zones[tlsaName] = mockdns.Zone{AD: mx.AD, Misc: c05TLSA(tlsaName, 2, 1, 1, c05SPKIHash(c05CA))}
		case "unusable":
			zones[tlsaName] = mockdns.Zone{AD: mx.AD, Misc: c05TLSA(tlsaName, 7, 1, 1, c05SPKIHash(other))}
		case "servfail":
			zones[tlsaName] = mockdns.Zone{Err: errors.New("scripted SERVFAIL")}
		}
	}
	// the model works on the records that count: those at the canonical name when the lookup there fails or
	// yields authenticated records, otherwise those at the MX name (RFC 7672 2.2.2)
	mxs := append([]c05MX(nil), sc.MXs...)
	sc.implicitMX = orig0
	sc.implicitMX.CNAME = ""
	sc.implicitMX.AD = sc.ADMX && sc.MXs[0].AD
	if sc.implicitMX.Kind == "valid" {
		sc.implicitMX.Kind = "wrongname"
	}
	if sc.implicitMX.TLSA == "ee-match" && c05Certs[c05MXNames[0]+"/"+orig0.Kind].leaf == nil {
		sc.implicitMX.TLSA = "ee-mismatch"
	}
	sc.MXs = mxs
	for i := range sc.MXs {
		if !sc.MXs[i].AD {
			continue
		}
		switch sc.MXs[i].CNAME {
		case "cname-servfail":
			sc.MXs[i].TLSA = "servfail"
		case "cname-match":
			sc.MXs[i].TLSA = "ee-match"
		}
	}
	// a server without a certificate cannot match a TLSA record: treat "ee-match" there as mismatch in the model
	for i := range sc.MXs {
		if sc.MXs[i].TLSA == "ee-match" && c05Certs[c05MXNames[i]+"/"+sc.MXs[i].Kind].leaf == nil {
			sc.MXs[i].TLSA = "ee-mismatch"
		}
	}
	zones["example.invalid."] = mockdns.Zone{AD: sc.ADMX, MX: mxRecs}
	{
		// implicit.invalid has no MX records: its own address record is the mail exchanger (RFC 5321 5.1); it is
		// served by the server of MX 1 and has that MX's TLSA facts (CNAME variants do not apply to it)
		mx0 := orig0
		zones["implicit.invalid."] = mockdns.Zone{AD: sc.ADMX && mx0.AD, A: []string{"127.0.0.1"}}
		addrOf["implicit.invalid"] = servers[0].Addr
		tn := "_25._tcp.implicit.invalid."
		leaf := c05Certs[c05MXNames[0]+"/"+mx0.Kind].leaf
		switch mx0.TLSA {
		case "ee-match":
			if leaf != nil {
				zones[tn] = mockdns.Zone{AD: mx0.AD, Misc: c05TLSA(tn, 3, 1, 1, c05SPKIHash(leaf))}
			} else {
				zones[tn] = mockdns.Zone{AD: mx0.AD, Misc: c05TLSA(tn, 3, 1, 1, c05SPKIHash(c05CA))}
			}
		case "ee-mismatch":
			zones[tn] = mockdns.Zone{AD: mx0.AD, Misc: c05TLSA(tn, 3, 1, 1, c05SPKIHash(c05CA))}
		case "unusable":
			zones[tn] = mockdns.Zone{AD: mx0.AD, Misc: c05TLSA(tn, 7, 1, 1, c05SPKIHash(c05CA))}
		case "servfail":
			zones[tn] = mockdns.Zone{Err: errors.New("scripted SERVFAIL")}
		case "ta-match":
			zones[tn] = mockdns.Zone{AD: mx0.AD, Misc: c05TLSA(tn, 2, 1, 1, c05SPKIHash(c05CA))}
		}
	}
	if len(sc.MXs) == 2 {
		zones["second.invalid."] = mockdns.Zone{AD: sc.ADMX, MX: []net.MX{{Host: c05MXNames[1] + ".", Pref: 10}}}
	}
	dnsSrv, err := mockdns.NewServerWithLogger(zones, log.Logger{Out: log.NopOutput{}}, false)
	for try := 0; err != nil && strings.Contains(err.Error(), "address already in use") && try < 100; try++ {
		// the mock server picks a UDP port and then wants the same TCP port, which another shard may hold
		time.Sleep(time.Millisecond)
		dnsSrv, err = mockdns.NewServerWithLogger(zones, log.Logger{Out: log.NopOutput{}}, false)
	}
	if err != nil {
		ev.Get("C05").HarnessError("mock DNS: %v", err)
		return nil
	}
	defer dnsSrv.Close()
	extR, err := dns.NewExtResolver()
	if err != nil {
		ev.Get("C05").HarnessError("ExtResolver: %v", err)
		return nil
	}
	udp := dnsSrv.LocalAddr().(*net.UDPAddr)
	extR.Cfg.Servers = []string{udp.IP.String()}
	extR.Cfg.Port = strconv.Itoa(udp.Port)

	var policies []module.MXAuthPolicy
	if sc.MTASTS != "" {
		m, _ := NewMTASTSPolicy("mx_auth.mtasts", "verif", nil, nil)
		p := m.(*mtastsPolicy)
		if err := p.Init(config.NewMap(nil, config.Node{Children: []config.Node{{Name: "cache", Args: []string{"ram"}}}})); err != nil {
			return []ev.V{ev.Vf("harness:init", "mtasts: %v", err)}
		}
		p.log = log.Logger{Out: log.NopOutput{}}
		p.mtastsGet = func(_ context.Context, domain string) (*mtasts.Policy, error) {
			if sc.MTASTS == "none" {
				return nil, mtasts.ErrNoPolicy
			}
			if sc.MTASTS == "lost" {
				return nil, nil
			}
			pol := &mtasts.Policy{Mode: mtasts.ModeTesting, MaxAge: 3600}
			if sc.MTASTS == "enforce" {
				pol.Mode = mtasts.ModeEnforce
			}
			switch sc.MTASTSMatch {
			case "all":
				pol.MX = []string{"*.example.invalid"}
			case "mx1":
				pol.MX = []string{c05MXNames[0]}
			case "mx2":
				pol.MX = []string{c05MXNames[1]}
			default:
				pol.MX = []string{"mx.other.invalid"}
			}
			return pol, nil
		}
		policies = append(policies, p)
	}
	if sc.DANE {
		policies = append(policies, &danePolicy{extResolver: extR, log: log.Logger{Out: log.NopOutput{}}})
	}
	if sc.DNSSEC {
		policies = append(policies, &dnssecPolicy{})
	}
	if sc.MinTLS != "" {
		lp := &localPolicy{}
		lp.minTLSLevel = map[string]module.TLSLevel{"none": module.TLSNone, "encrypted": module.TLSEncrypted, "authenticated": module.TLSAuthenticated}[sc.MinTLS]
		lp.minMXLevel = map[string]module.MXLevel{"none": module.MXNone, "mtasts": module.MX_MTASTS, "dnssec": module.MX_DNSSEC}[sc.MinMX]
		policies = append(policies, lp)
	}
	tgt := &Target{
		name: "remote", hostname: "mx.maddy.test", resolver: &mockdns.Resolver{Zones: zones}, extResolver: extR,
		dialer: func(ctx context.Context, network, addr string) (net.Conn, error) {
			host, _, _ := net.SplitHostPort(addr)
			real, ok := addrOf[strings.TrimSuffix(host, ".")]
			if !ok {
				// the target resolved the name itself: map the loopback address back through the port-less lookup
				for n, a := range addrOf {
					_ = n
					real, ok = a, true
					break
				}
			}
			dialMu.Lock()
			dials[real]++
			if later, ok := laterAddr[real]; ok && dials[real] > 1 {
				real = later
			}
			dialMu.Unlock()
			return (&net.Dialer{}).DialContext(ctx, "tcp", real)
		},
		tlsConfig: &tls.Config{RootCAs: c05Roots}, Log: log.Logger{Out: log.NopOutput{}},
		policies: policies, limits: &limits.Group{}, allowSecOverride: sc.AllowOverride, relaxedREQUIRETLS: sc.Relaxed,
		pool: pool.New(pool.Config{MaxKeys: 5000, MaxConnsPerKey: 5, MaxConnLifetimeSec: 150, StaleKeyLifetimeSec: 300}), connReuseLimit: 10,
	}
	defer tgt.Close()
	if os.Getenv("VERIF_DEBUG") != "" {
		tgt.Log = log.Logger{Out: log.WriterOutput(os.Stderr, false), Debug: true, Name: "remote"}
		for _, p := range policies {
			if dp, ok := p.(*danePolicy); ok {
				dp.log = log.Logger{Out: log.WriterOutput(os.Stderr, false), Debug: true, Name: "dane"}
			}
		}
	}

	ctx, cancel := context.WithTimeout(context.Background(), 30*time.Second)
	defer cancel()
	type result struct {
		err   error
		stage string
	}
	results := make([]result, len(sc.Msgs))
	before := make([]int, len(servers))
	beforeStripped := make([]int, len(servers))
	for i, s := range servers {
		before[i] = len(s.Messages())
		if stripped[i] != nil {
			beforeStripped[i] = len(stripped[i].Messages())
		}
	}
	for mi, m := range sc.Msgs {
		hdr := textproto.Header{}
		hdr.Add("Subject", fmt.Sprintf("c05 message %d", mi))
		if m.Override {
			hdr.Add("TLS-Required", "No")
		}
		meta := &module.MsgMetadata{ID: fmt.Sprintf("c05-%d", mi), SMTPOpts: smtp.MailOptions{RequireTLS: m.RequireTLS}, TLSRequireOverride: m.Override, Quarantine: m.Quarantine && !m.QuarLate}
		rcpt := "user@example.invalid"
		if m.Second {
			rcpt = "user@second.invalid"
		}
		if m.Implicit {
			rcpt = "user@implicit.invalid"
		}
		d, err := tgt.Start(ctx, meta, "sender@example.com")
		if err != nil {
			results[mi] = result{err, "start"}
			continue
		}
		if err := d.AddRcpt(ctx, rcpt, smtp.RcptOptions{}); err != nil {
			results[mi] = result{err, "rcpt"}
			if !m.Both {
				d.Abort(ctx)
				continue
			}
		}
		if m.Both {
			if err := d.AddRcpt(ctx, "user2@second.invalid", smtp.RcptOptions{}); err != nil && results[mi].err != nil {
				d.Abort(ctx)
				continue
			}
			results[mi] = result{}
		}
		meta.Quarantine = m.Quarantine
		body := buffer.MemoryBuffer{Slice: []byte(fmt.Sprintf("MSG-%d\r\n", mi))}
		if pd, ok := d.(module.PartialDelivery); ok && m.NonAtomic {
			col := &c05Statuses{}
			pd.BodyNonAtomic(ctx, col, hdr, body)
			if col.firstErr != nil {
				results[mi] = result{col.firstErr, "body"}
			}
			d.Commit(ctx)
			continue
		}
		if err := d.Body(ctx, hdr, body); err != nil {
			results[mi] = result{err, "body"}
			d.Abort(ctx)
			continue
		}
		d.Commit(ctx)
	}
	// what did the servers see?
	delivered := 0
	for si, s := range servers {
		seen := s.Messages()[before[si]:]
		if stripped[si] != nil {
			seen = append(append([]verifx.HopMsg(nil), seen...), stripped[si].Messages()[beforeStripped[si]:]...)
		}
		for _, got := range seen {
			mi := -1
			for k := range sc.Msgs {
				if bytes.Contains(got.Data, []byte(fmt.Sprintf("MSG-%d\r\n", k))) {
					mi = k
				}
			}
			if mi < 0 {
				continue
			}
			delivered++
			if sc.Msgs[mi].Second && !sc.Msgs[mi].Both && si == 0 {
				vs = append(vs, ev.Vf("policy:wrong-mx", "message %d for second.invalid was handed to %s which is not an MX of that domain", mi, c05MXNames[si]))
				continue
			}
			if ok, why := c05Allowed(sc, sc.Msgs[mi], si, got.TLS); !ok {
				shape := "other"
				if mi > 0 {
					shape = "later-message-of-history"
				}
				vs = append(vs, ev.Vf("policy:violated:"+strings.Fields(strings.ReplaceAll(why, ":", ""))[0]+":"+shape,
					"message %d (requiretls=%v tls-required-no=%v quarantine=%v) was transmitted to %s (%s, TLSA %s, AD %v) over a connection with TLS=%v, but: %s; configuration: mtasts=%q(match %s) dane=%v dnssec=%v(AD on MX lookup %v) local_policy=%q/%q override allowed=%v relaxed=%v",
					mi, sc.Msgs[mi].RequireTLS, sc.Msgs[mi].Override, sc.Msgs[mi].Quarantine, c05MXNames[si], sc.MXs[si].Kind, sc.MXs[si].TLSA, sc.MXs[si].AD, got.TLS, why,
					sc.MTASTS, sc.MTASTSMatch, sc.DANE, sc.DNSSEC, sc.ADMX, sc.MinTLS, sc.MinMX, sc.AllowOverride, sc.Relaxed))
			}
		}
	}
	// the other direction, for the simple cases: a single candidate server that the policies allow, reached over
	// the connection it naturally offers, gets the message (absent or unusable TLSA records, a missing MX record
	// etc. are no reason for a refusal)
	for mi, m := range sc.Msgs {
		if results[mi].err == nil || m.Both || m.RequireTLS || m.Quarantine {
			continue
		}
		idx := -1
		switch {
		case m.Implicit:
			idx = 0
		case m.Second:
			idx = 1
		case len(sc.MXs) == 1:
			idx = 0
		}
		if idx < 0 {
			continue
		}
		mx := sc.MXs[idx]
		if m.Implicit {
			mx = sc.implicitMX
		}
		natural, known := false, true
		if mx.StripLater {
			continue // what a client may accept when STARTTLS disappears between two connections is not asserted here
		}
		switch mx.Kind {
		case "plain":
			natural = false
		case "valid", "wrongname", "selfsigned":
			natural = true
		default:
			known = false // a failing handshake: what the client ends up with is its own business
		}
		if !known {
			continue
		}
		if ok, _ := c05Allowed(sc, m, idx, natural); ok {
			shape := "explicit-mx"
			if m.Implicit {
				shape = "implicit-mx"
			}
			vs = append(vs, ev.Vf("policy:refused-although-allowed:"+shape, "message %d (tls-required-no=%v) for its only candidate server (%s, TLSA %s, AD %v, cname %q) was refused at %s although every policy in force is satisfied over a %s connection: %v; configuration: mtasts=%q(match %s) dane=%v dnssec=%v(AD on MX lookup %v) local_policy=%q/%q override allowed=%v",
				mi, m.Override, mx.Kind, mx.TLSA, mx.AD, mx.CNAME, results[mi].stage, map[bool]string{true: "TLS", false: "plaintext"}[natural], results[mi].err,
				sc.MTASTS, sc.MTASTSMatch, sc.DANE, sc.DNSSEC, sc.ADMX, sc.MinTLS, sc.MinMX, sc.AllowOverride))
		}
	}
	// discovery failure must defer, not bounce
	for mi, m := range sc.Msgs {
		if results[mi].err == nil || (m.Override && sc.AllowOverride) || m.Quarantine || !sc.DANE {
			continue
		}
		allServfail := true
		for i, mx := range sc.MXs {
			if m.Second && i == 0 {
				continue
			}
			if !(mx.AD && mx.TLSA == "servfail") || mx.StripLater {
				allServfail = false // (a connection that lost STARTTLS is an obstacle of its own)
			}
		}
		// only when discovery failure is the sole obstacle: with the records absent some MX would have qualified
		alt := sc
		alt.MXs = append([]c05MX(nil), sc.MXs...)
		soleObstacle := false
		for i := range alt.MXs {
			alt.MXs[i].TLSA = "none"
		}
		for i, mx := range alt.MXs {
			if m.Second && i == 0 {
				continue
			}
			usesTLS := mx.Kind == "valid" || mx.Kind == "selfsigned" || mx.Kind == "wrongname"
			if ok, _ := c05Allowed(alt, m, i, usesTLS); ok {
				soleObstacle = true
			}
		}
		if allServfail && soleObstacle && !exterrors.IsTemporary(results[mi].err) && !m.RequireTLS {
			vs = append(vs, ev.Vf("policy:discovery-failure-not-temporary", "message %d: TLSA discovery failed for every MX but the delivery error is permanent: %v", mi, results[mi].err))
		}
	}
	c05LastDelivered = delivered
	return vs
}

var c05LastDelivered int

type c05Statuses struct {
	mu       sync.Mutex
	firstErr error
}

func (c *c05Statuses) SetStatus(_ string, err error) {
	c.mu.Lock()
	if err != nil && c.firstErr == nil {
		c.firstErr = err
	}
	c.mu.Unlock()
}

func c05Info(sc c05Scenario) ev.Info {
	anyPolicy := sc.MTASTS == "enforce" || sc.DANE || sc.MinTLS == "encrypted" || sc.MinTLS == "authenticated"
	unsat := false
	differ := false
	for _, m := range sc.Msgs {
		if m.RequireTLS {
			anyPolicy = true
		}
		if m != sc.Msgs[0] {
			differ = true
		}
		for i := range sc.MXs {
			for _, tlsUsed := range []bool{false, true} {
				if ok, _ := c05Allowed(sc, m, i, tlsUsed); !ok {
					unsat = true
				}
			}
		}
	}
	return ev.Info{Nontrivial: anyPolicy && (unsat || differ), Classes: []string{fmt.Sprintf("delivered=%d/%d", c05LastDelivered, len(sc.Msgs)), fmt.Sprintf("msgs=%d", len(sc.Msgs))}}
}

func TestVerifC05(t *testing.T) {
	r := ev.Get("C05")
	r.Rule("Scenario = policy set (mtasts none/testing/enforce with the policy listing all / only mx1 / only mx2 / another host; dane; dnssec; local_policy with min_tls_level none/encrypted/authenticated " +
		"and min_mx_level none/mtasts/dnssec; requiretls_override and relaxed_requiretls on/off) x 1-2 MX each with facts (plain / STARTTLS with a CA-signed, self-signed or wrong-name certificate / STARTTLS " +
		"advertised but failing; TLSA none / DANE-EE matching / mismatching / unusable / SERVFAIL; AD on or off; AD on the MX lookup) x a history of 1-3 messages through one Target (shared connection cache) " +
		"with flags REQUIRETLS, TLS-Required: No, quarantine, first or second recipient domain. Real policy modules, real Target, scripted MX servers on loopback, mock DNS server behind the real ExtResolver. " +
		"Oracle: for every message payload a server received, the facts of that server and connection (known by construction) satisfy every policy in force for that message; TLSA discovery failure " +
		"defers. Non-trivial = some policy is in force and (some MX/TLS state does not satisfy it, or the messages of the history differ in their requirements). Distinct = distinct scenario.")
	r.Assume("liveness (delivered if some MX qualifies) is only counted, not asserted")
	ev.Run(t, r, ev.Spec[c05Scenario]{Name: "histories", Journal: true, N: r.N, Gen: c05Gen, Run: c05Run, Info: c05Info})
}
