package milter

// C16, check.milter: the reply maddy builds for what a milter answers. The
// milter may supply the basic code (reply-code action); everything else of the
// reply is maddy's.

import (
	"fmt"
	"testing"

	"github.com/emersion/go-milter"
	"github.com/foxcpp/maddy/framework/exterrors"
	"github.com/foxcpp/maddy/framework/log"
	"pgregory.net/rapid"
	"verifkit/ev"
)

type c16mCase struct {
	Action string `json:"action"` // reject tempfail discard replycode
	Code   int    `json:"code,omitempty"`
}

func c16mRun(sc c16mCase) (vs []ev.V) {
	s := &state{c: &Check{milterUrl: "tcp://127.0.0.1:1"}, log: log.Logger{Out: log.NopOutput{}}}
	act := &milter.Action{}
	switch sc.Action {
	case "reject":
		act.Code = milter.ActReject
	case "tempfail":
		act.Code = milter.ActTempFail
	case "discard":
		act.Code = milter.ActDiscard
	default:
		act.Code = milter.ActReplyCode
		act.SMTPCode = sc.Code
		act.SMTPText = fmt.Sprintf("%d try again", sc.Code)
	}
	res := s.handleAction(act)
	se, ok := res.Reason.(*exterrors.SMTPError)
	if !res.Reject || !ok {
		return []ev.V{ev.Vf("milter:no-rejection", "milter action %+v gave %+v", sc, res)}
	}
	desc := fmt.Sprintf("milter action %s %d is answered %d %d.%d.%d", sc.Action, sc.Code, se.Code, se.EnhancedCode[0], se.EnhancedCode[1], se.EnhancedCode[2])
	if se.Code/100 != se.EnhancedCode[0] {
		vs = append(vs, ev.Vf("milter:enhanced-class-differs", "%s: the classes of the basic and the enhanced code differ", desc))
	}
	if temp := exterrors.IsTemporary(res.Reason); temp != (se.Code/100 == 4) {
		vs = append(vs, ev.Vf("milter:class-vs-treatment", "%s, but IsTemporary says %v", desc, temp))
	}
	return vs
}

func TestVerifC16Milter(t *testing.T) {
	r := ev.Get("C16")
	ev.Run(t, r, ev.Spec[c16mCase]{Name: "milter-replies", N: r.Scale(1, 100, 200), Gen: func(t *rapid.T) c16mCase {
		c := c16mCase{Action: rapid.SampledFrom([]string{"reject", "tempfail", "discard", "replycode", "replycode", "replycode"}).Draw(t, "action")}
		if c.Action == "replycode" {
			c.Code = rapid.SampledFrom([]int{421, 450, 451, 452, 454, 500, 550, 551, 552, 554, 571}).Draw(t, "code")
		}
		return c
	}, Run: c16mRun, Info: func(c c16mCase) ev.Info {
		return ev.Info{Nontrivial: c.Action == "replycode", Classes: []string{"action=" + c.Action}}
	}})
}
