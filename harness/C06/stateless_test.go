package check

// C06, check actions of the built-in "stateless" checks (require_tls,
// require_mx_record, require_matching_rdns, ... are all made with
// RegisterStatelessCheck): a failing check is enforced with the action its
// configuration gives - the explicit fail_action, or the check's built-in
// default when the directive is absent - and an `ignore` action changes nothing.

import (
	"context"
	"fmt"
	"testing"

	"github.com/foxcpp/maddy/framework/config"
	modconfig "github.com/foxcpp/maddy/framework/config/module"
	"github.com/foxcpp/maddy/framework/exterrors"
	"github.com/foxcpp/maddy/framework/log"
	"github.com/foxcpp/maddy/framework/module"
	"pgregory.net/rapid"
	"verifkit/ev"
)

type c06sCase struct {
	Default  string `json:"built_in_default"` // reject | quarantine | ignore
	Explicit string `json:"fail_action"`      // "" (directive absent) | reject | quarantine | ignore
	Stage    string `json:"stage"`            // conn sender rcpt
	Fails    bool   `json:"check_fails"`
}

var c06sFail bool

func c06sResult() module.CheckResult {
	if !c06sFail {
		return module.CheckResult{}
	}
	return module.CheckResult{Reason: &exterrors.SMTPError{Code: 550, EnhancedCode: exterrors.EnhancedCode{5, 7, 1}, Message: "scripted failure"}}
}

func init() {
	for _, d := range []string{"reject", "quarantine", "ignore"} {
		RegisterStatelessCheck("check.verif_stateless_"+d, modconfig.FailAction{Reject: d == "reject", Quarantine: d == "quarantine"},
			func(StatelessCheckContext) module.CheckResult { return c06sResult() },
			func(StatelessCheckContext, string) module.CheckResult { return c06sResult() },
			func(StatelessCheckContext, string) module.CheckResult { return c06sResult() },
			nil)
	}
}

func c06sRun(c c06sCase) []ev.V {
	factory := module.Get("check.verif_stateless_" + c.Default)
	if factory == nil {
		return []ev.V{ev.Vf("harness", "check not registered")}
	}
	mod, err := factory("check.verif_stateless_"+c.Default, "verif", nil, nil)
	if err != nil {
		return []ev.V{ev.Vf("harness", "%v", err)}
	}
	var nodes []config.Node
	if c.Explicit != "" {
		nodes = append(nodes, config.Node{Name: "fail_action", Args: []string{c.Explicit}})
	}
	if err := mod.Init(config.NewMap(nil, config.Node{Children: nodes})); err != nil {
		return []ev.V{ev.Vf("harness", "Init: %v", err)}
	}
	mod.(*statelessCheck).logger = log.Logger{Out: log.NopOutput{}}
	c06sFail = c.Fails
	st, err := mod.(module.Check).CheckStateForMsg(context.Background(), &module.MsgMetadata{ID: "c06s", Conn: &module.ConnState{}})
	if err != nil {
		return []ev.V{ev.Vf("harness", "%v", err)}
	}
	defer st.Close()
	var res module.CheckResult
	switch c.Stage {
	case "conn":
		res = st.CheckConnection(context.Background())
	case "sender":
		res = st.CheckSender(context.Background(), "sender@example.org")
	default:
		res = st.CheckRcpt(context.Background(), "rcpt@example.org")
	}
	want := c.Explicit
	if want == "" {
		want = c.Default
	}
	if !c.Fails {
		want = "ignore"
	}
	got := "ignore"
	if res.Reject {
		got = "reject"
	} else if res.Quarantine {
		got = "quarantine"
	}
	if got != want {
		shape := "explicit"
		if c.Explicit == "" {
			shape = "built-in-default"
		}
		return []ev.V{ev.Vf(fmt.Sprintf("stateless-action:%s-instead-of-%s:%s", got, want, shape),
			"check with built-in default %q, fail_action %q, failing=%v at the %s stage: the verdict handed to the pipeline is %s, expected %s", c.Default, c.Explicit, c.Fails, c.Stage, got, want)}
	}
	return nil
}

func TestVerifC06Stateless(t *testing.T) {
	r := ev.Get("C06")
	ev.Run(t, r, ev.Spec[c06sCase]{Name: "stateless-actions", N: r.Scale(1, 100, 100), Gen: func(t *rapid.T) c06sCase {
		return c06sCase{Default: rapid.SampledFrom([]string{"reject", "quarantine", "ignore"}).Draw(t, "default"),
			Explicit: rapid.SampledFrom([]string{"", "", "reject", "quarantine", "ignore"}).Draw(t, "explicit"),
			Stage:    rapid.SampledFrom([]string{"conn", "sender", "rcpt"}).Draw(t, "stage"), Fails: rapid.IntRange(0, 3).Draw(t, "fails") != 0}
	}, Run: c06sRun, Info: func(c c06sCase) ev.Info { return ev.Info{Nontrivial: c.Fails && c.Explicit == ""} }})
}
