package queue

// C01 harness (injected into internal/target/queue by overlay together with
// harness/shared/queue_common_test.go).

import (
	"fmt"
	"regexp"
	"sort"
	"strings"
	"testing"

	"github.com/foxcpp/maddy/internal/verifx"
	"golang.org/x/net/idna"
	"pgregory.net/rapid"
	"verifkit/ev"
)

var c01Rcpts = []string{"a@example.org", "b@example.org", "c@other.net", "user@тест.example", "почта@тест.example", "d@other.net"}

// fault representations per class
func c01Fault(t *rapid.T, label string) *verifx.ErrNode {
	switch rapid.SampledFrom([]string{"T", "T", "P", "P", "U"}).Draw(t, label+"_class") {
	case "T":
		switch rapid.IntRange(0, 4).Draw(t, label+"_repr") {
		case 0:
			return &verifx.ErrNode{Kind: "smtp", Code: 451, Ench: [3]int{4, 0, 0}, Msg: "Try again later"}
		case 1:
			return &verifx.ErrNode{Kind: "temp", Temp: true, Child: &verifx.ErrNode{Kind: "plain", Marker: "backend busy"}}
		case 2:
			return &verifx.ErrNode{Kind: "net-timeout"}
		case 3:
			return &verifx.ErrNode{Kind: "dns-temp"}
		default:
			return &verifx.ErrNode{Kind: "smtp", Code: 421, Ench: [3]int{4, 4, 2}, Msg: "Shutting down", Child: &verifx.ErrNode{Kind: "eof"}}
		}
	case "P":
		switch rapid.IntRange(0, 3).Draw(t, label+"_repr") {
		case 0:
			return &verifx.ErrNode{Kind: "smtp", Code: 550, Ench: [3]int{5, 1, 1}, Msg: "No such user here"}
		case 1:
			return &verifx.ErrNode{Kind: "temp", Temp: false, Child: &verifx.ErrNode{Kind: "plain", Marker: "rejected by policy"}}
		case 2:
			return &verifx.ErrNode{Kind: "dns-notfound"}
		default:
			return &verifx.ErrNode{Kind: "fmtw", Marker: "delivery", Child: &verifx.ErrNode{Kind: "smtp", Code: 552, Ench: [3]int{5, 3, 4}, Msg: "Message too big"}}
		}
	default:
		if rapid.Bool().Draw(t, label+"_repr") {
			return &verifx.ErrNode{Kind: "plain", Marker: "something broke"}
		}
		return &verifx.ErrNode{Kind: "fields", Marker: "ctx", Child: &verifx.ErrNode{Kind: "eof"}}
	}
}

func c01Maybe(t *rapid.T, p int, label string) *verifx.ErrNode {
	if rapid.IntRange(0, p).Draw(t, label) != 0 {
		return nil
	}
	return c01Fault(t, label)
}

func c01GenPlan(t *rapid.T, rcpts []string, partial bool) qPlan {
	p := qPlan{Start: c01Maybe(t, 6, "start"), Commit: c01Maybe(t, 7, "commit")}
	for _, r := range rcpts {
		if f := c01Maybe(t, 3, "rcpt"); f != nil {
			if p.Rcpt == nil {
				p.Rcpt = map[string]*verifx.ErrNode{}
			}
			p.Rcpt[r] = f
		}
		if partial {
			if f := c01Maybe(t, 3, "status"); f != nil {
				if p.Status == nil {
					p.Status = map[string]*verifx.ErrNode{}
				}
				p.Status[r] = f
			}
		}
	}
	if !partial {
		p.Body = c01Maybe(t, 4, "body")
	}
	return p
}

func c01Gen(t *rapid.T) qScenario {
	sc := qScenario{
		MaxTries: rapid.IntRange(1, 4).Draw(t, "max_tries"),
		Partial:  rapid.Bool().Draw(t, "partial"),
		Bounce:   rapid.SampledFrom([]string{"ok", "ok", "ok", "none"}).Draw(t, "bounce"),
	}
	m := qMsg{ID: "m0", From: "sender@example.com", OriginalFrom: "sender@example.com",
		Header: "From: <sender@example.com>\r\nSubject: test\r\n", Body: "hello\r\n"}
	if rapid.IntRange(0, 5).Draw(t, "nullsender") == 0 {
		m.From, m.OriginalFrom = "", ""
	}
	idx := rapid.SliceOfNDistinct(rapid.IntRange(0, len(c01Rcpts)-1), 1, 4, rapid.ID[int]).Draw(t, "rcpts")
	for _, i := range idx {
		m.Rcpts = append(m.Rcpts, c01Rcpts[i])
		if strings.HasPrefix(c01Rcpts[i], "почта") {
			m.UTF8 = true
		}
	}
	if rapid.IntRange(0, 3).Draw(t, "utf8") == 0 {
		m.UTF8 = true
	}
	for a := 0; a < sc.MaxTries; a++ {
		m.Plans = append(m.Plans, c01GenPlan(t, m.Rcpts, sc.Partial))
	}
	sc.Msgs = []qMsg{m}
	if rapid.IntRange(0, 4).Draw(t, "restart") == 0 {
		sc.RestartAfter = []int{rapid.IntRange(1, sc.MaxTries).Draw(t, "restart_after")}
	}
	return sc
}

// ---- reference model (package comment of queue.go) -----------------------------------------------------------

type c01Fate struct {
	Delivered   bool
	Failed      bool
	FailAttempt int // attempt in which it failed terminally
	LastAttempt int // last attempt it took part in
	LastErr     *verifx.ErrNode
}

func c01Retryable(n *verifx.ErrNode) bool {
	temp, spec := n.Temporary()
	return !spec || temp // temporary or unclassified
}

func c01Model(sc qScenario, m qMsg) map[string]*c01Fate {
	fate := map[string]*c01Fate{}
	tries := map[string]int{}
	pending := append([]string(nil), m.Rcpts...)
	for _, r := range m.Rcpts {
		fate[r] = &c01Fate{}
	}
	for attempt := 1; len(pending) > 0; attempt++ {
		var plan qPlan
		if attempt-1 < len(m.Plans) {
			plan = m.Plans[attempt-1]
		}
		errs := map[string]*verifx.ErrNode{}
		if plan.Start != nil {
			for _, r := range pending {
				errs[r] = plan.Start
			}
		} else {
			var accepted []string
			for _, r := range pending {
				if f := plan.Rcpt[r]; f != nil {
					errs[r] = f
				} else {
					accepted = append(accepted, r)
				}
			}
			if len(accepted) > 0 {
				if sc.Partial {
					for _, r := range accepted {
						if f := plan.Status[r]; f != nil {
							errs[r] = f
						}
					}
				} else if plan.Body != nil {
					for _, r := range accepted {
						errs[r] = plan.Body
					}
				}
				allFailed := true
				for _, r := range accepted {
					if errs[r] == nil {
						allFailed = false
					}
				}
				if !allFailed && plan.Commit != nil {
					// a recipient that already has a permanent failure of its own (per-recipient status) keeps it: it is
					// "re-attempted only after a temporary or unclassified failure, never after ... permanent failure"
					for _, r := range accepted {
						if errs[r] == nil || c01Retryable(errs[r]) {
							errs[r] = plan.Commit
						}
					}
				}
			}
		}
		var next []string
		for _, r := range pending {
			f := fate[r]
			f.LastAttempt = attempt
			e := errs[r]
			if e == nil {
				f.Delivered = true
				continue
			}
			f.LastErr = e
			if !c01Retryable(e) || tries[r]+1 >= sc.MaxTries {
				f.Failed = true
				f.FailAttempt = attempt
				continue
			}
			tries[r]++
			next = append(next, r)
		}
		pending = next
		if attempt > 50 {
			panic("c01 model does not terminate")
		}
	}
	return fate
}

// ---- oracle over the history --------------------------------------------------------------------------------------------

var c01FinalRcptRe = regexp.MustCompile(`(?im)^Final-Recipient:\s*[^;]+;\s*(.+?)\s*$`)

func c01ReportedRcpts(raw []byte) []string {
	var out []string
	// unfold first
	text := strings.ReplaceAll(strings.ReplaceAll(string(raw), "\r\n ", " "), "\r\n\t", " ")
	for _, m := range c01FinalRcptRe.FindAllStringSubmatch(text, -1) {
		out = append(out, strings.TrimSpace(m[1]))
	}
	return out
}

// same address, allowing the A-label form of the domain (non-EAI reports)
func c01SameAddr(reported, addr string) bool {
	if strings.EqualFold(reported, addr) {
		return true
	}
	at := strings.LastIndexByte(addr, '@')
	if at < 0 {
		return false
	}
	ad, err := idna.ToASCII(addr[at+1:])
	return err == nil && strings.EqualFold(reported, addr[:at+1]+ad)
}

func c01Oracle(sc qScenario, h *qHistory) (vs []ev.V) {
	if h.Hang {
		vs = append(vs, ev.Vf("queue:not-quiescent", "spool still holds a message after %v of virtual time; files %v; events %v", qHorizon, h.Files, c01Events(h)))
	}
	for _, l := range h.Logs {
		if strings.Contains(l, "panic") {
			vs = append(vs, ev.Vf("queue:panic-contained", "queue logged a panic: %.400s", l))
			break
		}
	}
	for _, f := range h.Files {
		if strings.Contains(f, "meta_broken") {
			vs = append(vs, ev.Vf("queue:meta-broken", "spool contains %s", f))
		}
	}
	if !h.Hang && len(h.Files) != 0 {
		vs = append(vs, ev.Vf("queue:spool-not-empty", "spool is not empty at quiescence: %v", h.Files))
	}
	for _, e := range h.Events {
		if e.Op == "accept-error" {
			vs = append(vs, ev.Vf("queue:accept-error", "queue refused the message: %s", e.Err))
		}
	}
	for _, m := range sc.Msgs {
		fate := c01Model(sc, m)
		for _, r := range m.Rcpts {
			f := fate[r]
			// commits
			commits, involved, lastSeen := 0, 0, 0
			for _, a := range h.Attempts {
				if a.Msg != m.ID {
					continue
				}
				in := false
				for _, e := range h.Events {
					if e.Msg == m.ID && e.Attempt == a.N && e.Rcpt == r && (e.Op == "rcpt" || e.Op == "status") {
						in = true
					}
				}
				startFailed := false
				for _, e := range h.Events {
					if e.Msg == m.ID && e.Attempt == a.N && e.Op == "start" && e.Err != "" {
						startFailed = true
					}
				}
				if in {
					involved++
					lastSeen = a.N
				}
				if startFailed {
					continue
				}
				acc := false
				for _, x := range a.Accepted {
					if x == r {
						acc = true
					}
				}
				if !acc || !a.Committed {
					continue
				}
				statusFail := false
				for _, e := range h.Events {
					if e.Msg == m.ID && e.Attempt == a.N && e.Op == "status" && e.Rcpt == r && e.Err != "" {
						statusFail = true
					}
				}
				if !statusFail {
					commits++
				}
			}
			wantCommits := 0
			if f.Delivered {
				wantCommits = 1
			}
			if commits != wantCommits {
				vs = append(vs, ev.Vf(fmt.Sprintf("outcome:commits=%d-want-%d", commits, wantCommits), "recipient %s was committed downstream %d times, the attribution rules give %d; %s", r, commits, wantCommits, c01Events(h)))
			}
			// reports
			reports := 0
			for _, rep := range h.Reports {
				for _, x := range c01ReportedRcpts(rep.Raw) {
					if c01SameAddr(x, r) {
						reports++
					}
				}
			}
			wantReports := 0
			if f.Failed && m.OriginalFrom != "" && sc.Bounce != "none" {
				wantReports = 1
			}
			if reports != wantReports {
				vs = append(vs, ev.Vf(fmt.Sprintf("outcome:reports=%d-want-%d", reports, wantReports), "recipient %s is named by %d failure reports, want %d (failed=%v, sender %q, bounce %s); %s", r, reports, wantReports, f.Failed, m.OriginalFrom, sc.Bounce, c01Events(h)))
			}
			if f.Delivered == f.Failed {
				vs = append(vs, ev.Vf("harness:model", "model gives recipient %s delivered=%v failed=%v", r, f.Delivered, f.Failed))
			}
			if involved > sc.MaxTries {
				vs = append(vs, ev.Vf("retry:more-than-max-tries", "recipient %s took part in %d attempts, max_tries is %d; %s", r, involved, sc.MaxTries, c01Events(h)))
			}
			if lastSeen > f.LastAttempt {
				vs = append(vs, ev.Vf("retry:after-terminal-outcome", "recipient %s was attempted again in attempt %d after its terminal outcome in attempt %d; %s", r, lastSeen, f.LastAttempt, c01Events(h)))
			}
		}
	}
	return vs
}

func c01Events(h *qHistory) string {
	var parts []string
	for _, e := range h.Events {
		s := fmt.Sprintf("[%v #%d %s", e.At.Round(1e9), e.Attempt, e.Op)
		if e.Rcpt != "" {
			s += " " + e.Rcpt
		}
		if e.Err != "" {
			s += " ERR " + e.Err
		}
		parts = append(parts, s+"]")
	}
	return "events: " + strings.Join(parts, " ") + fmt.Sprintf(" reports=%d", len(h.Reports))
}

func c01Run(sc qScenario) []ev.V {
	h := qRun(sc, nil)
	c01LastAttempts = len(h.Attempts)
	return c01Oracle(sc, h)
}

var c01LastAttempts int

func c01Info(sc qScenario) ev.Info {
	m := sc.Msgs[0]
	fate := c01Model(sc, m)
	faults := 0
	for _, p := range m.Plans {
		if p.Start != nil || p.Body != nil || p.Commit != nil {
			faults++
		}
		faults += len(p.Rcpt) + len(p.Status)
	}
	outcomes := map[string]bool{}
	maxAttempt := 0
	for _, f := range fate {
		outcomes[fmt.Sprintf("%v", f.Delivered)] = true
		if f.LastAttempt > maxAttempt {
			maxAttempt = f.LastAttempt
		}
	}
	var cl []string
	cl = append(cl, fmt.Sprintf("attempts=%d", maxAttempt))
	if len(sc.RestartAfter) > 0 {
		cl = append(cl, "restart")
	}
	var ks []string
	for k := range outcomes {
		ks = append(ks, k)
	}
	sort.Strings(ks)
	cl = append(cl, "delivered="+strings.Join(ks, "+"))
	return ev.Info{Nontrivial: faults >= 1 && (len(outcomes) >= 2 && len(m.Rcpts) >= 2 || maxAttempt >= 2), Classes: cl}
}

func TestVerifC01(t *testing.T) {
	qT = t
	r := ev.Get("C01")
	r.Rule("Scenario = one message with 1-4 distinct recipients (ASCII, IDN U-label domain, non-ASCII local part), normal or null sender, bounce pipeline present or absent, max_tries 1-4, " +
		"downstream = scripted atomic or per-recipient (BodyNonAtomic) target, optional queue restart after k attempts; per attempt a fault plan over Start / each AddRcpt / Body or each per-recipient " +
		"status / Commit with faults drawn from several representations of temporary (4xx SMTPError, WithTemporary(true), network time-out, DNS temporary), permanent (5xx SMTPError, WithTemporary(false), " +
		"DNS not-found, wrapped 5xx) and unclassified (bare error, fields wrapper) errors. Run against the real Queue under testing/synctest with production retry timing. Oracle: reference model of the " +
		"documented attribution rules computed from the plan alone, compared with the recorded history (commits per recipient, failure reports naming the recipient, attempts <= max_tries, none after the " +
		"terminal outcome, spool empty, no contained panic, no .meta_broken). Non-trivial = >=1 injected fault and (>=2 recipients with different outcomes or >=2 attempts). Distinct = distinct scenario.")
	r.Assume("built with go1.26.8 (testing/synctest) instead of the repository's go1.23.5")
	r.Assume("a failing downstream Commit is modelled as 'not committed' (the scripted target does exactly that)")
	ev.Run(t, r, ev.Spec[qScenario]{Name: "scripted-targets", N: r.N, Gen: c01Gen, Run: c01Run, Info: c01Info})
}
