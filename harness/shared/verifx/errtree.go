// Package verifx holds harness code shared by several maddy packages. It only
// exists in the build overlay (internal/verifx).
package verifx

import (
	"context"
	"errors"
	"fmt"
	"io"
	"net"
	"os"
	"strings"

	"github.com/emersion/go-smtp"
	"github.com/foxcpp/maddy/framework/exterrors"
	"pgregory.net/rapid"
)

// ErrNode is a generated error value in data form (JSON-serialisable); Build
// constructs the real error from maddy's wrapping primitives.
type ErrNode struct {
	// leaf kinds: plain eof dns-temp dns-timeout dns-notfound net-timeout deadline gosmtp
	// (gosmtp: a reply of a downstream server as go-smtp's client returns it, *smtp.SMTPError, possibly without enhanced code)
	// wrapper kinds: smtp smtp-helper temp fields fmtw
	Kind   string   `json:"kind"`
	Code   int      `json:"code,omitempty"`   // smtp: basic code; smtp-helper: unused
	Ench   [3]int   `json:"ench,omitempty"`   // smtp: enhanced code; smtp-helper: x.y.z with class filled by the helper
	TCode  int      `json:"tcode,omitempty"`  // smtp-helper: temporary code
	PCode  int      `json:"pcode,omitempty"`  // smtp-helper: permanent code
	Msg    string   `json:"msg,omitempty"`    // smtp message
	Reason string   `json:"reason,omitempty"` // smtp Reason
	Temp   bool     `json:"temp,omitempty"`   // temp: the flag
	Marker string   `json:"marker,omitempty"` // internal detail text carried by plain / fmtw / fields
	Child  *ErrNode `json:"child,omitempty"`
}

var smtpCodes = []struct {
	Code int
	Ench [3]int
}{
	{451, [3]int{4, 0, 0}}, {450, [3]int{4, 7, 1}}, {421, [3]int{4, 4, 2}}, {452, [3]int{4, 2, 2}}, {454, [3]int{4, 7, 0}},
	{550, [3]int{5, 7, 1}}, {554, [3]int{5, 0, 0}}, {552, [3]int{5, 3, 4}}, {501, [3]int{5, 1, 8}}, {535, [3]int{5, 7, 8}}, {523, [3]int{5, 7, 10}},
	// a positive reply the SMTP client did not expect at that point ("252 cannot VRFY user" to the end of DATA) is a
	// failure for the caller, and one that nothing marks temporary
	{252, [3]int{2, 5, 0}},
	// replies whose enhanced code is not one of a failure, or not a status code at all (the next hop chooses both)
	{550, [3]int{2, 1, 5}}, {554, [3]int{5, -1, 0}},
}

var messages = []string{
	"Try again later", "Policy rejection", "No such user here", "Sender address rejected: blocked",
	"Ошибка доставки", "café closed", "edge\u0080byte", "emoji \U0001F600 reply", "line one\nline two", "x",
	// go-smtp's client takes reply lines of up to 2000 octets
	strings.Repeat("a very long explanation ", 60),
}

var markers = []string{
	"dial tcp 10.1.2.3:5432: connect: connection refused", "open /var/lib/maddy/secret.key: permission denied",
	"sql: no rows in result set", "table users_db lookup failed", "ldap bind cn=admin,dc=corp failed", "секрет-внутри",
}

// downstream reply texts (never the text of a maddy annotation)
var downstreamTexts = []string{"mailbox unknown at backend-17.internal", "Authentication credentials invalid", "greylisted by rspamd-3.corp, come back later", "отказано сервером db-2"}

// GenErr draws an error tree of at most the given depth. A downstream reply (gosmtp) only occurs below a wrapper.
func GenErr(t *rapid.T, depth int) *ErrNode { return genErr(t, depth, false) }

// GenErrDownstream: as GenErr, and the whole error may be a bare downstream reply (what a target returns
// when it passes on the error of its SMTP client).
func GenErrDownstream(t *rapid.T, depth int) *ErrNode { return genErr(t, depth, true) }

func genErr(t *rapid.T, depth int, gosmtpHere bool) *ErrNode {
	leaf := depth <= 1 || rapid.IntRange(0, 3).Draw(t, "leaf") == 0
	if leaf {
		kinds := []string{"plain", "plain", "eof", "dns-temp", "dns-timeout", "dns-notfound", "net-timeout", "deadline", "smtp", "smtp"}
		if gosmtpHere {
			kinds = append(kinds, "gosmtp", "gosmtp")
		}
		k := rapid.SampledFrom(kinds).Draw(t, "leafkind")
		n := &ErrNode{Kind: k}
		switch k {
		case "plain":
			n.Marker = rapid.SampledFrom(markers).Draw(t, "marker")
		case "smtp":
			fillSMTP(t, n)
		case "gosmtp":
			c := rapid.SampledFrom(smtpCodes).Draw(t, "code")
			n.Code, n.Ench = c.Code, c.Ench
			if rapid.IntRange(0, 2).Draw(t, "no_enhanced_code") == 0 {
				n.Ench = [3]int{} // the reply had none: go-smtp's EnhancedCodeNotSet
			}
			n.Msg = rapid.SampledFrom(downstreamTexts).Draw(t, "text")
		}
		return n
	}
	k := rapid.SampledFrom([]string{"smtp", "smtp", "smtp-helper", "smtp-helper", "temp", "temp", "fields", "fmtw"}).Draw(t, "wrapkind")
	n := &ErrNode{Kind: k, Child: genErr(t, depth-1, true)}
	switch k {
	case "smtp":
		fillSMTP(t, n)
	case "smtp-helper":
		n.TCode = rapid.SampledFrom([]int{451, 450, 421}).Draw(t, "tcode")
		n.PCode = rapid.SampledFrom([]int{554, 550, 552}).Draw(t, "pcode")
		n.Ench = [3]int{0, rapid.IntRange(0, 7).Draw(t, "ey"), rapid.IntRange(0, 20).Draw(t, "ez")}
		n.Msg = rapid.SampledFrom(messages).Draw(t, "msg")
	case "temp":
		n.Temp = rapid.Bool().Draw(t, "flag")
	case "fields", "fmtw":
		n.Marker = rapid.SampledFrom(markers).Draw(t, "marker")
	}
	return n
}

func fillSMTP(t *rapid.T, n *ErrNode) {
	c := rapid.SampledFrom(smtpCodes).Draw(t, "code")
	n.Code, n.Ench = c.Code, c.Ench
	n.Msg = rapid.SampledFrom(messages).Draw(t, "msg")
	if rapid.IntRange(0, 4).Draw(t, "reason") == 0 {
		n.Reason = rapid.SampledFrom(markers).Draw(t, "reasontext")
	}
}

// Build constructs the error value.
func (n *ErrNode) Build() error {
	if n == nil {
		return nil
	}
	switch n.Kind {
	case "plain":
		return errors.New(n.Marker)
	case "eof":
		return io.ErrUnexpectedEOF
	case "dns-temp":
		return &net.DNSError{Err: "server misbehaving", Name: "mx.example.org", Server: "10.9.8.7:53", IsTemporary: true}
	case "dns-timeout":
		return &net.DNSError{Err: "i/o timeout", Name: "mx.example.org", Server: "10.9.8.7:53", IsTimeout: true}
	case "dns-notfound":
		return &net.DNSError{Err: "no such host", Name: "mx.example.org", Server: "10.9.8.7:53", IsNotFound: true}
	case "net-timeout":
		return &net.OpError{Op: "read", Net: "tcp", Err: os.ErrDeadlineExceeded}
	case "deadline":
		return context.DeadlineExceeded
	case "gosmtp":
		return &smtp.SMTPError{Code: n.Code, EnhancedCode: smtp.EnhancedCode{n.Ench[0], n.Ench[1], n.Ench[2]}, Message: n.Msg}
	case "smtp":
		return &exterrors.SMTPError{Code: n.Code, EnhancedCode: exterrors.EnhancedCode{n.Ench[0], n.Ench[1], n.Ench[2]}, Message: n.Msg, Reason: n.Reason, Err: n.Child.Build()}
	case "smtp-helper":
		inner := n.Child.Build()
		return &exterrors.SMTPError{
			Code:         exterrors.SMTPCode(inner, n.TCode, n.PCode),
			EnhancedCode: exterrors.SMTPEnchCode(inner, exterrors.EnhancedCode{n.Ench[0], n.Ench[1], n.Ench[2]}),
			Message:      n.Msg, Err: inner,
		}
	case "temp":
		return exterrors.WithTemporary(n.Child.Build(), n.Temp)
	case "fields":
		return exterrors.WithFields(n.Child.Build(), map[string]interface{}{"target": "verif", "detail": n.Marker})
	case "fmtw":
		return fmt.Errorf("%s: %w", n.Marker, n.Child.Build())
	}
	panic("verifx: unknown error node kind " + n.Kind)
}

// Temporary is the reference classification, computed from the tree alone:
// the outermost node that defines temporariness decides.
func (n *ErrNode) Temporary() (temp, specified bool) {
	for ; n != nil; n = n.Child {
		switch n.Kind {
		case "smtp", "gosmtp":
			return n.Code/100 == 4, true
		case "smtp-helper":
			t, s := n.Child.Temporary()
			return t && s, true // helper: temporary code iff the inner error is known to be temporary
		case "temp":
			return n.Temp, true
		case "dns-temp", "dns-timeout", "net-timeout", "deadline":
			return true, true
		case "dns-notfound":
			return false, true
		}
	}
	return false, false
}

// Annotated returns the outermost node carrying explicit SMTP annotations.
func (n *ErrNode) Annotated() *ErrNode {
	for ; n != nil; n = n.Child {
		if n.Kind == "smtp" || n.Kind == "smtp-helper" {
			return n
		}
	}
	return nil
}

func (n *ErrNode) Has(kind string) bool {
	for ; n != nil; n = n.Child {
		if n.Kind == kind {
			return true
		}
	}
	return false
}

func (n *ErrNode) Depth() int {
	d := 0
	for ; n != nil; n = n.Child {
		d++
	}
	return d
}

// Markers lists every internal-detail string in the tree (texts that must not
// reach an SMTP client unless an annotation's Message says so).
func (n *ErrNode) Markers() []string {
	var out []string
	for ; n != nil; n = n.Child {
		if n.Marker != "" {
			out = append(out, n.Marker)
		}
		if n.Reason != "" {
			out = append(out, n.Reason)
		}
		if n.Kind == "gosmtp" {
			out = append(out, n.Msg)
		}
		switch n.Kind {
		case "dns-temp", "dns-timeout", "dns-notfound":
			out = append(out, "10.9.8.7", "mx.example.org")
		}
	}
	return out
}

// TempOverAnnotated reports the shape "temporary marker wrapped around an
// annotated error of the other class" (see KNOWN_FINDINGS C16).
func (n *ErrNode) TempOverAnnotated() bool {
	for ; n != nil; n = n.Child {
		switch n.Kind {
		case "temp":
			if a := n.Child.Annotated(); a != nil {
				at, _ := a.Temporary()
				return at != n.Temp
			}
			return false
		case "smtp", "smtp-helper":
			return false
		}
	}
	return false
}

func (n *ErrNode) String() string {
	var parts []string
	for ; n != nil; n = n.Child {
		switch n.Kind {
		case "smtp":
			parts = append(parts, fmt.Sprintf("smtp(%d %d.%d.%d %q)", n.Code, n.Ench[0], n.Ench[1], n.Ench[2], n.Msg))
		case "smtp-helper":
			parts = append(parts, fmt.Sprintf("smtp-helper(%d|%d x.%d.%d)", n.TCode, n.PCode, n.Ench[1], n.Ench[2]))
		case "temp":
			parts = append(parts, fmt.Sprintf("temp(%v)", n.Temp))
		case "gosmtp":
			parts = append(parts, fmt.Sprintf("downstream-reply(%d %d.%d.%d %q)", n.Code, n.Ench[0], n.Ench[1], n.Ench[2], n.Msg))
		default:
			parts = append(parts, n.Kind)
		}
	}
	return strings.Join(parts, " > ")
}
