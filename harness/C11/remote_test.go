package remote

// C11 harness, remote target layer: destination and message permits are
// returned whatever the stage at which a delivery to the next hop ends.

import (
	"context"
	"fmt"
	"net"
	"sync"
	"testing"
	"time"

	"github.com/emersion/go-message/textproto"
	"github.com/emersion/go-smtp"
	"github.com/foxcpp/go-mockdns"
	"github.com/foxcpp/maddy/framework/buffer"
	"github.com/foxcpp/maddy/framework/config"
	"github.com/foxcpp/maddy/framework/log"
	"github.com/foxcpp/maddy/framework/module"
	"github.com/foxcpp/maddy/internal/limits"
	"github.com/foxcpp/maddy/internal/smtpconn/pool"
	"github.com/foxcpp/maddy/internal/verifx"
	"pgregory.net/rapid"
	"verifkit/ev"
)

type c11rDelivery struct {
	Rcpts  []string `json:"rcpts"`
	FailAt string   `json:"fail_at"` // "", mail, rcpt, data, abort-after-rcpt
	Class  string   `json:"class"`
	// the message carries REQUIRETLS: the (plaintext) next hop cannot satisfy it and the delivery is refused
	// by the target itself after the connection was opened
	RequireTLS bool `json:"requiretls,omitempty"`
}

type c11rScenario struct {
	N          int            `json:"n"`
	Scopes     []string       `json:"scopes"` // all source destination
	Deliveries []c11rDelivery `json:"deliveries"`
	Parallel   bool           `json:"parallel"`
}

var c11rRcpts = []string{"a@one.invalid", "b@one.invalid", "c@two.invalid"}

func c11rRun(sc c11rScenario) (vs []ev.V) {
	hop, err := verifx.StartNextHop(verifx.HopConfig{Name: "mx.one.invalid", UTF8: true})
	if err != nil {
		ev.Get("C11").HarnessError("next hop: %v", err)
		return nil
	}
	defer hop.Close()
	var nodes []config.Node
	for _, s := range sc.Scopes {
		nodes = append(nodes, config.Node{Name: s, Args: []string{"concurrency", fmt.Sprint(sc.N)}})
	}
	lm, _ := limits.New("limits", "verif", nil, nil)
	g := lm.(*limits.Group)
	if err := g.Init(config.NewMap(nil, config.Node{Children: nodes})); err != nil {
		return []ev.V{ev.Vf("harness:init", "%v", err)}
	}
	zones := map[string]mockdns.Zone{
		"one.invalid.": {MX: []net.MX{{Host: "mx.one.invalid.", Pref: 10}}}, "two.invalid.": {MX: []net.MX{{Host: "mx.one.invalid.", Pref: 10}}},
		"mx.one.invalid.": {A: []string{"127.0.0.1"}},
	}
	tgt := &Target{name: "remote", hostname: "mx.maddy.test", resolver: &mockdns.Resolver{Zones: zones},
		dialer: func(ctx context.Context, network, addr string) (net.Conn, error) {
			return (&net.Dialer{}).DialContext(ctx, "tcp", hop.Addr)
		},
		Log: log.Logger{Out: log.NopOutput{}}, limits: g, connReuseLimit: 10,
		pool: pool.New(pool.Config{MaxKeys: 5000, MaxConnsPerKey: 5, MaxConnLifetimeSec: 150, StaleKeyLifetimeSec: 300})}
	defer tgt.Close()
	ctx, cancel := context.WithTimeout(context.Background(), 3*time.Second)
	defer cancel()
	hdr := textproto.Header{}
	hdr.Add("Subject", "c11")
	one := func(i int, d c11rDelivery) {
		del, err := tgt.Start(ctx, &module.MsgMetadata{ID: fmt.Sprintf("c11r-%d", i), SMTPOpts: smtp.MailOptions{RequireTLS: d.RequireTLS}}, "sender@src.invalid")
		if err != nil {
			return
		}
		ok := 0
		for _, r := range d.Rcpts {
			if del.AddRcpt(ctx, r, smtp.RcptOptions{}) == nil {
				ok++
			}
		}
		if ok == 0 || d.FailAt == "abort-after-rcpt" {
			del.Abort(ctx)
			return
		}
		if err := del.Body(ctx, hdr, buffer.MemoryBuffer{Slice: []byte("x\r\n")}); err != nil {
			del.Abort(ctx)
			return
		}
		del.Commit(ctx)
	}
	if sc.Parallel {
		// the scripted failures are global to the hop, so parallel runs use the script of the first delivery
		if d := sc.Deliveries[0]; d.FailAt == "mail" || d.FailAt == "data" {
			hop.Script(d.FailAt, d.Class)
		}
		var wg sync.WaitGroup
		for i, d := range sc.Deliveries {
			wg.Add(1)
			go func() { defer wg.Done(); one(i, d) }()
		}
		wg.Wait()
	} else {
		for i, d := range sc.Deliveries {
			hop.ResetScript()
			switch d.FailAt {
			case "mail", "data":
				hop.Script(d.FailAt, d.Class)
			case "rcpt":
				hop.Script("rcpt:"+d.Rcpts[0], d.Class)
			}
			one(i, d)
		}
	}
	// every permit must be back
	probe := func(what string, take func(context.Context) error, release func()) {
		got := 0
		for i := 0; i < sc.N; i++ {
			// free permits are granted at once; the time-out only matters when one leaked (generous: the machine may be loaded,
			// and a select with an expired context picks at random)
			c, cancel := context.WithTimeout(context.Background(), 5*time.Second)
			err := take(c)
			cancel()
			if err != nil {
				break
			}
			got++
		}
		for i := 0; i < got; i++ {
			release()
		}
		if got != sc.N {
			shape := "other"
			for _, d := range sc.Deliveries {
				if d.FailAt == "mail" {
					shape = "next-hop-rejected-MAIL"
				}
			}
			vs = append(vs, ev.Vf("remote:permit-not-returned:"+what+":"+shape, "after all deliveries ended only %d of %d %s permits can be acquired (deliveries %+v)", got, sc.N, what, sc.Deliveries))
		}
	}
	for _, s := range sc.Scopes {
		switch s {
		case "destination":
			for _, d := range []string{"one.invalid", "two.invalid"} {
				probe("destination", func(c context.Context) error { return g.TakeDest(c, d) }, func() { g.ReleaseDest(d) })
			}
		default:
			probe("message", func(c context.Context) error { return g.TakeMsg(c, net.IPv4(127, 0, 0, 1), "src.invalid") }, func() { g.ReleaseMsg(net.IPv4(127, 0, 0, 1), "src.invalid") })
		}
	}
	return vs
}

func TestVerifC11Remote(t *testing.T) {
	r := ev.Get("C11")
	ev.Run(t, r, ev.Spec[c11rScenario]{Name: "remote", Journal: true, N: r.Scale(1, 4, 50), Gen: func(t *rapid.T) c11rScenario {
		sc := c11rScenario{N: rapid.IntRange(1, 3).Draw(t, "n"), Parallel: rapid.IntRange(0, 3).Draw(t, "parallel") == 0}
		sc.Scopes = rapid.SliceOfNDistinct(rapid.SampledFrom([]string{"all", "source", "destination", "destination"}), 1, 3, rapid.ID[string]).Draw(t, "scopes")
		for i, n := 0, rapid.IntRange(1, 5).Draw(t, "ndeliveries"); i < n; i++ {
			d := c11rDelivery{FailAt: rapid.SampledFrom([]string{"", "", "mail", "mail", "rcpt", "data", "abort-after-rcpt"}).Draw(t, "fail_at"), Class: rapid.SampledFrom([]string{"T", "P"}).Draw(t, "class"),
				RequireTLS: rapid.IntRange(0, 4).Draw(t, "requiretls") == 0}
			idx := rapid.SliceOfNDistinct(rapid.IntRange(0, 2), 1, 3, rapid.ID[int]).Draw(t, "rcpts")
			for _, k := range idx {
				d.Rcpts = append(d.Rcpts, c11rRcpts[k])
			}
			sc.Deliveries = append(sc.Deliveries, d)
		}
		return sc
	}, Run: c11rRun, Info: func(sc c11rScenario) ev.Info {
		fail := false
		for _, d := range sc.Deliveries {
			if d.FailAt != "" || d.RequireTLS {
				fail = true
			}
		}
		return ev.Info{Nontrivial: fail, Classes: []string{fmt.Sprintf("parallel=%v", sc.Parallel)}}
	}})
}
