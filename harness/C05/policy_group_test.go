package remote

// C05, configuration side: every policy block written inside `mx_auth { }` is
// in force. The block names are generated in the short spelling the
// documentation uses and in the full module-name spelling the configuration
// system accepts everywhere else (`mx_auth.dane`); a policy that loads without
// an error and is then not applied makes "every outbound security policy in
// force" empty.

import (
	"fmt"
	"sort"
	"strings"
	"testing"

	"github.com/foxcpp/maddy/framework/config"
	"github.com/foxcpp/maddy/framework/module"
	"pgregory.net/rapid"
	"verifkit/ev"
)

type c05gCase struct {
	Policies []string `json:"policies"` // subset of dane dnssec local_policy mtasts
	Full     []bool   `json:"full_module_name"`
}

func c05gRun(sc c05gCase) (vs []ev.V) {
	var blocks []config.Node
	var written []string
	for i, p := range sc.Policies {
		name := p
		if sc.Full[i] {
			name = "mx_auth." + p
		}
		written = append(written, name)
		n := config.Node{Name: name}
		switch p {
		case "mtasts":
			n.Children = []config.Node{{Name: "cache", Args: []string{"ram"}}}
		case "local_policy":
			n.Children = []config.Node{{Name: "min_tls_level", Args: []string{"encrypted"}}}
		}
		blocks = append(blocks, n)
	}
	mod, err := module.Get("mx_auth")("mx_auth", "verif", nil, nil)
	if err != nil {
		ev.Get("C05").HarnessError("%v", err)
		return nil
	}
	pg := mod.(*PolicyGroup)
	if err := pg.Init(config.NewMap(map[string]interface{}{"hostname": "mx.maddy.test", "state_dir": "/tmp", "runtime_dir": "/tmp"}, config.Node{Children: blocks})); err != nil {
		return nil // refused at load time: nothing is silently dropped
	}
	var applied []string
	for _, p := range pg.L {
		name := fmt.Sprintf("%T", p)
		if m, ok := p.(module.Module); ok {
			name = m.Name()
		}
		applied = append(applied, strings.TrimPrefix(name, "mx_auth."))
	}
	want := append([]string(nil), sc.Policies...)
	sort.Strings(want)
	got := append([]string(nil), applied...)
	sort.Strings(got)
	if strings.Join(want, ",") != strings.Join(got, ",") {
		vs = append(vs, ev.Vf("policy-group:configured-policy-not-in-force", "mx_auth { %s } loaded without an error, the policies in force are %v", strings.Join(written, "; "), applied))
	}
	if n := len(applied); n > 0 {
		for i, a := range applied {
			if a == "local_policy" && i != n-1 {
				vs = append(vs, ev.Vf("policy-group:local-policy-not-last", "mx_auth { %s }: order of application %v (local_policy judges the levels the others establish)", strings.Join(written, "; "), applied))
			}
		}
	}
	return vs
}

func TestVerifC05PolicyGroup(t *testing.T) {
	r := ev.Get("C05")
	if r.Shard != 0 {
		return
	}
	ev.Run(t, r, ev.Spec[c05gCase]{Name: "policy-group", N: 200, Gen: func(t *rapid.T) c05gCase {
		sc := c05gCase{Policies: rapid.SliceOfNDistinct(rapid.SampledFrom([]string{"dane", "dnssec", "local_policy", "mtasts"}), 1, 4, rapid.ID[string]).Draw(t, "policies")}
		for range sc.Policies {
			sc.Full = append(sc.Full, rapid.IntRange(0, 2).Draw(t, "full") == 0)
		}
		return sc
	}, Run: c05gRun, Info: func(sc c05gCase) ev.Info {
		full := false
		for _, f := range sc.Full {
			full = full || f
		}
		return ev.Info{Nontrivial: len(sc.Policies) > 1 || full, Classes: []string{fmt.Sprintf("full_name=%v", full)}}
	}})
}
