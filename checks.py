"""Per-property check specifications used by ./check."""

GO = "go"          # repository toolchain (1.23.5)
GO126 = "go1.26.8"  # needed for testing/synctest (virtual clock, owned schedule)

QUEUE_COMMON = {"verif_qcommon_test.go": "harness/shared/queue_common_test.go"}
VERIFX = {"internal/verifx/errtree.go": "harness/shared/verifx/errtree.go", "internal/verifx/monitor.go": "harness/shared/verifx/monitor.go", "internal/verifx/nexthop.go": "harness/shared/verifx/nexthop.go", "internal/verifx/buffer.go": "harness/shared/verifx/buffer.go", "internal/verifx/tlsutil.go": "harness/shared/verifx/tlsutil.go"}

CHECKS = {
    "C17": {
        "title": "address normalisation laws",
        "go": GO,
        "units": [
            {"name": "address", "pkg": "framework/address",
             "overlay": {"verif_c17_test.go": "harness/C17/address_test.go"}},
            {"name": "dns", "pkg": "framework/dns",
             "overlay": {"verif_c17_test.go": "harness/C17/dns_test.go"}},
        ],
        "quick": {"n": 60000, "shards": 6},
        "thorough": {"n": 1600000, "shards": 8},
        "level_text": "randomised search (rapid) over a hostile string alphabet and over valid addresses built from a table of "
                      "(U-label, A-label) pairs with spelling variants; oracles are the laws themselves plus keys known by construction. "
                      "Cheap pure functions, so 10^5-10^6 cases per run; no claim of absence.",
        "level_note": "trusts x/net/idna and x/text/norm for constructing the label table and the NFD/upper-case spellings; "
                      "the valid-address laws are only asserted on generated valid addresses, crash-freedom and the equivalence laws on all strings",
        "technique": "property-based testing (rapid): algebraic laws, round-trips and by-construction reference keys over generated strings/addresses",
    },
}

CHECKS["C20"] = {
    "title": "config parsing never crashes, trees round-trip",
    "go": GO,
    "crash_is_violation": True,
    "units": [
        {"name": "cfgparser", "pkg": "framework/cfgparser",
         "overlay": {"verif_c20_test.go": "harness/C20/cfgparser_test.go"},
         "fuzz": {"targets": ["FuzzVerifC20"], "seconds": 150}},
        {"name": "shipped", "pkg": ".", "run": "^TestVerifC20Shipped$",
         "overlay": {"verif_c20_test.go": "harness/C20/shipped_test.go"},
         "quick": {"n": 48, "shards": 16}, "thorough": {"n": 960, "shards": 16}},
    ],
    "quick": {"n": 60000, "shards": 8, "mem_kb": 6 * 1024 * 1024},
    "thorough": {"n": 1200000, "shards": 16, "mem_kb": 6 * 1024 * 1024},
    "level_text": "randomised search (rapid) over grammar-generated configuration documents plus byte mutations, and over generated trees; "
                  "oracle = no panic / returns under a watchdog / result fully expanded, well-named, depth-bounded / print-parse round trip. "
                  "Thorough tier adds native coverage-guided fuzzing of the same oracle.",
    "level_note": "termination is judged by a 10 s watchdog and a 6 GiB address-space limit on inputs that normally take microseconds; "
                  "the canonical printer and the expressibility predicate are the harness's own",
    "technique": "property-based testing (rapid grammar generator + mutation) and native go fuzzing with an in-target semantic oracle",
}

CHECKS["C07"] = {
    "title": "DMARC verdict and action equal the specification",
    "go": GO,
    "units": [
        {"name": "msgpipeline", "pkg": "internal/msgpipeline",
         "overlay": {"verif_c07_test.go": "harness/C07/dmarc_test.go"}},
    ],
    "quick": {"n": 40000, "shards": 8},
    "thorough": {"n": 800000, "shards": 16},
    "level_text": "randomised search (rapid) over the listed product, each point delivered through a real MsgPipeline with DMARC enabled and "
                  "compared with a reference model written from the statement / RFC 7489; the thorough tier also enumerates the complete "
                  "sub-product with exactly one DKIM result (about 3*10^5 points).",
    "level_note": "organisational domains come from a fixed table in the harness; pct other than absent/100 and junk TXT at the From domain "
                  "together with a record at the organisational domain are outside the statement and not generated",
    "technique": "property-based testing (rapid) against a table-driven reference model; exhaustive enumeration of a finite sub-product in the thorough tier",
}

CHECKS["C13"] = {
    "title": "DANE accepts only a matching TLSA record and fails closed",
    "go": GO,
    "units": [
        {"name": "remote", "pkg": "internal/target/remote",
         "overlay": {"verif_c13_test.go": "harness/C13/dane_test.go"}},
        {"name": "discovery", "pkg": "internal/target/remote", "run": "^TestVerifC13Discovery$",
         "overlay": {"verif_c13d_test.go": "harness/C13/discovery_test.go"},
         "quick": {"shards": 2}, "thorough": {"shards": 4}},
        {"name": "tlsa-lookup", "pkg": "framework/dns", "run": "^TestVerifC13TLSALookup$",
         "overlay": {"verif_c13_test.go": "harness/C13/tlsa_lookup_test.go"},
         "quick": {"shards": 2}, "thorough": {"shards": 4}},
    ],
    "quick": {"n": 40000, "shards": 8},
    "thorough": {"n": 1600000, "shards": 16},
    "level_text": "randomised search (rapid) over TLSA record multisets x presented chains x handshake state x lookup outcome against an answer known by "
                  "construction of the harness's own PKI; the thorough tier also enumerates every multiset of at most two records against every chain. Two further units cover 'the records published for an MX': discoverTLSA against a loopback DNS server "
                  "that answers like a validating resolver, over alias chains of 0-3 CNAMEs with per-RRset AD flags and TLSA states (none / secure / without AD / SERVFAIL) at the MX name and at the expanded name, and host names too long to have a TLSA owner name "
                  "(oracle: records of an insecurely reached name or unauthenticated records are never used, securely published ones and lookup failures are never ignored), and AuthLookupTLSA against answers that do not fit into a UDP reply.",
    "level_note": "the oracle never calls x509.Verify or TLSA.Verify; it trusts crypto/x509 only for creating the certificates. "
                  "'Exhaustive' in the thorough tier is partial: with TLS absent only a few second records are tried because the expected answer cannot depend on them",
    "technique": "property-based testing (rapid) with a by-construction oracle; exhaustive small-scope enumeration (all multisets of <=2 records)",
}

CHECKS["C16"] = {
    "title": "error replies are coherent",
    "go": GO,
    "units": [
        {"name": "endpoint", "pkg": "internal/endpoint/smtp", "run": "^TestVerifC16",
         "overlay": {"verif_c16_test.go": "harness/C16/endpoint_test.go", "verif_c16auth_test.go": "harness/C16/auth_test.go"},
         "overlay_abs": VERIFX},
        {"name": "queue", "pkg": "internal/target/queue", "run": "^TestVerifC16", "go": GO126,
         "overlay": dict(QUEUE_COMMON, **{"verif_c01_test.go": "harness/C01/queue_test.go", "verif_c18_test.go": "harness/C18/dsn_test.go",
                                          "verif_c16_test.go": "harness/C16/queue_test.go"}), "overlay_abs": VERIFX,
         "quick": {"n": 4000, "shards": 8}, "thorough": {"n": 160000, "shards": 16}},
        {"name": "reject", "pkg": "internal/msgpipeline", "run": "^TestVerifC16",
         "overlay": {"verif_c16_test.go": "harness/C16/reject_test.go"},
         "quick": {"shards": 1}, "thorough": {"shards": 1}},
        {"name": "check-action", "pkg": "framework/config/module", "run": "^TestVerifC16Action$",
         "overlay": {"verif_c16_test.go": "harness/C16/check_action_test.go"},
         "quick": {"shards": 1}, "thorough": {"shards": 1}},
        {"name": "milter", "pkg": "internal/check/milter", "run": "^TestVerifC16Milter$",
         "overlay": {"verif_c16_test.go": "harness/C16/milter_test.go"},
         "quick": {"shards": 1}, "thorough": {"shards": 1}},
        {"name": "smtpconn", "pkg": "internal/smtpconn", "run": "^TestVerifC16Client(Net|LMTP)?$",
         "overlay": {"verif_c16_test.go": "harness/C16/smtpconn_test.go", "verif_c16n_test.go": "harness/C16/smtpconn_net_test.go"},
         "quick": {"shards": 2}, "thorough": {"shards": 4}},
        {"name": "remote", "pkg": "internal/target/remote", "run": "^TestVerifC16Remote$",
         "overlay": {"verif_c16_test.go": "harness/C16/remote_test.go"},
         "quick": {"shards": 2}, "thorough": {"shards": 4}},
    ],
    "quick": {"n": 40000, "shards": 8},
    "thorough": {"n": 1600000, "shards": 16},
    "level_text": "randomised search (rapid) over error trees built from maddy's wrapping primitives, pushed through the endpoint's and the queue's reply "
                  "conversion and compared with a reference classification computed from the tree alone; plus a complete enumeration of the SMTP error "
                  "literals and helper call sites of the current source tree (AST), each evaluated for both classes of inner error.",
    "level_note": "codes typed by the administrator in a three-argument reject directive are not 'generated by maddy' and are not checked; "
                  "sites whose codes are not literals are counted as unresolved and not judged",
    "technique": "property-based testing (rapid) with a reference classifier; exhaustive enumeration of literal/helper call sites",
}

CHECKS["C15"] = {
    "title": "authenticated users can only send as addresses they are entitled to",
    "go": GO,
    "units": [
        {"name": "authorize_sender", "pkg": "internal/check/authorize_sender",
         "overlay": {"verif_c15_test.go": "harness/C15/authorize_sender_test.go"}},
    ],
    "quick": {"n": 60000, "shards": 8},
    "thorough": {"n": 2400000, "shards": 16},
    "level_text": "randomised search (rapid) over entitlement tables, normalisation settings and structured messages (several From fields, groups, "
                  "display-name tricks, spelling variants); one-directional oracle 'accepted implies entitled' against a reference model over base identities.",
    "level_note": "only the direction the statement gives is asserted; the fraction of accepted messages is reported to show the check is not vacuous; "
                  "table keys and values are generated in canonical spelling",
    "technique": "property-based testing (rapid) with a by-construction reference entitlement model",
}

CHECKS["C14"] = {
    "crash_is_violation": True,
    "title": "password authentication follows the account history",
    "go": GO,
    "units": [
        {"name": "pass_table", "pkg": "internal/auth/pass_table",
         "overlay": {"verif_c14_test.go": "harness/C14/pass_table_test.go"}},
        {"name": "submission", "pkg": "internal/endpoint/smtp", "run": "^TestVerifC14Submission$",
         "overlay": {"verif_c03_test.go": "harness/C03/session_test.go", "verif_c14_test.go": "harness/C14/submission_test.go"}, "overlay_abs": VERIFX,
         "quick": {"n": 3200, "shards": 16}, "thorough": {"n": 128000, "shards": 16}},
    ],
    "quick": {"n": 1600, "shards": 16},
    "thorough": {"n": 64000, "shards": 16},
    "level_text": "model-based randomised search (rapid): histories of account operations and PLAIN/LOGIN authentications applied to the real "
                  "pass_table + SASLAuth and to a reference map; PLAIN and LOGIN are compared on every authentication.",
    "level_note": "the table behind pass_table is an in-memory MutableTable of the harness; password hashing is real (bcrypt cost 4 on create, "
                  "default cost on set-password; argon2 with tiny parameters), which bounds the number of histories per run",
    "technique": "stateful / model-based property testing (rapid) against a reference map, with a PLAIN-vs-LOGIN differential",
}

CHECKS["C04"] = {
    "title": "routing follows the documented precedence",
    "go": GO,
    "units": [
        {"name": "msgpipeline", "pkg": "internal/msgpipeline", "run": "^TestVerifC04",
         "overlay": {"verif_c04_test.go": "harness/C04/routing_test.go", "verif_common_test.go": "harness/shared/msgpipeline_common_test.go"}},
    ],
    "quick": {"n": 40000, "shards": 8},
    "thorough": {"n": 1600000, "shards": 16},
    "level_text": "randomised search (rapid) over pipeline configurations generated from the directive grammar and envelopes over a small address alphabet with "
                  "spelling variants, loaded and executed through the real parsers, replace_rcpt modifier and nested pipelines; oracle = independent model of the "
                  "documented precedence on base identities (selection, rewriting scopes, reject replies, load-time completeness).",
    "level_note": "tables are harness modules with pre-normalised keys; envelopes pass address.CleanDomain first (documented precondition of the delivery interface)",
    "technique": "property-based testing (rapid, grammar-based configuration generator) against an independent reference model of the documentation",
}

CHECKS["C06"] = {
    "title": "check verdicts enforced; each check sees each stage once",
    "go": GO,
    "units": [
        {"name": "msgpipeline", "pkg": "internal/msgpipeline", "run": "^TestVerifC06",
         "overlay": {"verif_c06_test.go": "harness/C06/checks_test.go", "verif_common_test.go": "harness/shared/msgpipeline_common_test.go"}},
        {"name": "queue", "pkg": "internal/target/queue", "run": "^TestVerifC06Queue$", "go": GO126,
         "overlay": dict(QUEUE_COMMON, **{"verif_c01_test.go": "harness/C01/queue_test.go", "verif_c10_test.go": "harness/C10/spool_test.go", "verif_c06_test.go": "harness/C06/queue_test.go"}),
         "overlay_abs": VERIFX, "quick": {"n": 2400, "shards": 16}, "thorough": {"n": 96000, "shards": 16}},
        {"name": "stateless", "pkg": "internal/check", "run": "^TestVerifC06Stateless$",
         "overlay": {"verif_c06_test.go": "harness/C06/stateless_test.go"}, "quick": {"n": 16000, "shards": 1}, "thorough": {"n": 160000, "shards": 2}},
    ],
    "quick": {"n": 24000, "shards": 16},
    "thorough": {"n": 960000, "shards": 16},
    "level_text": "randomised search (rapid) over check placements, verdict scripts, envelopes, body paths and completion-delay ranks, run through the real "
                  "pipeline and check runner; oracle = stage-by-stage reference model + per-state call log + metamorphic (ignore) and differential (SMTP vs LMTP body path) relations.",
    "level_note": "completion orders of the parallel check goroutines are varied with small per-check delays rather than an owned scheduler (the oracle is order-independent); "
                  "a refusal caused by replaying an earlier recipient to a check first met later is tolerated, not required",
    "technique": "property-based testing (rapid) with a reference model, call-log invariants, metamorphic and differential relations",
}


CHECKS["C01"] = {
    "crash_is_violation": True,
    "title": "queue: exactly one terminal outcome per recipient",
    "go": GO126,
    "units": [
        {"name": "queue", "pkg": "internal/target/queue", "run": "^TestVerifC01$",
         "overlay": dict(QUEUE_COMMON, **{"verif_c01_test.go": "harness/C01/queue_test.go"}), "overlay_abs": VERIFX},
        {"name": "real", "pkg": "internal/target/queue", "run": "^TestVerifC01Real$",
         "overlay": dict(QUEUE_COMMON, **{"verif_c01_test.go": "harness/C01/queue_test.go", "verif_c01real_test.go": "harness/C01/real_test.go"}),
         "overlay_abs": dict(VERIFX, **{"internal/target/remote/verif_export.go": "harness/shared/remote_export/verif_export.go"})},
    ],
    "quick": {"n": 4000, "shards": 16},
    "thorough": {"n": 160000, "shards": 16},
    "level_text": "randomised search (rapid) over recipient sets, downstream kinds and per-attempt fault plans, executed against the real queue on a virtual clock "
                  "(testing/synctest, production retry timing); oracle = reference model of the documented attribution rules computed from the plan alone.",
    "level_note": "built with go1.26.8 for testing/synctest; unit `queue`: scripted downstream targets (atomic and per-recipient) on a virtual clock; unit `real`: maddy's own target.smtp / target.lmtp "
                  "client against a scripted loopback server in real time (retry delay 3 ms), oracle over what the server saw; duplicate recipients are not generated",
    "technique": "property-based testing (rapid) with fault-plan generation and a reference model, run on a virtual clock",
    "assumptions": ["toolchain go1.26.8 (newer than the repository's 1.23.5) is used to get testing/synctest"],
}

CHECKS["C18"] = {
    "title": "failure reports are well-formed, name the right recipients, cannot loop",
    "go": GO126,
    "units": [
        {"name": "queue", "pkg": "internal/target/queue", "run": "^TestVerifC18",
         "overlay": dict(QUEUE_COMMON, **{"verif_c01_test.go": "harness/C01/queue_test.go", "verif_c18_test.go": "harness/C18/dsn_test.go", "verif_c18p_test.go": "harness/C18/pipeline_test.go"}), "overlay_abs": VERIFX},
    ],
    "quick": {"n": 4000, "shards": 16},
    "thorough": {"n": 160000, "shards": 16},
    "level_text": "randomised search (rapid) over failed-recipient sets, rewriting, IDN/EAI, error values and original headers, run through the real queue under synctest; "
                  "every generated report is parsed with Go's standard library (independent of go-message) and compared with the C01 reference model.",
    "level_note": "built with go1.26.8 for testing/synctest; 'well-formed' is judged structurally (see assumptions in the evidence)",
    "technique": "property-based testing (rapid) with an independent parser as oracle and a reference model for the expected recipient set",
    "assumptions": ["toolchain go1.26.8 (newer than the repository's 1.23.5) is used to get testing/synctest"],
}

CHECKS["C10"] = {
    "title": "spool preserves bytes and envelope, never stores credentials",
    "go": GO126,
    "units": [
        {"name": "queue", "pkg": "internal/target/queue", "run": "^TestVerifC10",
         "overlay": dict(QUEUE_COMMON, **{"verif_c01_test.go": "harness/C01/queue_test.go", "verif_c10_test.go": "harness/C10/spool_test.go"}), "overlay_abs": VERIFX},
    ],
    "quick": {"n": 2400, "shards": 16},
    "thorough": {"n": 96000, "shards": 16},
    "level_text": "randomised search (rapid) over header blocks, bodies (incl. file-backed ones larger than 1 MiB), envelopes and retry/restart histories, run through the real "
                  "queue under synctest; round-trip oracle on every attempt plus a scan of every spool file for credential markers.",
    "level_note": "built with go1.26.8 for testing/synctest; the header is compared in the serialised form go-message produces for the accepted header",
    "technique": "property-based testing (rapid), round-trip oracle over retry x restart histories, marker scan",
    "assumptions": ["toolchain go1.26.8 (newer than the repository's 1.23.5) is used to get testing/synctest"],
}

CHECKS["C08"] = {
    "crash_is_violation": True,
    "title": "DKIM signatures made by maddy verify at the next hop after spooling and SMTP",
    "go": GO,
    "units": [
        {"name": "queue", "pkg": "internal/target/queue", "run": "^TestVerifC08",
         "overlay": {"verif_c08_test.go": "harness/C08/dkim_test.go"}, "overlay_abs": VERIFX},
    ],
    "quick": {"n": 4800, "shards": 16},
    "thorough": {"n": 64000, "shards": 16},
    "level_text": "randomised search (rapid) over RFC 5322 messages x key type x canonicalisations x EAI/IDN sender, run through the real modify.dkim, the real queue spool "
                  "(with a close/re-open cycle so the header is re-read from disk), the real target.smtp client and a loopback SMTP server; the received bytes are verified "
                  "against the key the signer published, raw and after maddy's header parse/serialise cycle, then tampered with (remove / alter a signed field, add an over-signed one).",
    "level_note": "signer and verifier share go-msgauth; no independent canonicaliser in the oracle",
    "technique": "property-based testing (rapid): round-trip through sign -> spool -> SMTP -> verify, metamorphic tampering relation",
    "assumptions": [],
    "min_nontrivial": 50,
}

CHECKS["C02"] = {
    "title": "spool survives a crash at any instant",
    "go": GO126,
    "level": "fault_enumeration",
    "generate": [{"cmd": ["python3", "{root}/tools/instr_vos.py", "{repo}/internal/target/queue/queue.go", "{out}"],
                  "out": "queue_vos.go", "replaces": "internal/target/queue/queue.go"}],
    "units": [
        {"name": "queue", "pkg": "internal/target/queue", "run": "^TestVerifC02",
         "overlay": dict(QUEUE_COMMON, **{"verif_c01_test.go": "harness/C01/queue_test.go", "verif_c02_test.go": "harness/C02/crash_test.go"}), "overlay_abs": VERIFX},
    ],
    "quick": {"n": 160, "shards": 16},
    "thorough": {"n": 800, "shards": 16},
    "min_nontrivial": 50,
    "level_text": "fault enumeration: scenarios are sampled (rapid), but for each scenario every crash point of the recorded file-system operation log is enumerated "
                  "(before each operation, torn writes, un-fsynced data dropped; depth 2 in the thorough tier) and a fresh queue recovers on the reconstructed image; "
                  "invariants relate pre-crash and post-crash events.",
    "level_note": "queue.go is compiled against a logging replacement of package os (regenerated from /repo on every run); directory entries are assumed durable in issue order; "
                  "the one file-system error injected is a failing fsync of a message's header or body file while it is accepted; built with go1.26.8 for testing/synctest",
    "technique": "property-based scenario generation (rapid) + exhaustive crash-point enumeration over a recorded file-system log, invariant oracle",
    "assumptions": ["toolchain go1.26.8 (newer than the repository's 1.23.5) is used to get testing/synctest"],
}

INSTR = ["go", "run", "-C", "{root}/kit", "./cmd/instr"]

CHECKS["C12"] = {
    "title": "scheduler dispatches once; shutdown safe in every interleaving",
    "go": GO126,
    "crash_is_violation": True,
    "generate": [
        {"cmd": INSTR + ["{repo}/internal/target/queue/timewheel.go", "{out}"], "out": "timewheel_instr.go", "replaces": "internal/target/queue/timewheel.go"},
        {"cmd": INSTR + ["{repo}/internal/target/queue/queue.go", "{out}"], "out": "queue_instr.go", "replaces": "internal/target/queue/queue.go"},
    ],
    "units": [
        {"name": "queue", "pkg": "internal/target/queue", "run": "^TestVerifC12",
         "overlay": dict(QUEUE_COMMON, **{"verif_c01_test.go": "harness/C01/queue_test.go", "verif_c12_test.go": "harness/C12/timewheel_test.go",
                                          "verif_c12q_test.go": "harness/C12/queue_sched_test.go"}), "overlay_abs": VERIFX},
    ],
    "quick": {"n": 48, "shards": 16, "timeout": "15m"},
    "thorough": {"n": 1600, "shards": 16, "timeout": "60m"},
    "min_nontrivial": 50,
    "level_text": "systematic, delay-bounded schedule exploration: scenarios are sampled (rapid); for each, every schedule with at most two deviations from a deterministic default "
                  "scheduler is enumerated over the real timewheel.go / queue.go, whose synchronisation points are handed to a harness-owned scheduler by an AST rewriter, "
                  "on a virtual clock (testing/synctest).",
    "level_note": "pre-emption only at synchronisation operations; more than two deviations and data races proper are not covered; select's random choice is not controlled "
                  "(failures must reproduce from their schedule); built with go1.26.8",
    "technique": "property-based scenario generation (rapid) + exhaustive delay-bounded (d<=2) schedule enumeration with an owned scheduler and virtual clock",
    "assumptions": ["toolchain go1.26.8 (newer than the repository's 1.23.5) is used to get testing/synctest"],
}

CHECKS["C19"] = {
    "title": "pooled connection: one owner, closed once",
    "go": GO126,
    "crash_is_violation": True,
    "generate": [
        {"cmd": INSTR + ["{repo}/internal/smtpconn/pool/pool.go", "{out}"], "out": "pool_instr.go", "replaces": "internal/smtpconn/pool/pool.go"},
    ],
    "units": [
        {"name": "pool", "pkg": "internal/smtpconn/pool", "overlay": {"verif_c19_test.go": "harness/C19/pool_test.go"}},
        {"name": "remote-config", "pkg": "internal/target/remote", "run": "^TestVerifC19RemoteConfig$", "go": GO126,
         "overlay": {"verif_c19_test.go": "harness/C19/remote_config_test.go"}, "overlay_abs": VERIFX,
         "quick": {"n": 32, "shards": 16, "timeout": "10m"}, "thorough": {"n": 480, "shards": 16, "timeout": "45m"}},
    ],
    "quick": {"n": 96, "shards": 16, "timeout": "10m"},
    "thorough": {"n": 1600, "shards": 16, "timeout": "45m"},
    "min_nontrivial": 50,
    "level_text": "systematic, delay-bounded schedule exploration of the real pool.go (synchronisation points handed to a harness-owned scheduler by an AST rewriter) on a virtual clock; "
                  "scenarios sampled by rapid, schedules with at most two deviations enumerated up to a cap; invariants over instrumented connection objects.",
    "level_note": "pre-emption only at synchronisation operations; more than two deviations and plain data races are not covered; built with go1.26.8",
    "technique": "property-based scenario generation (rapid) + delay-bounded (d<=2) schedule enumeration with an owned scheduler and virtual clock",
    "assumptions": ["toolchain go1.26.8 (newer than the repository's 1.23.5) is used to get testing/synctest"],
}

CHECKS["C03"] = {
    "crash_is_violation": True,
    "title": "every SMTP/LMTP transaction finalised once and matches its reply",
    "go": GO,
    "units": [
        {"name": "endpoint", "pkg": "internal/endpoint/smtp", "run": "^TestVerifC03",
         "overlay": {"verif_c03_test.go": "harness/C03/session_test.go"}, "overlay_abs": VERIFX},
    ],
    "quick": {"n": 16000, "shards": 16},
    "thorough": {"n": 640000, "shards": 16},
    "level_text": "randomised search (rapid) over endpoint configurations, injected faults and command sequences, played by a raw-socket client against the real endpoint "
                  "(real go-smtp server, real pipeline, limits, checks and modifiers configured through the directive parsers); oracle = typestate monitor + reply/commit agreement + permit accounting.",
    "level_note": "runs on real loopback sockets (no virtual clock): read time-outs are reported as 'no reply', never as a protocol violation of another kind; "
                  "nothing is asserted about which error text or code is returned (that is C16)",
    "technique": "property-based testing (rapid, state-aware command grammar + fault injection) with typestate and accounting oracles",
}

CHECKS["C11"] = {
    "crash_is_violation": True,
    "title": "limits enforced, every permit returned, no crash",
    "go": GO126,
    "units": [
        {"name": "limits", "pkg": "internal/limits", "overlay": {"verif_c11_test.go": "harness/C11/limits_test.go"}},
        {"name": "remote", "pkg": "internal/target/remote", "run": "^TestVerifC11", "go": GO,
         "overlay": {"verif_c11_test.go": "harness/C11/remote_test.go", "verif_c11q_test.go": "harness/C11/queue_dsn_test.go"}, "overlay_abs": VERIFX},
    ],
    "quick": {"n": 8000, "shards": 16},
    "thorough": {"n": 320000, "shards": 16},
    "level_text": "randomised search (rapid) over limit configurations and concurrent take/hold/release histories of 1-64 workers on a virtual clock (testing/synctest), with a harness-side "
                  "holder count as oracle, plus bucket-table histories beyond capacity; the SMTP-endpoint layer of the property is exercised by C03's permit accounting.",
    "level_note": "built with go1.26.8 for testing/synctest; rate limits are not part of the statement and are not generated",
    "technique": "property-based testing (rapid) of concurrent histories on a virtual clock with a counting oracle",
    "assumptions": ["toolchain go1.26.8 (newer than the repository's 1.23.5) is used to get testing/synctest"],
}

CHECKS["C09"] = {
    "crash_is_violation": True,
    "title": "per-recipient results name exactly the accepted recipients",
    "go": GO,
    "units": [
        {"name": "remote", "pkg": "internal/target/remote", "run": "^TestVerifC09",
         "overlay": {"verif_c09_test.go": "harness/C09/remote_test.go"}, "overlay_abs": VERIFX},
        {"name": "lmtp", "pkg": "internal/target/smtp", "run": "^TestVerifC09",
         "overlay": {"verif_c09_test.go": "harness/C09/lmtp_test.go"}, "overlay_abs": VERIFX,
         "quick": {"shards": 8}, "thorough": {"shards": 8}},
        {"name": "pipeline", "pkg": "internal/msgpipeline", "run": "^TestVerifC09",
         "overlay": {"verif_c09_test.go": "harness/C09/pipeline_test.go", "verif_common_test.go": "harness/shared/msgpipeline_common_test.go"},
         "quick": {"shards": 2}, "thorough": {"shards": 4}},
    ],
    "quick": {"n": 3200, "shards": 16},
    "thorough": {"n": 128000, "shards": 16},
    "level_text": "randomised search (rapid) over recipient lists, next-hop capability sets, scripted next-hop failures and histories of transactions over one cached connection, "
                  "run against the real outbound targets talking to a scripted go-smtp server on loopback; oracle = multiset equality between reported result keys and accepted addresses.",
    "level_note": "the scripted next hop is a go-smtp server (same library as maddy's client); runs on real loopback sockets",
    "technique": "property-based testing (rapid) of transaction histories with a multiset-equality oracle",
}

CHECKS["C05"] = {
    "crash_is_violation": True,
    "title": "outbound mail only over connections that satisfy the policy",
    "go": GO,
    "units": [
        {"name": "remote", "pkg": "internal/target/remote", "run": "^TestVerifC05",
         "overlay": {"verif_c05_test.go": "harness/C05/policy_test.go", "verif_c05g_test.go": "harness/C05/policy_group_test.go"}, "overlay_abs": VERIFX},
    ],
    "quick": {"n": 6400, "shards": 16},
    "thorough": {"n": 256000, "shards": 16},
    "level_text": "randomised search (rapid) over policy sets, per-MX facts, message flags and histories of messages sharing the connection cache, run through the real remote target, "
                  "policy modules and ExtResolver against scripted TLS/plain MX servers and a mock DNS server on loopback; oracle = safety predicate over what the servers received. A second unit builds mx_auth blocks from generated policy lists (short and full module names) and requires every configured policy to be in force.",
    "level_note": "only safety is asserted (what must not be transmitted); the MTA-STS fetcher is stubbed (policy, no policy, or - as go-mtasts does when it cannot store a fresh policy - neither policy nor error); TLSA usages other than DANE-EE are covered by C13",
    "technique": "property-based testing (rapid) with a by-construction safety predicate over observed transmissions",
}

# properties deliberately not claimed: {"property_id":..., "reason":...}
NOT_APPLICABLE = []

FIX_COMMITS = ["b0fbfbf", "ce16772", "79536cb", "9da7ceb", "ba9a898", "cd17c24", "0f579ef", "cfad1cd", "1450983", "0eb6137", "4ba5ca6", "2f36527", "b732485", "0e0d97d", "b946db5", "3bc2b0d", "7489d42", "0cccb75", "c472f5d", "674085b", "73fcd7e", "697926b", "0e63ec2", "16c771f", "5bb0b0a", "7be8843", "debd9c3", "9790624", "e55761e", "d0b7056", "7233be6", "02f7bc3", "f261dd3", "1915aea", "aadc9de", "69322a4", "7171149", "0639e41", "bc577d7", "b73ea9f", "8aab2c0", "3c0a58c", "82642f8", "200f867", "b62153d", "bf92dcc", "cf39465", "e7f20b9", "3e83a3e", "bf86c27", "3f2da7a", "bcff0c6", "120fc92", "93b06c2", "b2cc18e", "1ded907", "8fa7332", "dd3b505", "bb7241e", "0b09b69", "3b96d3c", "519bf75", "9d0f81b", "005ad4e", "1f81636", "c76d4de", "6045322", "0b316f5", "2e6dcdc", "35d6cd5", "3e1963a", "8860700", "3d9c8f2", "f9ae0af", "e1e2630", "fdeef4a", "54ecf97", "f31dd50", "15311af", "1668afa", "643069d", "8540891", "7d9b800", "7865a17", "af54bc0", "6f9f223", "6007f3c", "3ba3d88", "6df3059", "b09fe54", "a525b13", "c3952e5", "12a4933", "4d5b9c5", "83389a6", "605f70a", "71f5844", "5f98447", "2e6cf47"]
