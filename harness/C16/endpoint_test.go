package smtp

// C16 harness, endpoint half (injected into internal/endpoint/smtp by overlay).
//
// Sub-checks:
//   wrap:     generated error trees -> Endpoint.wrapErr -> what go-smtp puts on the wire
//   helpers:  SMTPCode / SMTPEnchCode on generated trees
//   literals: every SMTPError literal and helper call site of the source tree (AST enumeration)

import (
	"fmt"
	"go/ast"
	"go/parser"
	"go/token"
	"go/types"
	"os"
	"path/filepath"
	"sort"
	"strconv"
	"strings"
	"testing"

	"github.com/emersion/go-smtp"
	"github.com/foxcpp/maddy/framework/exterrors"
	"github.com/foxcpp/maddy/framework/log"
	"github.com/foxcpp/maddy/internal/verifx"
	"pgregory.net/rapid"
	"verifkit/ev"
)

type c16Wrap struct {
	Err    *verifx.ErrNode `json:"err"`
	Mangle bool            `json:"no_smtputf8"`
	MsgID  string          `json:"msg_id"`
}

func c16GenWrap(t *rapid.T) c16Wrap {
	return c16Wrap{
		Err:    verifx.GenErr(t, rapid.IntRange(1, 4).Draw(t, "depth")),
		Mangle: rapid.Bool().Draw(t, "mangle"),
		MsgID:  rapid.SampledFrom([]string{"", "abcd1234"}).Draw(t, "msgid"),
	}
}

var c16Endp = &Endpoint{name: "smtp", Log: log.Logger{Out: log.NopOutput{}}}

// what the SMTP server writes for an error returned by a session method
func c16Wire(e *smtp.SMTPError) (code int, ench [3]int, hasEnch bool, msg string) {
	code, msg = e.Code, e.Message
	ec := e.EnhancedCode
	if ec == smtp.EnhancedCodeNotSet {
		switch cat := code / 100; cat {
		case 2, 4, 5:
			ec = smtp.EnhancedCode{cat, 0, 0}
		default:
			return code, ench, false, msg
		}
	}
	if ec == smtp.NoEnhancedCode {
		return code, ench, false, msg
	}
	return code, [3]int{ec[0], ec[1], ec[2]}, true, msg
}

func c16RunWrap(sc c16Wrap) (vs []ev.V) {
	err := sc.Err.Build()
	out := c16Endp.wrapErr(sc.MsgID, sc.Mangle, "DATA", err)
	se, ok := out.(*smtp.SMTPError)
	if !ok {
		return []ev.V{ev.Vf("wrap:not-smtp-error", "wrapErr(%s) returned %T", sc.Err, out)}
	}
	code, ench, hasEnch, msg := c16Wire(se)
	desc := fmt.Sprintf("error %s (no SMTPUTF8: %v) is answered with %d %v %q", sc.Err, sc.Mangle, code, ench, msg)
	class := code / 100
	if class != 4 && class != 5 {
		vs = append(vs, ev.Vf("wrap:code-class", "%s: basic code is neither 4yz nor 5yz", desc))
	}
	if !hasEnch || ench[0] != class {
		vs = append(vs, ev.Vf("wrap:enhanced-class-differs:"+c16Shape(sc.Err), "%s: enhanced class differs from the basic code class", desc))
	}
	temp, spec := sc.Err.Temporary()
	if spec && !sc.Err.Has("deadline") {
		want := 5
		if temp {
			want = 4
		}
		if class != want {
			vs = append(vs, ev.Vf("wrap:class-vs-treatment:"+c16Shape(sc.Err), "%s, but the failure is %s (reference classification of the tree)", desc, map[bool]string{true: "temporary", false: "permanent"}[temp]))
		}
	}
	if sc.Err.Has("deadline") && class != 4 {
		if t2, s2 := sc.Err.Temporary(); !(s2 && !t2) {
			vs = append(vs, ev.Vf("wrap:deadline-not-temporary", "%s: a deadline error that nothing marks permanent must be answered 4yz", desc))
		}
	}
	ann := sc.Err.Annotated()
	if ann == nil && !strings.HasPrefix(msg, "Internal server error") && !strings.HasPrefix(msg, "High load") {
		vs = append(vs, ev.Vf("wrap:unannotated-text", "%s: an error without SMTP annotations must get the generic text", desc))
	}
	for _, m := range sc.Err.Markers() {
		if strings.Contains(msg, m) || (len(m) > 8 && strings.Contains(msg, m[:8])) {
			vs = append(vs, ev.Vf("wrap:discloses-internal-detail", "%s: the reply contains internal detail %q", desc, m))
			break
		}
	}
	if strings.ContainsAny(msg, "\r\n") {
		// go-smtp writes the text with one PrintfLine: what follows a line break is a line of its own on the wire, without a
		// basic or an enhanced code, which the client takes for (the start of) the reply to its next command - and the text
		// is chosen by whoever the error came from (a downstream server's multi-line refusal is joined with "\n")
		vs = append(vs, ev.Vf("wrap:line-break-in-reply-text", "%s: the reply text contains a line break, the rest goes out as a line without any code", desc))
	}
	if sc.Mangle {
		for i := 0; i < len(msg); i++ {
			if msg[i] >= 0x80 {
				sig := "wrap:non-ascii-reply"
				if strings.Contains(msg, "\u0080") && c16OnlyU80(msg) {
					sig = "wrap:non-ascii-reply:U+0080"
				}
				vs = append(vs, ev.Vf(sig, "%s: non-ASCII byte in a reply to a client that did not negotiate SMTPUTF8", desc))
				break
			}
		}
	}
	return vs
}

func c16OnlyU80(s string) bool {
	for _, r := range s {
		if r > 0x80 {
			return false
		}
	}
	return true
}

func c16Shape(n *verifx.ErrNode) string {
	switch {
	case n.TempOverAnnotated():
		return "temporary-marker-over-annotated-error"
	case n.Has("smtp-helper"):
		return "helper-computed-codes"
	default:
		return "other"
	}
}

func c16InfoWrap(sc c16Wrap) ev.Info {
	reclass := false
	for n := sc.Err; n != nil; n = n.Child {
		if n.Kind == "temp" || n.Kind == "smtp-helper" || n.Kind == "smtp" {
			reclass = true
		}
	}
	_, spec := sc.Err.Temporary()
	return ev.Info{Nontrivial: sc.Err.Depth() >= 2 && reclass, Classes: []string{fmt.Sprintf("depth=%d", sc.Err.Depth()), fmt.Sprintf("specified=%v", spec), "shape=" + c16Shape(sc.Err)}}
}

// ---- helpers ------------------------------------------------------------------

type c16Helper struct {
	Err   *verifx.ErrNode `json:"err"`
	TCode int             `json:"tcode"`
	PCode int             `json:"pcode"`
	Ench  [3]int          `json:"ench"`
}

func c16RunHelper(sc c16Helper) (vs []ev.V) {
	err := sc.Err.Build()
	code := exterrors.SMTPCode(err, sc.TCode, sc.PCode)
	ench := exterrors.SMTPEnchCode(err, exterrors.EnhancedCode{sc.Ench[0], sc.Ench[1], sc.Ench[2]})
	temp, spec := sc.Err.Temporary()
	temp = temp && spec
	if code/100 != ench[0] {
		vs = append(vs, ev.Vf(fmt.Sprintf("helpers:class-mismatch:temporary=%v", temp), "SMTPCode(%s, %d, %d) = %d but SMTPEnchCode(...) = %v", sc.Err, sc.TCode, sc.PCode, code, ench))
	}
	if want := map[bool]int{true: sc.TCode, false: sc.PCode}[temp]; code != want {
		vs = append(vs, ev.Vf("helpers:SMTPCode", "SMTPCode(%s, %d, %d) = %d, the error is temporary=%v", sc.Err, sc.TCode, sc.PCode, code, temp))
	}
	if ench[1] != sc.Ench[1] || ench[2] != sc.Ench[2] {
		vs = append(vs, ev.Vf("helpers:SMTPEnchCode-detail", "SMTPEnchCode changed the subject/detail digits: %v -> %v", sc.Ench, ench))
	}
	return vs
}

// ---- literal scan -----------------------------------------------------------------

type c16Site struct {
	File string `json:"file"`
	Line int    `json:"line"`
	Func string `json:"func"`
	Code string `json:"code"` // literal, or "SMTPCode(t,p)"
	Ench string `json:"ench"` // literal "a.b.c", or "SMTPEnchCode(a.b.c)", or "" if absent
	// resolved
	CodeLit    int    `json:"code_lit,omitempty"`
	TCode      int    `json:"tcode,omitempty"`
	PCode      int    `json:"pcode,omitempty"`
	EnchClass  int    `json:"ench_class,omitempty"`
	EnchHelper bool   `json:"ench_helper,omitempty"`
	CodeArg    string `json:"code_arg,omitempty"` // the error expression SMTPCode classifies
	EnchArg    string `json:"ench_arg,omitempty"` // the error expression SMTPEnchCode classifies
	Unresolved string `json:"unresolved,omitempty"`
}

func c16IntLit(e ast.Expr) (int, bool) {
	if b, ok := e.(*ast.BasicLit); ok && b.Kind == token.INT {
		v, err := strconv.Atoi(b.Value)
		return v, err == nil
	}
	return 0, false
}

func c16SelName(e ast.Expr) string {
	switch x := e.(type) {
	case *ast.SelectorExpr:
		return x.Sel.Name
	case *ast.Ident:
		return x.Name
	}
	return ""
}

func c16EnchLit(e ast.Expr) (string, int, bool) {
	cl, ok := e.(*ast.CompositeLit)
	if !ok || len(cl.Elts) != 3 {
		return "", 0, false
	}
	var parts []string
	first := 0
	for i, el := range cl.Elts {
		v, ok := c16IntLit(el)
		if !ok {
			return "", 0, false
		}
		if i == 0 {
			first = v
		}
		parts = append(parts, strconv.Itoa(v))
	}
	return strings.Join(parts, "."), first, true
}

func c16Scan(repo string) ([]c16Site, error) {
	var sites []c16Site
	fset := token.NewFileSet()
	err := filepath.Walk(repo, func(path string, info os.FileInfo, err error) error {
		if err != nil {
			return err
		}
		if info.IsDir() {
			if n := info.Name(); n == ".git" || n == "tests" || n == "testutils" || n == "docs" {
				return filepath.SkipDir
			}
			return nil
		}
		if !strings.HasSuffix(path, ".go") || strings.HasSuffix(path, "_test.go") {
			return nil
		}
		f, err := parser.ParseFile(fset, path, nil, 0)
		if err != nil {
			return nil
		}
		rel, _ := filepath.Rel(repo, path)
		for _, decl := range f.Decls {
			fn, ok := decl.(*ast.FuncDecl)
			fname := ""
			var body ast.Node = decl
			if ok {
				fname = fn.Name.Name
				if fn.Body == nil {
					continue
				}
				body = fn.Body
			}
			ast.Inspect(body, func(n ast.Node) bool {
				cl, ok := n.(*ast.CompositeLit)
				if !ok || c16SelName(cl.Type) != "SMTPError" {
					return true
				}
				s := c16Site{File: rel, Line: fset.Position(cl.Pos()).Line, Func: fname}
				hasCode := false
				for _, el := range cl.Elts {
					kv, ok := el.(*ast.KeyValueExpr)
					if !ok {
						continue
					}
					switch c16SelName(kv.Key) {
					case "Code":
						hasCode = true
						if v, ok := c16IntLit(kv.Value); ok {
							s.Code, s.CodeLit = strconv.Itoa(v), v
						} else if call, ok := kv.Value.(*ast.CallExpr); ok && c16SelName(call.Fun) == "SMTPCode" && len(call.Args) == 3 {
							t, ok1 := c16IntLit(call.Args[1])
							p, ok2 := c16IntLit(call.Args[2])
							if ok1 && ok2 {
								s.Code, s.TCode, s.PCode = fmt.Sprintf("SMTPCode(%d,%d)", t, p), t, p
								s.CodeArg = types.ExprString(call.Args[0])
							} else {
								s.Unresolved = "SMTPCode with non-literal codes"
							}
						} else {
							s.Unresolved = "non-literal Code"
						}
					case "EnhancedCode":
						if txt, first, ok := c16EnchLit(kv.Value); ok {
							s.Ench, s.EnchClass = txt, first
						} else if call, ok := kv.Value.(*ast.CallExpr); ok && c16SelName(call.Fun) == "SMTPEnchCode" && len(call.Args) == 2 {
							if txt, _, ok := c16EnchLit(call.Args[1]); ok {
								s.Ench, s.EnchHelper = "SMTPEnchCode("+txt+")", true
								s.EnchArg = types.ExprString(call.Args[0])
							} else {
								s.Unresolved = "SMTPEnchCode with a non-literal code"
							}
						} else if s.Unresolved == "" {
							s.Unresolved = "non-literal EnhancedCode"
						}
					}
				}
				if hasCode {
					sites = append(sites, s)
				}
				return true
			})
		}
		return nil
	})
	sort.Slice(sites, func(i, j int) bool {
		if sites[i].File != sites[j].File {
			return sites[i].File < sites[j].File
		}
		return sites[i].Line < sites[j].Line
	})
	return sites, err
}

func c16RunSite(s c16Site) (vs []ev.V) {
	if s.Unresolved != "" {
		return nil
	}
	sig := fmt.Sprintf("literal:%s:%s:%s/%s", s.File, s.Func, s.Code, s.Ench)
	where := fmt.Sprintf("%s:%d (%s)", s.File, s.Line, s.Func)
	evalEnch := func(temporary bool) int {
		if !s.EnchHelper {
			return s.EnchClass
		}
		var inner error = exterrors.WithTemporary(fmt.Errorf("x"), temporary)
		return exterrors.SMTPEnchCode(inner, exterrors.EnhancedCode{0, 1, 1})[0]
	}
	switch {
	case s.TCode != 0:
		if s.TCode/100 != 4 || s.PCode/100 != 5 {
			vs = append(vs, ev.Vf(sig, "%s: SMTPCode(err, %d, %d): the temporary code must be 4yz and the permanent one 5yz", where, s.TCode, s.PCode))
		}
		if s.Ench == "" {
			return vs // enhanced code left to the server default, which follows the basic code
		}
		if s.EnchHelper && s.CodeArg != s.EnchArg {
			vs = append(vs, ev.Vf(sig, "%s: the basic code is chosen by the class of %s, the enhanced code by the class of %s: the two can disagree", where, s.CodeArg, s.EnchArg))
		}
		for _, temp := range []bool{true, false} {
			code := map[bool]int{true: s.TCode, false: s.PCode}[temp]
			if e := evalEnch(temp); e != code/100 {
				vs = append(vs, ev.Vf(sig, "%s: for a %s inner error the reply is %d with enhanced class %d", where, map[bool]string{true: "temporary", false: "permanent"}[temp], code, e))
				break
			}
		}
	default:
		c := s.CodeLit / 100
		if c != 4 && c != 5 {
			if c == 2 || c == 3 {
				return nil // not a failure
			}
			vs = append(vs, ev.Vf(sig, "%s: basic code %d is not a failure class", where, s.CodeLit))
			return vs
		}
		if s.Ench == "" {
			return nil
		}
		for _, temp := range []bool{true, false} {
			if e := evalEnch(temp); e != c {
				vs = append(vs, ev.Vf(sig, "%s: basic code %d with enhanced class %d", where, s.CodeLit, e))
				break
			}
		}
	}
	return vs
}

func TestVerifC16Endpoint(t *testing.T) {
	r := ev.Get("C16")
	r.Rule("wrap/queue: error trees of depth 1-4 over {bare error, EOF, DNS temporary/timeout/not-found, network time-out, context deadline, SMTP-annotated error with coherent codes, " +
		"annotated error whose codes come from SMTPCode/SMTPEnchCode of the inner error, WithTemporary(true|false), WithFields, fmt %w}, with ASCII / non-ASCII / U+0080 / multi-line messages, " +
		"passed through the endpoint's reply conversion (SMTPUTF8 negotiated or not) and through the queue (a scripted target fails with the error; retry behaviour and the failure report are observed). " +
		"Non-trivial = depth >= 2 with at least one node that (re)classifies the error. literals: every exterrors.SMTPError / smtp.SMTPError composite literal with a Code field in the non-test " +
		"sources (AST enumeration of the current tree), helper call sites evaluated with a temporary and a permanent inner error; every resolvable site counts as non-trivial. Distinct = distinct tree / site.")
	ev.Run(t, r, ev.Spec[c16Wrap]{Name: "wrap", N: r.N, Gen: c16GenWrap, Run: c16RunWrap, Info: c16InfoWrap})
	ev.Run(t, r, ev.Spec[c16Helper]{Name: "helpers", N: r.Scale(1, 4, 100), Gen: func(t *rapid.T) c16Helper {
		return c16Helper{Err: verifx.GenErr(t, rapid.IntRange(1, 4).Draw(t, "depth")),
			TCode: rapid.SampledFrom([]int{451, 450, 421}).Draw(t, "t"), PCode: rapid.SampledFrom([]int{554, 550, 552}).Draw(t, "p"),
			Ench: [3]int{rapid.SampledFrom([]int{0, 4, 5}).Draw(t, "e0"), rapid.IntRange(0, 7).Draw(t, "e1"), rapid.IntRange(0, 30).Draw(t, "e2")}}
	}, Run: c16RunHelper, Info: func(sc c16Helper) ev.Info { return ev.Info{Nontrivial: sc.Err.Depth() >= 2} }})
	if r.Shard == 0 {
		repo := os.Getenv("VERIF_REPO")
		if repo == "" {
			repo = "/repo"
		}
		sites, err := c16Scan(repo)
		if err != nil || len(sites) < 20 {
			r.HarnessError("literal scan found only %d sites (err %v)", len(sites), err)
		}
		unresolved := 0
		for _, s := range sites {
			if s.Unresolved != "" {
				unresolved++
			}
		}
		r.Extra("literal_sites", len(sites))
		r.Extra("literal_sites_unresolved", unresolved)
		ev.Enumerate(t, r, "literals", true, func(yield func(c16Site) bool) {
			for _, s := range sites {
				if !yield(s) {
					return
				}
			}
		}, c16RunSite, func(s c16Site) ev.Info {
			return ev.Info{Nontrivial: s.Unresolved == "", Key: fmt.Sprintf("%s:%s:%s/%s:%d", s.File, s.Func, s.Code, s.Ench, s.Line)}
		})
	}
}
