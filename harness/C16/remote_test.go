package remote

// C16, target.remote: the summary error of a delivery whose recipients ended
// differently (multipleErrs, used by the atomic Body path). It is answered as
// temporary only if some recipient failed temporarily: recipients that were
// delivered (nil) or failed permanently must not turn it into a retry.

import (
	"errors"
	"fmt"
	"sort"
	"testing"

	"github.com/foxcpp/maddy/framework/exterrors"
	"pgregory.net/rapid"
	"verifkit/ev"
)

type c16rCase struct {
	Outcomes []string `json:"outcomes"` // per recipient: ok | temp | perm | temp-smtp | perm-smtp | plain
}

func c16rRun(c c16rCase) (vs []ev.V) {
	m := &multipleErrs{errs: map[string]error{}}
	anyTemp, anyFail := false, false
	for i, o := range c.Outcomes {
		var err error
		switch o {
		case "temp":
			err, anyTemp = exterrors.WithTemporary(errors.New("try later"), true), true
		case "perm":
			err = exterrors.WithTemporary(errors.New("no"), false)
		case "temp-smtp":
			err, anyTemp = &exterrors.SMTPError{Code: 451, EnhancedCode: exterrors.EnhancedCode{4, 2, 0}, Message: "later"}, true
		case "perm-smtp":
			err = &exterrors.SMTPError{Code: 550, EnhancedCode: exterrors.EnhancedCode{5, 1, 1}, Message: "no such user"}
		case "plain":
			err = errors.New("unclassified") // IsTemporary() is false for it
		}
		if err != nil {
			anyFail = true
		}
		m.SetStatus(fmt.Sprintf("rcpt%d@example.org", i), err)
	}
	if !anyFail {
		return nil
	}
	f := m.Fields()
	code, _ := f["smtp_code"].(int)
	ench, _ := f["smtp_enchcode"].(exterrors.EnhancedCode)
	sorted := append([]string(nil), c.Outcomes...)
	sort.Strings(sorted)
	if ench[0] != code/100 {
		vs = append(vs, ev.Vf("partial-failure:class-mismatch", "outcomes %v: %d %v", c.Outcomes, code, ench))
	}
	if (code/100 == 4) != anyTemp {
		shape := "permanent-only-answered-4yz"
		if anyTemp {
			shape = "temporary-answered-5yz"
		}
		vs = append(vs, ev.Vf("partial-failure:class-vs-outcomes:"+shape, "outcomes %v (a recipient failed temporarily: %v): the delivery is answered %d %v", c.Outcomes, anyTemp, code, ench))
	}
	return vs
}

func TestVerifC16Remote(t *testing.T) {
	r := ev.Get("C16")
	ev.Run(t, r, ev.Spec[c16rCase]{Name: "partial-failure", N: r.Scale(1, 8, 200), Gen: func(t *rapid.T) c16rCase {
		return c16rCase{Outcomes: rapid.SliceOfN(rapid.SampledFrom([]string{"ok", "ok", "temp", "perm", "temp-smtp", "perm-smtp", "plain"}), 1, 5).Draw(t, "outcomes")}
	}, Run: c16rRun, Info: func(c c16rCase) ev.Info {
		ok, fail := false, false
		for _, o := range c.Outcomes {
			if o == "ok" {
				ok = true
			} else {
				fail = true
			}
		}
		return ev.Info{Nontrivial: ok && fail}
	}})
}
