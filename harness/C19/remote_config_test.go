package remote

// C19, configuration layer: the idle lifetime and idle count an operator
// configures on target.remote (conn_max_idle_time, conn_max_idle_count) are the
// ones the connection cache enforces - a connection idle for longer than the
// configured time is never handed out again, and no more than the configured
// number of idle connections is kept. The target is built through its real
// New + Init from a generated configuration block and talks to a scripted
// next hop over loopback; real time (the directive counts whole seconds).

import (
	"context"
	"fmt"
	"net"
	"testing"
	"time"

	"github.com/emersion/go-message/textproto"
	"github.com/emersion/go-smtp"
	"github.com/foxcpp/go-mockdns"
	"github.com/foxcpp/maddy/framework/buffer"
	"github.com/foxcpp/maddy/framework/config"
	"github.com/foxcpp/maddy/framework/log"
	"github.com/foxcpp/maddy/framework/module"
	"github.com/foxcpp/maddy/internal/verifx"
	"pgregory.net/rapid"
	"verifkit/ev"
)

type c19cScenario struct {
	IdleTimeSec int  `json:"conn_max_idle_time"`
	IdleCount   int  `json:"conn_max_idle_count"`
	First       int  `json:"first_wave"`  // overlapping deliveries before the pause
	Second      int  `json:"second_wave"` // overlapping deliveries after it
	LongPause   bool `json:"pause_exceeds_idle_time"`
}

func c19cWave(ctx context.Context, tgt *Target, n int, tag string) error {
	hdr := textproto.Header{}
	hdr.Add("Subject", "c19 "+tag)
	var ds []module.Delivery
	for i := 0; i < n; i++ {
		d, err := tgt.Start(ctx, &module.MsgMetadata{ID: fmt.Sprintf("c19c-%s-%d", tag, i)}, "sender@src.invalid")
		if err != nil {
			return err
		}
		// the connection is taken from the cache (or opened) here and held until Commit
		if err := d.AddRcpt(ctx, "user@one.invalid", smtp.RcptOptions{}); err != nil {
			d.Abort(ctx)
			return err
		}
		ds = append(ds, d)
	}
	for _, d := range ds {
		if err := d.Body(ctx, hdr, buffer.MemoryBuffer{Slice: []byte("x\r\n")}); err != nil {
			d.Abort(ctx)
			return err
		}
		if err := d.Commit(ctx); err != nil {
			return err
		}
	}
	return nil
}

func c19cRun(sc c19cScenario) (vs []ev.V) {
	r := ev.Get("C19")
	hop, err := verifx.StartNextHop(verifx.HopConfig{Name: "mx.one.invalid", UTF8: true})
	if err != nil {
		r.HarnessError("next hop: %v", err)
		return nil
	}
	defer hop.Close()
	mod, err := New("target.remote", "verif", nil, nil)
	if err != nil {
		r.HarnessError("%v", err)
		return nil
	}
	tgt := mod.(*Target)
	tgt.Log = log.Logger{Out: log.NopOutput{}}
	if err := tgt.Init(config.NewMap(map[string]interface{}{"hostname": "mx.maddy.test"}, config.Node{Children: []config.Node{
		{Name: "conn_max_idle_time", Args: []string{fmt.Sprint(sc.IdleTimeSec)}},
		{Name: "conn_max_idle_count", Args: []string{fmt.Sprint(sc.IdleCount)}},
	}})); err != nil {
		r.HarnessError("target.remote init: %v", err)
		return nil
	}
	defer tgt.Close()
	tgt.Log = log.Logger{Out: log.NopOutput{}}
	tgt.extResolver = nil
	tgt.resolver = &mockdns.Resolver{Zones: map[string]mockdns.Zone{
		"one.invalid.":    {MX: []net.MX{{Host: "mx.one.invalid.", Pref: 10}}},
		"mx.one.invalid.": {A: []string{"127.0.0.1"}},
	}}
	tgt.dialer = func(ctx context.Context, network, addr string) (net.Conn, error) {
		return (&net.Dialer{}).DialContext(ctx, "tcp", hop.Addr)
	}
	ctx, cancel := context.WithTimeout(context.Background(), 30*time.Second)
	defer cancel()
	if err := c19cWave(ctx, tgt, sc.First, "a"); err != nil {
		r.HarnessError("first wave: %v", err)
		return nil
	}
	if got := hop.Sessions(); got != sc.First {
		r.HarnessError("first wave of %d overlapping deliveries opened %d connections", sc.First, got)
		return nil
	}
	pause := 300 * time.Millisecond
	if sc.LongPause {
		pause = time.Duration(sc.IdleTimeSec)*time.Second + 1200*time.Millisecond // whole-second granularity in the pool
	}
	time.Sleep(pause)
	if err := c19cWave(ctx, tgt, sc.Second, "b"); err != nil {
		r.HarnessError("second wave: %v", err)
		return nil
	}
	opened := hop.Sessions() - sc.First
	reused := sc.Second - opened
	if sc.LongPause && reused > 0 {
		vs = append(vs, ev.Vf("config:idle-time-not-enforced", "conn_max_idle_time %d s: after a pause of %v, %d of %d deliveries were made over connections cached before the pause", sc.IdleTimeSec, pause, reused, sc.Second))
	}
	keep := sc.IdleCount
	if sc.First < keep {
		keep = sc.First
	}
	if !sc.LongPause && reused > keep {
		vs = append(vs, ev.Vf("config:idle-count-not-enforced", "conn_max_idle_count %d: %d connections were returned, yet %d deliveries reused a cached connection", sc.IdleCount, sc.First, reused))
	}
	return vs
}

func TestVerifC19RemoteConfig(t *testing.T) {
	r := ev.Get("C19")
	ev.Run(t, r, ev.Spec[c19cScenario]{Name: "remote-config", N: r.N, Journal: true, Gen: func(t *rapid.T) c19cScenario {
		return c19cScenario{IdleTimeSec: rapid.IntRange(1, 2).Draw(t, "idle_time"), IdleCount: rapid.IntRange(1, 3).Draw(t, "idle_count"),
			First: rapid.IntRange(1, 4).Draw(t, "first"), Second: rapid.IntRange(1, 4).Draw(t, "second"), LongPause: rapid.Bool().Draw(t, "long_pause")}
	}, Run: c19cRun, Info: func(sc c19cScenario) ev.Info {
		return ev.Info{Nontrivial: sc.LongPause || sc.First > sc.IdleCount, Classes: []string{fmt.Sprintf("long_pause=%v", sc.LongPause)}}
	}})
}
