package queue

// C06, behind the queue: "if any check or the DMARC policy quarantines, every
// target sees the message flagged as quarantined" - also the target that sits
// behind a queue (the stock configuration puts target.remote there, which
// refuses quarantined mail). The pipeline raises the flag on the shared
// meta-data at the body stage, after the queue's Start and AddRcpt; it must
// reach the downstream target on the first attempt, on retries and after a
// restart.

import (
	"fmt"
	"testing"

	"pgregory.net/rapid"
	"verifkit/ev"
)

func c06qRun(sc qScenario) (vs []ev.V) {
	h := qRun(sc, nil)
	m := sc.Msgs[0]
	if len(h.Attempts) == 0 {
		return []ev.V{ev.Vf("queue-quarantine:no-attempt", "the message was never attempted; %s", c01Events(h))}
	}
	for _, a := range h.Attempts {
		if a.Meta.Quarantine != m.Quarantine {
			return []ev.V{ev.Vf(fmt.Sprintf("queue-quarantine:flag=%v-want-%v", a.Meta.Quarantine, m.Quarantine),
				"attempt %d (after restart: %v): the target behind the queue saw Quarantine=%v, the message was accepted with %v; %s", a.N, a.AfterStop, a.Meta.Quarantine, m.Quarantine, c01Events(h))}
		}
	}
	return nil
}

func TestVerifC06Queue(t *testing.T) {
	qT = t
	r := ev.Get("C06")
	ev.Run(t, r, ev.Spec[qScenario]{Name: "behind-the-queue", N: r.Scale(1, 8, 60), Gen: func(t *rapid.T) qScenario {
		sc := c10Gen(t)
		sc.Msgs[0].Quarantine = rapid.Bool().Draw(t, "quarantine")
		return sc
	}, Run: c06qRun, Info: func(sc qScenario) ev.Info {
		retry := false
		for _, p := range sc.Msgs[0].Plans {
			if p.Start != nil || p.Body != nil || p.Commit != nil || len(p.Rcpt) > 0 || len(p.Status) > 0 {
				retry = true
			}
		}
		return ev.Info{Nontrivial: sc.Msgs[0].Quarantine && (retry || len(sc.RestartAfter) > 0), Classes: []string{fmt.Sprintf("quarantine=%v", sc.Msgs[0].Quarantine)}}
	}})
}
