module verifkit

go 1.23

require pgregory.net/rapid v1.3.0
