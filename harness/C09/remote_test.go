package remote

// C09 harness, remote target (injected into internal/target/remote by overlay).
// One Target (shared connection pool) delivers a history of 1-4 transactions
// to a scripted next hop; the per-recipient results it reports are compared,
// as a multiset of keys, with the addresses it accepted in that transaction.

import (
	"context"
	"fmt"
	"net"
	"sort"
	"strings"
	"sync"
	"testing"
	"time"

	"github.com/emersion/go-message/textproto"
	"github.com/emersion/go-smtp"
	"github.com/foxcpp/go-mockdns"
	"github.com/foxcpp/maddy/framework/buffer"
	"github.com/foxcpp/maddy/framework/log"
	"github.com/foxcpp/maddy/framework/module"
	"github.com/foxcpp/maddy/internal/limits"
	"github.com/foxcpp/maddy/internal/smtpconn/pool"
	"github.com/foxcpp/maddy/internal/verifx"
	"golang.org/x/net/idna"
	"pgregory.net/rapid"
	"verifkit/ev"
)

var c09Rcpts = []string{
	"a@example.invalid", "b@example.invalid", "A@example.invalid", "user@тест.invalid", "other@тест.invalid",
	"почта@example.invalid", "почта@тест.invalid", "c@second.invalid",
	// local parts that are quoted on the wire (the endpoint hands them over without the quotes): a space, and one that
	// reads as the end of the address followed by a parameter when it is written down as it is
	"john smith@example.invalid", "x@evil.invalid> ORCPT=rfc822;y@example.invalid",
}

type c09Tx struct {
	UTF8   bool              `json:"smtputf8"`
	From   string            `json:"from"`
	Rcpts  []int             `json:"rcpts"`
	Faults map[string]string `json:"faults,omitempty"` // mail | data | rcpt:<index>
}

type c09Scenario struct {
	HopDSN  bool    `json:"next_hop_dsn,omitempty"`
	HopUTF8 bool    `json:"next_hop_smtputf8"`
	Txs     []c09Tx `json:"transactions"`
}

func c09Gen(t *rapid.T) c09Scenario {
	sc := c09Scenario{HopUTF8: rapid.Bool().Draw(t, "hop_utf8"), HopDSN: rapid.Bool().Draw(t, "hop_dsn")}
	for i, n := 0, rapid.IntRange(1, 4).Draw(t, "ntx"); i < n; i++ {
		tx := c09Tx{From: rapid.SampledFrom([]string{"sender@example.com", "", "отправитель@тест.invalid"}).Draw(t, "from"), Faults: map[string]string{}}
		tx.Rcpts = rapid.SliceOfN(rapid.IntRange(0, len(c09Rcpts)-1), 1, 4).Draw(t, "rcpts")
		tx.UTF8 = rapid.Bool().Draw(t, "utf8")
		for _, r := range tx.Rcpts {
			if strings.HasPrefix(c09Rcpts[r], "почта") {
				tx.UTF8 = true // the endpoint does not accept such recipients without SMTPUTF8
			}
		}
		if strings.HasPrefix(tx.From, "отправитель") {
			tx.UTF8 = true
		}
		for k, m := 0, rapid.SampledFrom([]int{0, 0, 1, 1, 2}).Draw(t, "nfaults"); k < m; k++ {
			key := rapid.SampledFrom([]string{"mail", "data", "rcpt"}).Draw(t, "faultat")
			if key == "rcpt" {
				key = fmt.Sprintf("rcpt:%d", rapid.SampledFrom(tx.Rcpts).Draw(t, "faultrcpt"))
			}
			tx.Faults[key] = rapid.SampledFrom([]string{"T", "P", "T421"}).Draw(t, "class")
		}
		if rapid.IntRange(0, 11).Draw(t, "slowrcpt") == 0 {
			// the reply to one RCPT comes later than command_timeout allows (and the next hop refuses another recipient, likely)
			tx.Faults[fmt.Sprintf("rcpt:%d", rapid.SampledFrom(tx.Rcpts).Draw(t, "slow_rcpt"))] = "slow"
			if other := rapid.SampledFrom(tx.Rcpts).Draw(t, "refused_rcpt"); tx.Faults[fmt.Sprintf("rcpt:%d", other)] == "" {
				tx.Faults[fmt.Sprintf("rcpt:%d", other)] = "P"
			}
		}
		switch rapid.IntRange(0, 9).Draw(t, "bodyfault") {
		case 0:
			tx.Faults["bodyopen"] = "io"
		case 1:
			tx.Faults["bodyread"] = fmt.Sprint(rapid.SampledFrom([]int{0, 1, 3, 5}).Draw(t, "bodyread_after"))
		}
		sc.Txs = append(sc.Txs, tx)
	}
	return sc
}

type c09Collector struct {
	mu   sync.Mutex
	keys []string
	ok   []string // keys reported without an error
}

func (c *c09Collector) SetStatus(rcpt string, err error) {
	c.mu.Lock()
	c.keys = append(c.keys, rcpt)
	if err == nil {
		c.ok = append(c.ok, rcpt)
	}
	c.mu.Unlock()
}

func c09Names(idx []int) []string {
	var out []string
	for _, i := range idx {
		out = append(out, c09Rcpts[i])
	}
	return out
}

func c09ASCII(addr string) string {
	at := strings.LastIndexByte(addr, '@')
	if at < 0 {
		return addr
	}
	d, err := idna.ToASCII(addr[at+1:])
	if err != nil {
		return addr
	}
	return addr[:at+1] + d
}

func c09Target(hopAddr string) *Target {
	zones := map[string]mockdns.Zone{
		"example.invalid.":    {MX: []net.MX{{Host: "mx.example.invalid.", Pref: 10}}},
		"тест.invalid.":       {MX: []net.MX{{Host: "mx.example.invalid.", Pref: 10}}},
		"second.invalid.":     {MX: []net.MX{{Host: "mx.example.invalid.", Pref: 10}}},
		"mx.example.invalid.": {A: []string{"127.0.0.1"}},
	}
	return &Target{
		name: "remote", hostname: "mx.maddy.test",
		resolver: &mockdns.Resolver{Zones: zones},
		dialer: func(ctx context.Context, network, addr string) (net.Conn, error) {
			return (&net.Dialer{}).DialContext(ctx, "tcp", hopAddr)
		},
		Log:            log.Logger{Out: log.NopOutput{}},
		limits:         &limits.Group{},
		pool:           pool.New(pool.Config{MaxKeys: 5000, MaxConnsPerKey: 5, MaxConnLifetimeSec: 150, StaleKeyLifetimeSec: 300}),
		connReuseLimit: 10,
		// replies scripted as "slow" come later than that
		commandTimeout: 150 * time.Millisecond,
	}
}

func c09Run(sc c09Scenario) (vs []ev.V) {
	hop, err := verifx.StartNextHop(verifx.HopConfig{Name: "mx.example.invalid", UTF8: sc.HopUTF8, DSN: sc.HopDSN})
	if err != nil {
		ev.Get("C09").HarnessError("cannot start the next hop: %v", err)
		return nil
	}
	defer hop.Close()
	tgt := c09Target(hop.Addr)
	defer tgt.Close()
	ctx, cancel := context.WithTimeout(context.Background(), 20*time.Second)
	defer cancel()
	hdr := textproto.Header{}
	hdr.Add("Subject", "c09")
	c09Reused = false
	for ti, tx := range sc.Txs {
		hop.ResetScript()
		for k, v := range tx.Faults {
			if strings.HasPrefix(k, "rcpt:") {
				var idx int
				fmt.Sscanf(k, "rcpt:%d", &idx)
				hop.Script("rcpt:"+c09Rcpts[idx], v)
				hop.Script("rcpt:"+c09ASCII(c09Rcpts[idx]), v)
			} else {
				hop.Script(k, v)
			}
		}
		before := hop.Sessions()
		txBefore := hop.MailCount()
		meta := &module.MsgMetadata{ID: fmt.Sprintf("c09-%d", ti), SMTPOpts: smtp.MailOptions{UTF8: tx.UTF8}}
		d, err := tgt.Start(ctx, meta, tx.From)
		if err != nil {
			continue
		}
		var accepted []string
		for _, r := range tx.Rcpts {
			if err := d.AddRcpt(ctx, c09Rcpts[r], smtp.RcptOptions{}); err == nil {
				accepted = append(accepted, c09Rcpts[r])
			}
		}
		// what the next hop refused is not accepted by the target, whatever else happened on the connection
		for _, a := range accepted {
			for k, cls := range tx.Faults {
				var idx int
				if n, _ := fmt.Sscanf(k, "rcpt:%d", &idx); n == 1 && c09Rcpts[idx] == a && cls != "slow" {
					vs = append(vs, ev.Vf("rcpt:accepted-although-next-hop-refused", "transaction %d (faults %v, connection reused=%v): AddRcpt(%q) succeeded, the next hop answers RCPT for this address with a %s failure", ti, tx.Faults, ti > 0 && hop.Sessions() == before, a, cls))
				}
			}
		}
		col := &c09Collector{}
		if len(accepted) > 0 {
			d.(module.PartialDelivery).BodyNonAtomic(ctx, col, hdr, c09Body(tx.Faults))
		}
		d.Commit(ctx)
		// "under precisely the address it was given": the next hop is asked about the addresses the target was given,
		// not about something else that the same characters spell when they are written into a command
		for _, htx := range hop.Transactions() {
			if htx.N < txBefore {
				continue // an earlier transaction that was logged only now
			}
			for _, seen := range htx.Rcpts {
				given := false
				for _, r := range tx.Rcpts {
					if seen == c09Rcpts[r] || seen == c09ASCII(c09Rcpts[r]) {
						given = true
					}
				}
				if !given {
					vs = append(vs, ev.Vf("rcpt:next-hop-asked-about-another-address", "transaction %d (next hop DSN=%v): the target was given %q, the next hop was asked about %q (refused there: %v)", ti, sc.HopDSN, c09Names(tx.Rcpts), seen, htx.RcptErr[seen] != ""))
				}
			}
		}
		if ti > 0 && hop.Sessions() == before {
			c09Reused = true
		}
		if len(accepted) == 0 {
			if len(col.keys) != 0 {
				vs = append(vs, ev.Vf("status:for-unaccepted", "transaction %d: no recipient was accepted but results were reported for %v", ti, col.keys))
			}
			continue
		}
		if (tx.Faults["bodyopen"] != "" || tx.Faults["bodyread"] != "") && len(col.ok) > 0 {
			vs = append(vs, ev.Vf("status:success-although-body-unreadable", "transaction %d: the message body could not be read (%v) but success was reported for %q", ti, tx.Faults, col.ok))
		}
		got := append([]string(nil), col.keys...)
		want := append([]string(nil), accepted...)
		sort.Strings(got)
		sort.Strings(want)
		if strings.Join(got, "\x00") != strings.Join(want, "\x00") {
			// duplicates in the recipient list: set equality is enough
			gs, ws := c09Set(got), c09Set(want)
			if strings.Join(gs, "\x00") == strings.Join(ws, "\x00") && len(ws) < len(want) {
				continue
			}
			shape := "other"
			for _, g := range gs {
				isWant := false
				for _, w := range ws {
					if g == w {
						isWant = true
					}
				}
				if !isWant {
					for _, w := range ws {
						if g == c09ASCII(w) {
							shape = "key-converted-for-next-hop"
						}
					}
					if shape == "other" && ti > 0 {
						shape = "key-from-earlier-transaction"
					}
				}
			}
			vs = append(vs, ev.Vf("status:keys-differ:"+shape, "transaction %d (next hop SMTPUTF8=%v, message SMTPUTF8=%v, connection reused=%v): accepted recipients %q, results reported for %q", ti, sc.HopUTF8, tx.UTF8, hop.Sessions() == before && ti > 0, want, got))
		}
	}
	return vs
}

var c09Reused bool

// c09Body: the message body, stored in a medium that fails when the transaction says so.
func c09Body(faults map[string]string) buffer.Buffer {
	b := verifx.FaultyBuffer{Data: []byte("body\r\n"), ReadErrAfter: -1}
	if faults["bodyopen"] != "" {
		b.OpenErr = verifx.ErrBodyOpen
	}
	if v, ok := faults["bodyread"]; ok {
		fmt.Sscan(v, &b.ReadErrAfter)
	}
	return b
}

func c09Set(xs []string) []string {
	m := map[string]bool{}
	for _, x := range xs {
		m[x] = true
	}
	var out []string
	for x := range m {
		out = append(out, x)
	}
	sort.Strings(out)
	return out
}

func c09Info(sc c09Scenario) ev.Info {
	conv, dup := false, false
	for _, tx := range sc.Txs {
		seen := map[int]bool{}
		for _, r := range tx.Rcpts {
			if seen[r] {
				dup = true
			}
			seen[r] = true
			if !sc.HopUTF8 && c09ASCII(c09Rcpts[r]) != c09Rcpts[r] {
				conv = true
			}
		}
	}
	return ev.Info{Nontrivial: conv || dup || c09Reused, Classes: []string{fmt.Sprintf("reused=%v", c09Reused), fmt.Sprintf("conversion=%v", conv), fmt.Sprintf("txs=%d", len(sc.Txs))}}
}

func TestVerifC09Remote(t *testing.T) {
	r := ev.Get("C09")
	r.Rule("remote / smtp / lmtp units: history of 1-4 transactions through ONE target instance (shared connection cache) to a scripted next hop (go-smtp server with scripted replies) with SMTPUTF8 advertised " +
		"or not (LMTP or SMTP), DSN offered or not (remote); recipient lists of 1-4 addresses (ASCII, case variant, IDN domain, non-ASCII local part, second domain, duplicates, local parts that are quoted on the wire), null / ASCII / EAI sender, 0-2 scripted failures at " +
		"MAIL / one RCPT / DATA / per-recipient LMTP status, a reply to one RCPT that comes later than command_timeout (remote). Oracle (remote, additionally): an address the next hop refuses is not accepted by the target, the next hop is asked only about addresses the target was given. Oracle: the multiset of keys passed to StatusCollector.SetStatus equals the multiset of addresses whose AddRcpt returned nil in that " +
		"transaction (set equality when the list has duplicates). pipeline unit: 1-to-N recipient rewrites in front of a per-recipient target; every reported key is an address the client supplied. " +
		"Non-trivial = an address needed conversion for the next hop, or a cached connection was reused, or a duplicate recipient. Distinct = distinct scenario.")
	ev.Run(t, r, ev.Spec[c09Scenario]{Name: "remote", Journal: true, N: r.N, Gen: c09Gen, Run: c09Run, Info: c09Info})
}
