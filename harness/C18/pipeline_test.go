package queue

// C18 through a real message pipeline: recipients are rewritten by the
// pipeline in front of the queue (globally, in a destination block, in a
// nested pipeline, in a chain), the rewritten addresses fail at the next hop,
// and the failure report has to name the addresses the sender used - never
// the targets they were rewritten to.

import (
	"context"
	"fmt"
	"sort"
	"strings"
	"testing"

	"github.com/foxcpp/maddy/framework/config"
	"github.com/foxcpp/maddy/framework/log"
	"github.com/foxcpp/maddy/framework/module"
	_ "github.com/foxcpp/maddy/internal/modify"
	"github.com/foxcpp/maddy/internal/msgpipeline"
	_ "github.com/foxcpp/maddy/internal/table"
	"github.com/foxcpp/maddy/internal/verifx"
	"pgregory.net/rapid"
	"verifkit/ev"
)

type c18pScenario struct {
	Level    string            `json:"rewrite_level"` // global | destination | reroute | chain
	Rewrites map[string]string `json:"rewrites"`      // client address -> address it is rewritten to
	Rcpts    []string          `json:"rcpts"`         // what the client sends, in order
	UTF8     bool              `json:"smtputf8"`
}

var (
	c18pClients = []string{"alias1@example.org", "alias2@example.org", "list@example.org", "plain@example.org"}
	c18pReal    = []string{"real1@example.net", "real2@example.net", "real3@example.net"}
	c18pQueue   *Queue
)

type c18pProxy struct{}

func (c18pProxy) Init(*config.Map) error { return nil }
func (c18pProxy) Name() string           { return "target.verif_qproxy" }
func (c18pProxy) InstanceName() string   { return "verif_qproxy" }
func (c18pProxy) Start(ctx context.Context, meta *module.MsgMetadata, from string) (module.Delivery, error) {
	return c18pQueue.Start(ctx, meta, from)
}

func init() {
	module.Register("target.verif_qproxy", func(_, _ string, _, _ []string) (module.Module, error) { return c18pProxy{}, nil })
}

func c18pPipeline(sc c18pScenario) (*msgpipeline.MsgPipeline, error) {
	var entries []config.Node
	var keys []string
	for k := range sc.Rewrites {
		keys = append(keys, k)
	}
	sort.Strings(keys)
	for _, k := range keys {
		entries = append(entries, config.Node{Name: "entry", Args: []string{k, sc.Rewrites[k]}})
	}
	mod := config.Node{Name: "modify", Children: []config.Node{{Name: "replace_rcpt", Args: []string{"static"}, Children: entries}}}
	deliver := config.Node{Name: "deliver_to", Args: []string{"verif_qproxy"}}
	var nodes []config.Node
	switch sc.Level {
	case "destination":
		nodes = []config.Node{{Name: "destination", Args: []string{"example.org"}, Children: []config.Node{mod, deliver}},
			{Name: "default_destination", Children: []config.Node{deliver}}}
	case "reroute":
		nodes = []config.Node{{Name: "destination", Args: []string{"example.org"}, Children: []config.Node{
			{Name: "reroute", Children: []config.Node{mod, deliver}}}},
			{Name: "default_destination", Children: []config.Node{deliver}}}
	case "two-stage":
		// the outer pipeline rewrites the client's address to an intermediate one, the nested pipeline rewrites that to the final one
		var first, second []config.Node
		for _, k := range keys {
			first = append(first, config.Node{Name: "entry", Args: []string{k, "mid-" + k}})
			second = append(second, config.Node{Name: "entry", Args: []string{"mid-" + k, sc.Rewrites[k]}})
		}
		m1 := config.Node{Name: "modify", Children: []config.Node{{Name: "replace_rcpt", Args: []string{"static"}, Children: first}}}
		m2 := config.Node{Name: "modify", Children: []config.Node{{Name: "replace_rcpt", Args: []string{"static"}, Children: second}}}
		nodes = []config.Node{m1, {Name: "reroute", Children: []config.Node{m2, deliver}}}
	case "outer-then-reroute":
		// the outer pipeline rewrites, a nested one delivers (its Start runs inside the outer AddRcpt)
		nodes = []config.Node{mod, {Name: "reroute", Children: []config.Node{deliver}}}
	default:
		nodes = []config.Node{mod, deliver}
	}
	p, err := msgpipeline.New(nil, nodes)
	if err != nil {
		return nil, err
	}
	p.Log = log.Logger{Out: log.NopOutput{}}
	return p, nil
}

func c18pRun(sc c18pScenario) (vs []ev.V) {
	// every address the queue sees fails permanently at the first attempt
	plan := qPlan{Rcpt: map[string]*verifx.ErrNode{}}
	eff := map[string]string{} // effective -> client
	for _, c := range sc.Rcpts {
		e := c
		if r, ok := sc.Rewrites[c]; ok {
			e = r
		}
		eff[e] = c
		plan.Rcpt[e] = &verifx.ErrNode{Kind: "smtp", Code: 550, Ench: [3]int{5, 1, 1}, Msg: "no such user"}
	}
	qsc := qScenario{MaxTries: 1, Bounce: "ok", Msgs: []qMsg{{ID: "c18p", From: "sender@example.com", OriginalFrom: "sender@example.com", Rcpts: sc.Rcpts,
		Header: "From: <sender@example.com>\r\nSubject: c18 pipeline\r\n", Body: "x\r\n", UTF8: sc.UTF8, Plans: []qPlan{plan}}}}
	pipe, err := c18pPipeline(sc)
	if err != nil {
		return []ev.V{ev.Vf("harness:pipeline", "%v", err)}
	}
	qStartVia = func(q *Queue, ctx context.Context, meta *module.MsgMetadata, from string) (module.Delivery, error) {
		c18pQueue = q
		meta.DontTraceSender = true
		return pipe.Start(ctx, meta, from)
	}
	defer func() { qStartVia = nil }()
	h := qRun(qsc, nil)
	if len(h.Reports) == 0 {
		return []ev.V{ev.Vf("pipeline-report:none", "every recipient failed permanently but no failure report was generated; %s", c01Events(h))}
	}
	named := map[string]int{}
	for _, rep := range h.Reports {
		for _, x := range c01ReportedRcpts(rep.Raw) {
			named[strings.ToLower(x)]++
		}
	}
	var got []string
	for k := range named {
		got = append(got, k)
	}
	sort.Strings(got)
	for e, c := range eff {
		isClient := false
		for _, x := range sc.Rcpts {
			if x == e {
				isClient = true // a chain: the image is an address the sender used as well
			}
		}
		if sc.Level == "two-stage" && e != c && named["mid-"+strings.ToLower(c)] > 0 {
			vs = append(vs, ev.Vf("pipeline-report:names-intermediate-address", "the report names mid-%s, the address %s was rewritten to on its way to %s; the sender wrote %v; reports name %v", c, c, e, sc.Rcpts, got))
		}
		if e != c && !isClient && named[strings.ToLower(e)] > 0 {
			vs = append(vs, ev.Vf("pipeline-report:names-rewritten-address:"+sc.Level, "the report names %s, the address %s was rewritten to; the sender wrote %v; reports name %v", e, c, sc.Rcpts, got))
		}
	}
	for _, c := range sc.Rcpts {
		if named[strings.ToLower(c)] != 1 {
			shape := sc.Level
			sharing := 0
			for _, c2 := range sc.Rcpts {
				if sc.Rewrites[c2] != "" && sc.Rewrites[c2] == sc.Rewrites[c] {
					sharing++
				}
			}
			if sharing >= 2 && named[strings.ToLower(c)] == 0 {
				// KNOWN_FINDINGS C18: MsgMetadata.OriginalRcpts holds one original per address
				shape = "two-recipients-rewritten-to-one-address"
			}
			vs = append(vs, ev.Vf("pipeline-report:sender-address-missing:"+shape, "the sender's recipient %s (rewritten to %q) is named %d times in the failure reports, which name %v", c, sc.Rewrites[c], named[strings.ToLower(c)], got))
		}
	}
	return vs
}

func TestVerifC18Pipeline(t *testing.T) {
	qT = t
	r := ev.Get("C18")
	ev.Run(t, r, ev.Spec[c18pScenario]{Name: "through-a-pipeline", N: r.Scale(1, 8, 50), Gen: func(t *rapid.T) c18pScenario {
		sc := c18pScenario{Level: rapid.SampledFrom([]string{"global", "destination", "reroute", "outer-then-reroute", "chain", "two-stage", "shared-image"}).Draw(t, "level"), Rewrites: map[string]string{}, UTF8: rapid.Bool().Draw(t, "utf8")}
		idx := rapid.SliceOfNDistinct(rapid.IntRange(0, len(c18pClients)-1), 1, 3, rapid.ID[int]).Draw(t, "rcpts")
		next := 0
		for _, i := range idx {
			sc.Rcpts = append(sc.Rcpts, c18pClients[i])
			if rapid.IntRange(0, 3).Draw(t, "rewritten") != 0 && next < len(c18pReal) {
				sc.Rewrites[c18pClients[i]] = c18pReal[next]
				next++
			}
		}
		if sc.Level == "shared-image" && len(sc.Rcpts) >= 2 {
			// two addresses of the sender's message are aliases of one mailbox
			sc.Rewrites[sc.Rcpts[0]] = c18pReal[0]
			sc.Rewrites[sc.Rcpts[1]] = c18pReal[0]
		}
		if sc.Level == "chain" && len(sc.Rcpts) >= 2 {
			// the first recipient is rewritten to the second one, which the client names as well and which is rewritten further
			sc.Rewrites[sc.Rcpts[0]] = sc.Rcpts[1]
			if _, ok := sc.Rewrites[sc.Rcpts[1]]; !ok {
				sc.Rewrites[sc.Rcpts[1]] = c18pReal[2]
			}
		}
		return sc
	}, Run: c18pRun, Info: func(sc c18pScenario) ev.Info {
		return ev.Info{Nontrivial: len(sc.Rewrites) > 0, Classes: []string{"level=" + sc.Level}}
	}})
}

// ---- reports cannot trigger further reports -----------------------------------------------------------------

type c18lScenario struct {
	MaxTries int  `json:"max_tries"`
	NRcpts   int  `json:"recipients"`
	Partial  bool `json:"per_recipient_target"`
	UTF8     bool `json:"smtputf8"`
}

// c18lRun: the bounce pipeline hands the report to the queue itself (as the stock configuration does for
// senders that are not local) and the report cannot be delivered either.
func c18lRun(sc c18lScenario) (vs []ev.V) {
	plan := qPlan{Rcpt: map[string]*verifx.ErrNode{}}
	var rcpts []string
	for i := 0; i < sc.NRcpts; i++ {
		r := fmt.Sprintf("rcpt%d@example.net", i)
		rcpts = append(rcpts, r)
		plan.Rcpt[r] = &verifx.ErrNode{Kind: "smtp", Code: 550, Ench: [3]int{5, 1, 1}, Msg: "no such user"}
	}
	qsc := qScenario{MaxTries: sc.MaxTries, Partial: sc.Partial, Bounce: "requeue", Msgs: []qMsg{{ID: "c18l", From: "sender@example.com", OriginalFrom: "sender@example.com", Rcpts: rcpts,
		Header: "From: <sender@example.com>\r\nSubject: c18 loop\r\n", Body: "x\r\n", UTF8: sc.UTF8, Plans: []qPlan{plan}}}}
	h := qRun(qsc, nil)
	if h.Hang {
		return []ev.V{ev.Vf("report-loop:never-settles", "the queue still holds messages after %v of virtual time; %d reports generated; %s", qHorizon, len(h.Reports), c01Events(h))}
	}
	if len(h.Reports) != 1 {
		var about []string
		for _, rep := range h.Reports {
			about = append(about, fmt.Sprintf("to %v naming %v", rep.Rcpts, c01ReportedRcpts(rep.Raw)))
		}
		return []ev.V{ev.Vf(fmt.Sprintf("report-loop:%d-reports", len(h.Reports)), "one message failed and its failure report could not be delivered either: %d reports were generated (%s); a report about a report must never be made; %s",
			len(h.Reports), strings.Join(about, "; "), c01Events(h))}
	}
	return nil
}

func TestVerifC18Loop(t *testing.T) {
	qT = t
	r := ev.Get("C18")
	ev.Run(t, r, ev.Spec[c18lScenario]{Name: "report-about-report", N: r.Scale(1, 16, 30), Gen: func(t *rapid.T) c18lScenario {
		return c18lScenario{MaxTries: rapid.IntRange(1, 3).Draw(t, "max_tries"), NRcpts: rapid.IntRange(1, 3).Draw(t, "nrcpts"), Partial: rapid.Bool().Draw(t, "partial"), UTF8: rapid.Bool().Draw(t, "utf8")}
	}, Run: c18lRun, Info: func(sc c18lScenario) ev.Info { return ev.Info{Nontrivial: true} }})
}
