package msgpipeline

// C04 harness (injected into internal/msgpipeline by overlay).
//
// A pipeline configuration is generated as a data structure, rendered to a
// config.Node tree and loaded with msgpipeline.New (real directive parsers,
// real replace_rcpt modifier, harness tables and recording targets). Envelopes
// over the same address alphabet are pushed through it. The oracle is an
// independent model of docs/reference/smtp-pipeline.md that works on base
// identities (local-part index, domain index) and never calls maddy's
// normalisation.

import (
	"context"
	"errors"
	"fmt"
	"regexp"
	"sort"
	"strings"
	"testing"

	"github.com/emersion/go-message/textproto"
	"github.com/emersion/go-smtp"
	"github.com/foxcpp/maddy/framework/address"
	"github.com/foxcpp/maddy/framework/buffer"
	"github.com/foxcpp/maddy/framework/config"
	"github.com/foxcpp/maddy/framework/exterrors"
	"github.com/foxcpp/maddy/framework/log"
	"github.com/foxcpp/maddy/framework/module"
	_ "github.com/foxcpp/maddy/internal/table"
	"golang.org/x/net/idna"
	"golang.org/x/text/unicode/norm"
	"pgregory.net/rapid"
	"verifkit/ev"
)

var (
	c04Locals  = []string{"a", "b", "ab"}
	c04Domains = []string{"example.org", "bücher.example", "other.net"}
)

// c04Addr is an address (Local >= 0) or a bare domain (Local == -1) in a given spelling.
// Form: 0 canonical, 1 upper-case local part, 2 upper-case domain, 3 NFD domain, 4 A-label domain, 5 upper-case A-label domain
type c04Addr struct {
	Local int `json:"l"`
	Dom   int `json:"d"`
	Form  int `json:"f"`
}

func (a c04Addr) id() string { // base identity
	if a.Local < 0 {
		return c04Domains[a.Dom]
	}
	return c04Locals[a.Local] + "@" + c04Domains[a.Dom]
}

func (a c04Addr) String() string {
	dom := c04Domains[a.Dom]
	local := ""
	if a.Local >= 0 {
		local = c04Locals[a.Local]
	}
	switch a.Form {
	case 1:
		local = strings.ToUpper(local)
	case 2:
		dom = strings.ToUpper(dom)
	case 3:
		dom = norm.NFD.String(dom)
	case 4, 5:
		ad, err := idna.ToASCII(dom)
		if err != nil {
			panic(err)
		}
		dom = ad
		if a.Form == 5 {
			dom = strings.ToUpper(dom)
		}
	}
	if a.Local < 0 {
		return dom
	}
	return local + "@" + dom
}

type c04Rewrite struct {
	// identity of the original address -> replacement addresses (canonical spelling in the table)
	From c04Addr   `json:"from"`
	To   []c04Addr `json:"to"`
	// key and values are bare local parts: the recipient keeps its domain
	LocalOnly bool `json:"local_only,omitempty"`
	// a second replace_rcpt in the same modify block, applied to every result of the first
	Then *c04Rewrite `json:"then,omitempty"`
}

type c04DstBlock struct {
	Rewrite *c04Rewrite `json:"rewrite,omitempty"`
	Reject  int         `json:"reject,omitempty"`
	Targets []string    `json:"targets,omitempty"`
	Reroute *c04Pipe    `json:"reroute,omitempty"`
	Empty   bool        `json:"empty,omitempty"` // neither reject nor targets: no decision
}

type c04DstRule struct {
	Table bool `json:"table,omitempty"`
	// the table is the bundled table.regexp in the form the documentation gives for *_in directives: one argument,
	// an alternation of the (quoted) keys, "acting as a regexp match check"
	Regexp bool        `json:"regexp_table,omitempty"`
	Keys   []c04Addr   `json:"keys"`
	Block  c04DstBlock `json:"block"`
}

type c04SrcBlock struct {
	Rewrite *c04Rewrite  `json:"rewrite,omitempty"`
	Dsts    []c04DstRule `json:"dsts,omitempty"`
	Default *c04DstBlock `json:"default,omitempty"`
	// no destination rules at all: the block itself is the decision
	Direct *c04DstBlock `json:"direct,omitempty"`
	// invalid shapes
	MissingDefault bool `json:"missing_default,omitempty"` // destination rules without default_destination
	EmptyDefault   bool `json:"empty_default,omitempty"`   // default_destination { }
}

type c04SrcRule struct {
	Table  bool        `json:"table,omitempty"`
	Regexp bool        `json:"regexp_table,omitempty"`
	Keys   []c04Addr   `json:"keys"`
	Block  c04SrcBlock `json:"block"`
}

type c04Pipe struct {
	Rewrite *c04Rewrite  `json:"rewrite,omitempty"`
	Srcs    []c04SrcRule `json:"srcs,omitempty"`
	Default *c04SrcBlock `json:"default,omitempty"`
	Direct  *c04SrcBlock `json:"direct,omitempty"` // no source rules: root is the source block
	// invalid shape
	MissingDefault bool `json:"missing_default,omitempty"`
}

type c04Envelope struct {
	From  *c04Addr  `json:"from"` // nil = null sender
	Rcpts []c04Addr `json:"rcpts"`
}

type c04Scenario struct {
	Pipe c04Pipe       `json:"pipeline"`
	Envs []c04Envelope `json:"envelopes"`
}

// ---- generation ------------------------------------------------------------------------------

type c04G struct {
	t    *rapid.T
	ntgt int
}

func (g *c04G) addr(domainOnly bool) c04Addr {
	a := c04Addr{Local: rapid.IntRange(0, len(c04Locals)-1).Draw(g.t, "local"), Dom: rapid.SampledFrom([]int{0, 0, 1, 1, 2}).Draw(g.t, "dom")}
	if domainOnly {
		a.Local = -1
	}
	forms := []int{0, 0, 0, 2}
	if a.Local >= 0 {
		forms = append(forms, 1)
	}
	if a.Dom == 1 {
		forms = append(forms, 3, 4, 5)
	}
	a.Form = rapid.SampledFrom(forms).Draw(g.t, "form")
	return a
}

func (g *c04G) keys(table bool) []c04Addr {
	n := rapid.SampledFrom([]int{1, 1, 2}).Draw(g.t, "nkeys")
	var ks []c04Addr
	for i := 0; i < n; i++ {
		k := g.addr(!table && rapid.Bool().Draw(g.t, "domainrule"))
		if table {
			k.Form = 0 // table contents are pre-normalised
		}
		ks = append(ks, k)
	}
	return ks
}

func (g *c04G) rewrite(p int) *c04Rewrite {
	if rapid.IntRange(0, p).Draw(g.t, "rw") != 0 {
		return nil
	}
	rw := &c04Rewrite{From: g.addr(false)}
	rw.From.Form = 0
	for i, n := 0, rapid.SampledFrom([]int{1, 1, 2}).Draw(g.t, "nto"); i < n; i++ {
		to := g.addr(false)
		to.Form = 0
		rw.To = append(rw.To, to)
	}
	rw.LocalOnly = rapid.IntRange(0, 3).Draw(g.t, "local_only") == 0
	if rapid.IntRange(0, 2).Draw(g.t, "then") == 0 {
		th := &c04Rewrite{From: rapid.SampledFrom(rw.To).Draw(g.t, "then_from"), LocalOnly: rapid.IntRange(0, 3).Draw(g.t, "then_local_only") == 0}
		if rapid.IntRange(0, 3).Draw(g.t, "then_other") == 0 {
			th.From = g.addr(false)
			th.From.Form = 0
		}
		for i, n := 0, rapid.SampledFrom([]int{1, 2, 2}).Draw(g.t, "then_nto"); i < n; i++ {
			to := g.addr(false)
			to.Form = 0
			th.To = append(th.To, to)
		}
		rw.Then = th
	}
	return rw
}

func (g *c04G) dstBlock(depth int) c04DstBlock {
	b := c04DstBlock{Rewrite: g.rewrite(4)}
	k := rapid.IntRange(0, 9).Draw(g.t, "decision")
	if k == 4 && rapid.IntRange(0, 4).Draw(g.t, "really_empty") != 0 {
		k = 5
	}
	switch {
	case k <= 2:
		b.Reject = rapid.SampledFrom([]int{550, 551, 552, 553, 554, 521, 450, 451}).Draw(g.t, "code")
	case k == 3 && depth < 2:
		p := g.pipe(depth + 1)
		b.Reroute = &p
	case k == 4:
		b.Empty = true
	default:
		n := rapid.SampledFrom([]int{1, 1, 1, 2}).Draw(g.t, "ntargets")
		for i := 0; i < n; i++ {
			b.Targets = append(b.Targets, fmt.Sprintf("t%d", rapid.IntRange(0, 3).Draw(g.t, "tgt")))
		}
	}
	return b
}

func (g *c04G) srcBlock(depth int) c04SrcBlock {
	b := c04SrcBlock{Rewrite: g.rewrite(5)}
	n := rapid.SampledFrom([]int{0, 0, 1, 2, 3}).Draw(g.t, "ndst")
	if n == 0 {
		d := g.dstBlock(depth)
		d.Rewrite = nil
		b.Direct = &d
		return b
	}
	for i := 0; i < n; i++ {
		tbl := rapid.IntRange(0, 3).Draw(g.t, "dst_table") == 0
		b.Dsts = append(b.Dsts, c04DstRule{Table: tbl, Regexp: tbl && rapid.IntRange(0, 2).Draw(g.t, "regexp_table") == 0, Keys: g.keys(tbl), Block: g.dstBlock(depth)})
	}
	switch rapid.IntRange(0, 39).Draw(g.t, "dst_default") {
	case 0:
		b.MissingDefault = true
	case 1:
		b.EmptyDefault = true
	default:
		d := g.dstBlock(depth)
		b.Default = &d
	}
	return b
}

func (g *c04G) pipe(depth int) c04Pipe {
	p := c04Pipe{Rewrite: g.rewrite(6)}
	n := rapid.SampledFrom([]int{0, 0, 1, 2, 3}).Draw(g.t, "nsrc")
	if n == 0 {
		b := g.srcBlock(depth)
		b.Rewrite = nil
		p.Direct = &b
		return p
	}
	for i := 0; i < n; i++ {
		tbl := rapid.IntRange(0, 3).Draw(g.t, "src_table") == 0
		p.Srcs = append(p.Srcs, c04SrcRule{Table: tbl, Regexp: tbl && rapid.IntRange(0, 2).Draw(g.t, "regexp_table") == 0, Keys: g.keys(tbl), Block: g.srcBlock(depth)})
	}
	if rapid.IntRange(0, 29).Draw(g.t, "src_default") == 0 {
		p.MissingDefault = true
	} else {
		b := g.srcBlock(depth)
		p.Default = &b
	}
	return p
}

func c04Gen(t *rapid.T) c04Scenario {
	g := &c04G{t: t}
	sc := c04Scenario{Pipe: g.pipe(0)}
	for i, n := 0, rapid.IntRange(1, 3).Draw(t, "nenv"); i < n; i++ {
		e := c04Envelope{}
		if rapid.IntRange(0, 7).Draw(t, "nullsender") != 0 {
			a := g.addr(false)
			e.From = &a
		}
		for j, m := 0, rapid.IntRange(1, 3).Draw(t, "nrcpt"); j < m; j++ {
			e.Rcpts = append(e.Rcpts, g.addr(false))
		}
		sc.Envs = append(sc.Envs, e)
	}
	return sc
}

// ---- rendering to config nodes --------------------------------------------------------------------

func c04RenderRewrite(rw *c04Rewrite) config.Node {
	var mods []config.Node
	for ; rw != nil; rw = rw.Then {
		var tos []string
		for _, t := range rw.To {
			if rw.LocalOnly {
				tos = append(tos, c04Locals[t.Local])
			} else {
				tos = append(tos, t.id())
			}
		}
		key := rw.From.id()
		if rw.LocalOnly {
			key = c04Locals[rw.From.Local]
		}
		mods = append(mods, config.Node{Name: "replace_rcpt", Args: []string{"verif_map", key, strings.Join(tos, ",")}})
	}
	return config.Node{Name: "modify", Children: mods}
}

func c04RenderDst(b c04DstBlock) []config.Node {
	nodes := []config.Node{}
	if b.Rewrite != nil {
		nodes = append(nodes, c04RenderRewrite(b.Rewrite))
	}
	switch {
	case b.Reject != 0:
		nodes = append(nodes, config.Node{Name: "reject", Args: []string{fmt.Sprint(b.Reject), fmt.Sprintf("%d.7.0", b.Reject/100), "verif reject"}})
	case b.Reroute != nil:
		nodes = append(nodes, config.Node{Name: "reroute", Children: c04RenderPipe(*b.Reroute)})
	case b.Empty:
	default:
		for _, t := range b.Targets {
			nodes = append(nodes, config.Node{Name: "deliver_to", Args: []string{"verif_tgt", t}})
		}
	}
	return nodes
}

// c04TableArgs: the table of a *_in directive - the harness set table, or table.regexp with one argument.
func c04TableArgs(re bool, keys []c04Addr) []string {
	if !re {
		return append([]string{"verif_set"}, c04KeyArgs(keys)...)
	}
	var alts []string
	for _, k := range keys {
		alts = append(alts, regexp.QuoteMeta(k.String()))
	}
	return []string{"regexp", strings.Join(alts, "|")}
}

func c04KeyArgs(keys []c04Addr) []string {
	var out []string
	for _, k := range keys {
		out = append(out, k.String())
	}
	return out
}

func c04RenderSrc(b c04SrcBlock) []config.Node {
	nodes := []config.Node{}
	if b.Rewrite != nil {
		nodes = append(nodes, c04RenderRewrite(b.Rewrite))
	}
	if b.Direct != nil {
		return append(nodes, c04RenderDst(*b.Direct)...)
	}
	for _, d := range b.Dsts {
		if d.Table {
			nodes = append(nodes, config.Node{Name: "destination_in", Args: c04TableArgs(d.Regexp, d.Keys), Children: c04RenderDst(d.Block)})
		} else {
			nodes = append(nodes, config.Node{Name: "destination", Args: c04KeyArgs(d.Keys), Children: c04RenderDst(d.Block)})
		}
	}
	switch {
	case b.MissingDefault:
	case b.EmptyDefault:
		nodes = append(nodes, config.Node{Name: "default_destination", Children: []config.Node{}})
	default:
		nodes = append(nodes, config.Node{Name: "default_destination", Children: c04RenderDst(*b.Default)})
	}
	return nodes
}

func c04RenderPipe(p c04Pipe) []config.Node {
	nodes := []config.Node{}
	if p.Rewrite != nil {
		nodes = append(nodes, c04RenderRewrite(p.Rewrite))
	}
	if p.Direct != nil {
		return append(nodes, c04RenderSrc(*p.Direct)...)
	}
	for _, s := range p.Srcs {
		if s.Table {
			nodes = append(nodes, config.Node{Name: "source_in", Args: c04TableArgs(s.Regexp, s.Keys), Children: c04RenderSrc(s.Block)})
		} else {
			nodes = append(nodes, config.Node{Name: "source", Args: c04KeyArgs(s.Keys), Children: c04RenderSrc(s.Block)})
		}
	}
	if !p.MissingDefault {
		nodes = append(nodes, config.Node{Name: "default_source", Children: c04RenderSrc(*p.Default)})
	}
	return nodes
}

// ---- reference model ------------------------------------------------------------------------------------

// validity: "" = every combination has an explicit decision; otherwise the reason the load must fail
func c04InvalidDst(b c04DstBlock) string {
	if b.Empty {
		return "a destination block with neither reject nor deliver_to/reroute"
	}
	if b.Reroute != nil {
		return c04InvalidPipe(*b.Reroute)
	}
	return ""
}

func c04InvalidSrc(b c04SrcBlock) string {
	if b.Direct != nil {
		return c04InvalidDst(*b.Direct)
	}
	for _, d := range b.Dsts {
		if r := c04InvalidDst(d.Block); r != "" {
			return r
		}
	}
	if b.MissingDefault {
		return "destination rules without default_destination"
	}
	if b.EmptyDefault {
		return "empty default_destination block"
	}
	return c04InvalidDst(*b.Default)
}

func c04InvalidPipe(p c04Pipe) string {
	if p.Direct != nil {
		return c04InvalidSrc(*p.Direct)
	}
	for _, s := range p.Srcs {
		if r := c04InvalidSrc(s.Block); r != "" {
			return r
		}
	}
	if p.MissingDefault {
		return "source rules without default_source"
	}
	return c04InvalidSrc(*p.Default)
}

func c04ApplyRewrite(rw *c04Rewrite, rcpts []c04Addr) []c04Addr {
	if rw == nil {
		return rcpts
	}
	var out []c04Addr
	for _, r := range rcpts {
		switch {
		case !rw.LocalOnly && r.id() == rw.From.id():
			out = append(out, rw.To...)
		case rw.LocalOnly && r.Local == rw.From.Local:
			// the table has no entry for the full address; the entry for the local part replaces the local part only
			for _, to := range rw.To {
				out = append(out, c04Addr{Local: to.Local, Dom: r.Dom})
			}
		default:
			out = append(out, r)
		}
	}
	return c04ApplyRewrite(rw.Then, out)
}

func c04Match(tables bool, rules []struct {
	table bool
	keys  []c04Addr
}, a *c04Addr) int {
	if a == nil {
		return -1
	}
	// 1. tables, in declaration order
	for i, r := range rules {
		if !r.table {
			continue
		}
		for _, k := range r.keys {
			if k.id() == a.id() {
				return i
			}
		}
	}
	// 2. full-address rules, first declaration wins
	for i, r := range rules {
		if r.table {
			continue
		}
		for _, k := range r.keys {
			if k.Local >= 0 && k.id() == a.id() {
				return i
			}
		}
	}
	// 3. domain rules
	for i, r := range rules {
		if r.table {
			continue
		}
		for _, k := range r.keys {
			if k.Local < 0 && k.Dom == a.Dom {
				return i
			}
		}
	}
	return -1
}

type c04Outcome struct {
	// per effective recipient
	Delivered map[string]bool // "tgt|identity"
	Rejects   []int           // codes of reject blocks selected for some expansion (in evaluation order)
	Accepted  int             // number of expansions that reached a deliver_to / nested accept
}

func c04Route(p c04Pipe, from *c04Addr, rcpt c04Addr, out *c04Outcome) {
	rs := c04ApplyRewrite(p.Rewrite, []c04Addr{rcpt})
	var sb *c04SrcBlock
	if p.Direct != nil {
		sb = p.Direct
	} else {
		var rules []struct {
			table bool
			keys  []c04Addr
		}
		for _, s := range p.Srcs {
			rules = append(rules, struct {
				table bool
				keys  []c04Addr
			}{s.Table, s.Keys})
		}
		if i := c04Match(true, rules, from); i >= 0 {
			sb = &p.Srcs[i].Block
		} else {
			sb = p.Default
		}
	}
	rs = c04ApplyRewrite(sb.Rewrite, rs)
	for _, r := range rs {
		var db *c04DstBlock
		if sb.Direct != nil {
			db = sb.Direct
		} else {
			var rules []struct {
				table bool
				keys  []c04Addr
			}
			for _, d := range sb.Dsts {
				rules = append(rules, struct {
					table bool
					keys  []c04Addr
				}{d.Table, d.Keys})
			}
			r := r
			if i := c04Match(true, rules, &r); i >= 0 {
				db = &sb.Dsts[i].Block
			} else {
				db = sb.Default
			}
		}
		if db.Reject != 0 {
			out.Rejects = append(out.Rejects, db.Reject)
			continue
		}
		for _, e := range c04ApplyRewrite(db.Rewrite, []c04Addr{r}) {
			if db.Reroute != nil {
				c04Route(*db.Reroute, from, e, out)
				continue
			}
			out.Accepted++
			for _, t := range db.Targets {
				out.Delivered[t+"|"+e.id()] = true
			}
		}
	}
}

// ---- execution ----------------------------------------------------------------------------------------------

var c04Spellings = map[string]string{} // every spelling the generator can produce -> identity

func init() {
	for l := -1; l < len(c04Locals); l++ {
		for d := range c04Domains {
			for f := 0; f <= 5; f++ {
				a := c04Addr{l, d, f}
				c04Spellings[a.String()] = a.id()
			}
		}
	}
}

func c04Identity(s string) string {
	if id, ok := c04Spellings[s]; ok {
		return id
	}
	return "?" + s
}

func c04Run(sc c04Scenario) (vs []ev.V) {
	vReset()
	p, err := New(nil, c04RenderPipe(sc.Pipe))
	invalid := c04InvalidPipe(sc.Pipe)
	c04LastLoaded = err == nil
	if invalid != "" {
		if err == nil {
			shape := "other"
			switch {
			case strings.Contains(invalid, "neither reject"):
				shape = "block-without-decision"
			case strings.Contains(invalid, "without default"):
				shape = "missing-default"
			case strings.Contains(invalid, "empty default"):
				shape = "empty-default"
			}
			return []ev.V{ev.Vf("load:accepted-incomplete-configuration:"+shape, "msgpipeline.New accepted a configuration with %s", invalid)}
		}
		return nil
	}
	if err != nil {
		return []ev.V{ev.Vf("load:refused-complete-configuration", "msgpipeline.New refused a configuration in which every combination has a decision: %v", err)}
	}
	p.Log = log.Logger{Out: log.NopOutput{}}
	ctx := context.Background()
	for ei, env := range sc.Envs {
		from := ""
		if env.From != nil {
			// precondition of DeliveryTarget.Start: the message source cleans the domain
			from, err = address.CleanDomain(env.From.String())
			if err != nil {
				return []ev.V{ev.Vf("harness", "CleanDomain(%q): %v", env.From.String(), err)}
			}
		}
		meta := &module.MsgMetadata{ID: fmt.Sprintf("c04-%d", ei), DontTraceSender: true, OriginalFrom: from}
		d, err := p.Start(ctx, meta, from)
		if err != nil {
			vs = append(vs, ev.Vf("route:start-refused", "envelope %d: Start(%q) failed: %v", ei, from, err))
			continue
		}
		// what each target already holds in this transaction: a recipient that is named again (or that another
		// recipient is rewritten to) need not be handed to the same target a second time
		held := map[string]bool{}
		for ri, rc := range env.Rcpts {
			to, err := address.CleanDomain(rc.String())
			if err != nil {
				return []ev.V{ev.Vf("harness", "CleanDomain(%q): %v", rc.String(), err)}
			}
			before := len(vRec.snapshot())
			rerr := d.AddRcpt(ctx, to, smtp.RcptOptions{})
			evs := vRec.snapshot()[before:]
			got := map[string]bool{}
			for _, e := range evs {
				if e.Op == "rcpt" && e.Err == "" {
					got[e.Tgt+"|"+c04Identity(e.Arg)] = true
				}
			}
			for k := range got {
				held[k] = true
			}
			want := &c04Outcome{Delivered: map[string]bool{}}
			c04Route(sc.Pipe, env.From, rc, want)
			where := fmt.Sprintf("envelope %d (MAIL FROM %q) RCPT %d %q (identity %s)", ei, from, ri, to, rc.id())
			switch {
			case len(want.Rejects) == 0:
				if rerr != nil {
					vs = append(vs, ev.Vf("route:refused-but-model-delivers", "%s: refused with %v, the documented precedence selects only delivering blocks: %v", where, rerr, c04Keys(want.Delivered)))
					continue
				}
				gotOrHeld := map[string]bool{}
				for k := range got {
					gotOrHeld[k] = true
				}
				for k := range want.Delivered {
					if held[k] {
						gotOrHeld[k] = true
					}
				}
				if !c04SameSet(gotOrHeld, want.Delivered) {
					vs = append(vs, ev.Vf("route:wrong-targets", "%s: targets that saw it %v, documented precedence gives %v", where, c04Keys(got), c04Keys(want.Delivered)))
				}
			default:
				if rerr == nil {
					vs = append(vs, ev.Vf("route:accepted-but-model-rejects", "%s: accepted (targets %v), the documented precedence selects a reject block (codes %v)", where, c04Keys(got), want.Rejects))
					continue
				}
				var se *exterrors.SMTPError
				code := 0
				if errors.As(rerr, &se) {
					code = se.Code
				}
				okCode := false
				for _, c := range want.Rejects {
					if c == code {
						okCode = true
					}
				}
				if !okCode {
					vs = append(vs, ev.Vf("route:wrong-reject-reply", "%s: refused with %v (code %d), the selected block(s) say %v", where, rerr, code, want.Rejects))
				}
				if want.Accepted == 0 && len(got) != 0 {
					vs = append(vs, ev.Vf("route:rejected-recipient-reached-target", "%s: refused, every expansion is rejected by the model, but targets saw %v", where, c04Keys(got)))
				}
				for k := range got {
					if !want.Delivered[k] {
						vs = append(vs, ev.Vf("route:wrong-targets", "%s: target/recipient %s is not selected by the documented precedence (%v)", where, k, c04Keys(want.Delivered)))
						break
					}
				}
			}
		}
		hdr := textproto.Header{}
		hdr.Add("Subject", "x")
		if err := d.Body(ctx, hdr, buffer.MemoryBuffer{Slice: []byte("x\r\n")}); err != nil {
			d.Abort(ctx)
			continue
		}
		d.Commit(ctx)
	}
	return vs
}

var c04LastLoaded bool

func c04Keys(m map[string]bool) []string {
	var ks []string
	for k := range m {
		ks = append(ks, k)
	}
	sort.Strings(ks)
	return ks
}

func c04SameSet(a, b map[string]bool) bool {
	if len(a) != len(b) {
		return false
	}
	for k := range a {
		if !b[k] {
			return false
		}
	}
	return true
}

func c04Info(sc c04Scenario) ev.Info {
	if c04InvalidPipe(sc.Pipe) != "" {
		return ev.Info{Nontrivial: true, Classes: []string{"invalid-config", fmt.Sprintf("loaded=%v", c04LastLoaded)}}
	}
	// non-trivial: some rule uses a non-canonical spelling, or rewriting feeds a reroute, or >= 2 rule kinds present
	variant, rw, reroute := false, false, false
	kinds := map[string]bool{}
	var walkPipe func(p c04Pipe)
	walkDst := func(b c04DstBlock) {
		if b.Rewrite != nil {
			rw = true
		}
		if b.Reroute != nil {
			reroute = true
			walkPipe(*b.Reroute)
		}
	}
	walkSrc := func(b c04SrcBlock) {
		if b.Rewrite != nil {
			rw = true
		}
		if b.Direct != nil {
			walkDst(*b.Direct)
			return
		}
		for _, d := range b.Dsts {
			for _, k := range d.Keys {
				if k.Form != 0 {
					variant = true
				}
				switch {
				case d.Table:
					kinds["dtable"] = true
				case k.Local >= 0:
					kinds["daddr"] = true
				default:
					kinds["ddom"] = true
				}
			}
			walkDst(d.Block)
		}
		if b.Default != nil {
			walkDst(*b.Default)
		}
	}
	walkPipe = func(p c04Pipe) {
		if p.Rewrite != nil {
			rw = true
		}
		if p.Direct != nil {
			walkSrc(*p.Direct)
			return
		}
		for _, s := range p.Srcs {
			for _, k := range s.Keys {
				if k.Form != 0 {
					variant = true
				}
				switch {
				case s.Table:
					kinds["stable"] = true
				case k.Local >= 0:
					kinds["saddr"] = true
				default:
					kinds["sdom"] = true
				}
			}
			walkSrc(s.Block)
		}
		if p.Default != nil {
			walkSrc(*p.Default)
		}
	}
	walkPipe(sc.Pipe)
	for _, e := range sc.Envs {
		if e.From != nil && e.From.Form != 0 {
			variant = true
		}
		for _, r := range e.Rcpts {
			if r.Form != 0 {
				variant = true
			}
		}
	}
	cl := []string{"valid-config"}
	if rw && reroute {
		cl = append(cl, "rewrite+reroute")
	}
	if variant {
		cl = append(cl, "spelling-variant")
	}
	return ev.Info{Nontrivial: len(kinds) >= 2 || variant || (rw && reroute), Classes: cl}
}

func TestVerifC04(t *testing.T) {
	r := ev.Get("C04")
	r.Rule("Scenario = pipeline configuration generated from the directive grammar (source / source_in / default_source, destination / destination_in / default_destination, reject <code>, " +
		"deliver_to with 1-2 recording targets, modify { replace_rcpt } with 1-to-N tables at pipeline / source / destination level, reroute to depth 2; also shapes that leave a combination " +
		"undecided: missing default_source / default_destination, empty default_destination, blocks with neither reject nor deliver_to) loaded through msgpipeline.New, plus 1-3 envelopes of " +
		"1-3 recipients; rule keys and envelope addresses are spelling variants (case, NFD, A-label, upper-case A-label) of 2 local parts x 3 domains, envelopes pass address.CleanDomain first " +
		"as the SMTP endpoint does. Oracle: independent model of the documented precedence on base identities. " +
		"Non-trivial = an undecided configuration, or >= 2 rule kinds, or a non-canonical spelling, or rewriting that feeds a reroute. Distinct = distinct scenario.")
	r.Assume("table keys/values (source_in, destination_in, replace_rcpt) are generated pre-normalised; for 1-to-N expansions that mix accepted and rejected addresses only the per-effective-recipient statement is asserted")
	ev.Run(t, r, ev.Spec[c04Scenario]{Name: "routing", N: r.N, Gen: c04Gen, Run: c04Run, Info: c04Info})
}
