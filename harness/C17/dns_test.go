package dns

// C17 harness, domain half (injected into framework/dns by overlay).

import (
	"strings"
	"testing"
	"unicode/utf8"

	"golang.org/x/net/idna"
	"golang.org/x/text/unicode/norm"
	"pgregory.net/rapid"
	"unicode"
	"verifkit/ev"
)

var c17dTokens = []string{
	"a", "B", "k", "K", "0", "-", ".", "..", "@", "_", " ", "I", "i", "\u00c5", "\u212b",
	"\u0301", "\u0307", "\u030c", "\u0130", "\u00df", "\u03c2", "\u03a3", "\u212a",
	"\uff21", "\uff0e", "\u3002", "\u007f", "\u0080", "\u00e9", "e\u0301", "\xff", "\x00",
	"xn--e1aybc", "XN--E1AYBC", "Xn--e1aybc", "xn--", "xn--a", "xn--bcher-kva",
	"\u0442\u0435\u0441\u0442", "\u0422\u0415\u0421\u0422", "example", "EXAMPLE", "org",
}

type c17dAny struct{ A, B, C ev.QS }

func c17dStr(t *rapid.T, label string) string {
	if rapid.IntRange(0, 9).Draw(t, label+"_kind") == 0 {
		return rapid.String().Draw(t, label+"_raw")
	}
	return strings.Join(rapid.SliceOfN(rapid.SampledFrom(c17dTokens), 0, 7).Draw(t, label), "")
}

func c17dMut(t *rapid.T, s, label string) string {
	switch rapid.IntRange(0, 6).Draw(t, label+"_mut") {
	case 0:
		return strings.ToUpper(s)
	case 1:
		return strings.ToLower(s)
	case 2:
		return norm.NFD.String(s)
	case 3:
		if a, err := idna.ToASCII(s); err == nil {
			return a
		}
		return s
	case 4:
		if u, err := idna.ToUnicode(s); err == nil {
			return u
		}
		return s
	case 5:
		return s
	default:
		return c17dStr(t, label+"_fresh")
	}
}

func c17dKey(s string) string { k, _ := ForLookup(s); return k }

func c17dRunAny(in c17dAny) (vs []ev.V) {
	strs := []string{string(in.A), string(in.B), string(in.C)}
	for _, s := range strs {
		ForLookup(s)
		FQDN(s)
		if !Equal(s, s) {
			vs = append(vs, ev.Vf("dns.Equal:irreflexive", "dns.Equal(%q,%q)=false", s, s))
		}
	}
	// Unicode-normalization variants of one domain have one key (metamorphic: NFC vs NFD spelling)
	for _, s := range strs {
		if !utf8.ValidString(s) {
			continue
		}
		s1, s2 := norm.NFC.String(s), norm.NFD.String(s)
		if s1 == s2 {
			continue
		}
		k1, err1 := ForLookup(s1)
		k2, err2 := ForLookup(s2)
		if err1 != nil || err2 != nil {
			continue // malformed input: byte-wise fallback, no law claimed
		}
		if k1 != k2 || !Equal(s1, s2) {
			vs = append(vs, ev.Vf("dns.ForLookup:nfc-nfd-variants-differ", "dns.ForLookup(%q) = %q but dns.ForLookup(%q) = %q (NFC and NFD spellings of one domain); Equal = %v", s1, k1, s2, k2, Equal(s1, s2)))
		}
	}
	for i := range strs {
		for j := range strs {
			if i == j {
				continue
			}
			x, y := strs[i], strs[j]
			eq := Equal(x, y)
			if eq != (c17dKey(x) == c17dKey(y)) {
				vs = append(vs, ev.Vf("dns.Equal:not-key-equality", "dns.Equal(%q,%q)=%v but keys %q, %q", x, y, eq, c17dKey(x), c17dKey(y)))
			}
			if eq != Equal(y, x) {
				vs = append(vs, ev.Vf("dns.Equal:asymmetric", "dns.Equal(%q,%q)=%v, converse differs", x, y, eq))
			}
		}
	}
	a, b, c := strs[0], strs[1], strs[2]
	if Equal(a, b) && Equal(b, c) && !Equal(a, c) {
		vs = append(vs, ev.Vf("dns.Equal:intransitive", "%q ~ %q ~ %q but not %q ~ %q", a, b, c, a, c))
	}
	return vs
}

func c17dInfoAny(in c17dAny) ev.Info {
	nt := false
	for _, s := range []string{string(in.A), string(in.B), string(in.C)} {
		for i := 0; i < len(s); i++ {
			if s[i] >= 0x7f {
				nt = true
			}
		}
		if strings.Contains(strings.ToLower(s), "xn--") {
			nt = true
		}
	}
	var cl []string
	if in.A != in.B && Equal(string(in.A), string(in.B)) {
		cl = append(cl, "equal-but-different-spelling")
	}
	return ev.Info{Nontrivial: nt, Classes: cl, Key: string(in.A) + "\x00" + string(in.B) + "\x00" + string(in.C)}
}

var c17dULabels = []string{
	"\u0442\u0435\u0441\u0442", "b\u00fccher", "stra\u00dfe", "\u03b5\u03bb\u03bb\u03ac\u03b4\u03b1", "\u4f8b\u3048", "caf\u00e9", "\u0439\u043e\u0433", "\u03b1\u0390\u03b1", "i\u0307stanbul",
	"example", "mail", "sub-1", "a", "org", "x1",
}

type c17dLabel struct{ U, A string }

var c17dLabels []c17dLabel

func init() {
	for _, u := range c17dULabels {
		a, err := idna.ToASCII(u)
		if err != nil {
			panic(err)
		}
		if back, err := idna.ToUnicode(a); err != nil || back != u {
			panic("bad label " + u)
		}
		c17dLabels = append(c17dLabels, c17dLabel{u, a})
	}
}

func c17dUpper(r rune) rune {
	u := unicode.ToUpper(r)
	if u != r && unicode.ToLower(u) == r && strings.ToLower(norm.NFC.String(string(u))) == string(r) {
		return u
	}
	return r
}

type c17dSpell struct {
	Idx  int `json:"idx"`
	Form int `json:"form"`
}

func (s c17dSpell) String() string {
	l := c17dLabels[s.Idx]
	switch s.Form {
	case 0:
		return l.U
	case 1:
		return norm.NFD.String(l.U)
	case 2:
		return strings.Map(c17dUpper, l.U)
	case 3:
		return l.A
	case 4:
		return strings.ToUpper(l.A)
	case 6:
		if up := norm.NFC.String(strings.ToUpper(norm.NFD.String(l.U))); norm.NFC.String(strings.ToLower(norm.NFD.String(up))) == l.U {
			return up
		}
		return l.U
	default:
		if strings.HasPrefix(l.A, "xn--") {
			return "Xn--" + l.A[4:]
		}
		return strings.ToUpper(l.A[:1]) + l.A[1:]
	}
}

type c17dDomain struct {
	Labels []c17dSpell `json:"labels"`
	Dot    bool        `json:"trailing_dot"`
}

func (d c17dDomain) String() string {
	ls := make([]string, len(d.Labels))
	for i, l := range d.Labels {
		ls[i] = l.String()
	}
	s := strings.Join(ls, ".")
	if d.Dot {
		s += "."
	}
	return s
}
func (d c17dDomain) canon() string {
	ls := make([]string, len(d.Labels))
	for i, l := range d.Labels {
		ls[i] = c17dLabels[l.Idx].U
	}
	return strings.Join(ls, ".")
}
func (d c17dDomain) ace() bool {
	for _, l := range d.Labels {
		if (l.Form == 4 || l.Form == 5) && strings.HasPrefix(c17dLabels[l.Idx].A, "xn--") {
			return true
		}
	}
	return false
}

type c17dVariants struct {
	Doms []c17dDomain `json:"domains"`
}

func c17dGenVariants(t *rapid.T) c17dVariants {
	nl := rapid.IntRange(1, 3).Draw(t, "nlabels")
	base := make([]int, nl)
	for i := range base {
		base[i] = rapid.IntRange(0, len(c17dLabels)-1).Draw(t, "label")
	}
	var out c17dVariants
	n := rapid.IntRange(2, 4).Draw(t, "n")
	for v := 0; v < n; v++ {
		d := c17dDomain{Dot: rapid.IntRange(0, 4).Draw(t, "dot") == 0}
		for i := range base {
			d.Labels = append(d.Labels, c17dSpell{Idx: base[i], Form: rapid.IntRange(0, 6).Draw(t, "form")})
		}
		if v > 0 && rapid.IntRange(0, 5).Draw(t, "other") == 0 {
			d.Labels[rapid.IntRange(0, nl-1).Draw(t, "chg")].Idx = rapid.IntRange(0, len(c17dLabels)-1).Draw(t, "label2")
		}
		out.Doms = append(out.Doms, d)
	}
	return out
}

func c17dRunVariants(sc c17dVariants) (vs []ev.V) {
	sigOf := func(d c17dDomain) string {
		if d.ace() {
			return "uppercase-ACE-prefix"
		}
		return "other"
	}
	for _, d := range sc.Doms {
		s := d.String()
		k, err := ForLookup(s)
		if err != nil {
			vs = append(vs, ev.Vf("dns.ForLookup:error:"+sigOf(d), "dns.ForLookup(%q): %v", s, err))
			continue
		}
		if k != d.canon() {
			vs = append(vs, ev.Vf("dns.ForLookup:variant-key:"+sigOf(d), "dns.ForLookup(%q) = %q, the canonical spelling has key %q", s, k, d.canon()))
		}
		if k2, err := ForLookup(k); err != nil || k2 != k {
			vs = append(vs, ev.Vf("dns.ForLookup:not-idempotent:"+sigOf(d), "dns.ForLookup(%q) = %q, again = %q, %v", s, k, k2, err))
		}
	}
	for i := range sc.Doms {
		for j := i + 1; j < len(sc.Doms); j++ {
			x, y := sc.Doms[i], sc.Doms[j]
			same := x.canon() == y.canon()
			if got := Equal(x.String(), y.String()); got != same {
				sig := "dns.Equal:variants:" + sigOf(x)
				if sigOf(x) == "other" {
					sig = "dns.Equal:variants:" + sigOf(y)
				}
				if !same {
					sig = "dns.Equal:distinct-identities-equal"
				}
				vs = append(vs, ev.Vf(sig, "dns.Equal(%q,%q) = %v, same identity by construction = %v", x.String(), y.String(), got, same))
			}
		}
	}
	return vs
}

func c17dInfoVariants(sc c17dVariants) ev.Info {
	nt := false
	for _, d := range sc.Doms {
		for _, l := range d.Labels {
			if l.Form != 0 && l.Form != 3 || c17dLabels[l.Idx].A != c17dLabels[l.Idx].U {
				nt = true
			}
		}
	}
	return ev.Info{Nontrivial: nt}
}

func TestVerifC17DNS(t *testing.T) {
	r := ev.Get("C17")
	ev.Run(t, r, ev.Spec[c17dAny]{Name: "dns-any", N: r.N, Gen: func(t *rapid.T) c17dAny {
		a := c17dStr(t, "a")
		return c17dAny{ev.QS(a), ev.QS(c17dMut(t, a, "b")), ev.QS(c17dMut(t, a, "c"))}
	}, Run: c17dRunAny, Info: c17dInfoAny})
	ev.Run(t, r, ev.Spec[c17dVariants]{Name: "dns-variants", N: r.N, Gen: c17dGenVariants, Run: c17dRunVariants, Info: c17dInfoVariants})
}
