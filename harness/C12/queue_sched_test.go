package queue

// C12 harness, queue half: the real Queue with queue.go and timewheel.go both
// rewritten for verifkit/vsched; producers commit messages concurrently,
// attempts can be pre-empted inside the scripted target, one Close.

import (
	"context"
	"fmt"
	"math"
	"os"
	"path/filepath"
	"strings"
	"sync"
	"testing"
	"testing/synctest"
	"time"

	"github.com/emersion/go-message/textproto"
	"github.com/emersion/go-smtp"
	"github.com/foxcpp/maddy/framework/buffer"
	"github.com/foxcpp/maddy/framework/log"
	"github.com/foxcpp/maddy/framework/module"
	"github.com/foxcpp/maddy/internal/verifx"
	"pgregory.net/rapid"
	"verifkit/ev"
	"verifkit/vsched"
)

type c12Q struct {
	Scenario      qScenario          `json:"scenario"`
	CloseAfterSec int                `json:"close_after_sec"`
	Schedule      []vsched.Deviation `json:"schedule,omitempty"`
	Explore       int                `json:"explore_deviations"`
	MaxSchedules  int                `json:"max_schedules"`
}

func c12GenQ(t *rapid.T) c12Q {
	sc := qScenario{MaxTries: rapid.IntRange(1, 3).Draw(t, "max_tries"), Partial: rapid.Bool().Draw(t, "partial"), Bounce: "ok",
		Parallelism: rapid.SampledFrom([]int{1, 1, 2, 16}).Draw(t, "max_parallelism")}
	tmp := &verifx.ErrNode{Kind: "smtp", Code: 451, Ench: [3]int{4, 0, 0}, Msg: "later"}
	for i, n := 0, rapid.IntRange(1, 3).Draw(t, "nmsgs"); i < n; i++ {
		m := qMsg{ID: fmt.Sprintf("m%d", i), From: "sender@example.com", OriginalFrom: "sender@example.com",
			Header: "From: <sender@example.com>\r\nSubject: sched\r\n", Body: "body\r\n", Rcpts: []string{fmt.Sprintf("r%d@example.org", i)}}
		if rapid.Bool().Draw(t, "two_rcpts") {
			m.Rcpts = append(m.Rcpts, fmt.Sprintf("s%d@example.org", i))
		}
		for a := 0; a < sc.MaxTries; a++ {
			p := qPlan{}
			if rapid.IntRange(0, 2).Draw(t, "tempfail") == 0 {
				p.Rcpt = map[string]*verifx.ErrNode{m.Rcpts[0]: tmp}
			}
			m.Plans = append(m.Plans, p)
		}
		m.AcceptAfterMin = rapid.SampledFrom([]int{0, 0, 15}).Draw(t, "accept_after")
		sc.Msgs = append(sc.Msgs, m)
	}
	return c12Q{Scenario: sc, CloseAfterSec: rapid.SampledFrom([]int{0, 0, 1, 900, 901, 7200}).Draw(t, "close_after"), Explore: 2, MaxSchedules: 1500}
}

type c12QObs struct {
	h         *qHistory
	committed map[string]bool
	spool     string
	files     []string
	closed    bool
}

// parkingTarget lets the scheduler pre-empt an attempt in the middle.
type c12ParkTarget struct{ *qTarget }

type c12ParkDelivery struct{ module.Delivery }

func (t c12ParkTarget) Start(ctx context.Context, meta *module.MsgMetadata, from string) (module.Delivery, error) {
	vsched.Yield("target:start")
	d, err := t.qTarget.Start(ctx, meta, from)
	if err != nil {
		return nil, err
	}
	if pd, ok := d.(module.PartialDelivery); ok {
		return c12ParkPartial{c12ParkDelivery{d}, pd}, nil
	}
	return c12ParkDelivery{d}, nil
}

func (d c12ParkDelivery) Commit(ctx context.Context) error {
	vsched.Yield("target:commit")
	return d.Delivery.Commit(ctx)
}

type c12ParkPartial struct {
	c12ParkDelivery
	pd module.PartialDelivery
}

func (d c12ParkPartial) BodyNonAtomic(ctx context.Context, sc module.StatusCollector, h textproto.Header, b buffer.Buffer) {
	vsched.Yield("target:body")
	d.pd.BodyNonAtomic(ctx, sc, h, b)
}

func c12RunQOnce(c c12Q, schedule []vsched.Deviation, dir string) (res vsched.Result, obs *c12QObs) {
	sc := c.Scenario
	h := &qHistory{SpoolAt: map[int][]string{}}
	obs = &c12QObs{h: h, committed: map[string]bool{}}
	spool, err := os.MkdirTemp(dir, "spool")
	if err != nil {
		panic(err)
	}
	obs.spool = spool
	oldRecover := dontRecover
	dontRecover = false
	defer func() { dontRecover = oldRecover }()
	oldOut := log.DefaultLogger.Out
	log.DefaultLogger.Out = log.FuncOutput(func(_ time.Time, _ bool, s string) {
		h.mu.Lock()
		h.Logs = append(h.Logs, s)
		h.mu.Unlock()
	}, func() error { return nil })
	defer func() { log.DefaultLogger.Out = oldOut }()
	synctest.Test(qT, func(t *testing.T) {
		vsched.WaitIdle = synctest.Wait
		h.t0 = time.Now()
		res = vsched.Run(schedule, 48*time.Hour, func(s *vsched.S) {
			tgt := c12ParkTarget{&qTarget{sc: &sc, h: h, attempts: map[string]int{}, partial: sc.Partial}}
			q := qNewQueue(spool, &sc, tgt, &qBounce{h: h})
			for _, m := range sc.Msgs {
				m := m
				s.Go("producer-"+m.ID, func() {
					if m.AcceptAfterMin > 0 {
						time.Sleep(time.Duration(m.AcceptAfterMin) * time.Minute)
					}
					ctx := context.Background()
					meta := &module.MsgMetadata{ID: m.ID, OriginalFrom: m.OriginalFrom}
					d, err := q.Start(ctx, meta, m.From)
					if err != nil {
						return
					}
					for _, r := range m.Rcpts {
						d.AddRcpt(ctx, r, smtp.RcptOptions{})
					}
					hdr, _ := qParseHeader(string(m.Header))
					if err := d.Body(ctx, hdr, buffer.MemoryBuffer{Slice: []byte(m.Body)}); err != nil {
						d.Abort(ctx)
						return
					}
					if err := d.Commit(ctx); err == nil {
						h.mu.Lock()
						obs.committed[m.ID] = true
						h.mu.Unlock()
						h.ev(qEvent{Msg: m.ID, Op: "accepted"})
					}
				})
			}
			s.Go("closer", func() {
				if c.CloseAfterSec > 0 {
					time.Sleep(time.Duration(c.CloseAfterSec) * time.Second)
				}
				h.ev(qEvent{Op: "close-start"})
				q.Close()
				h.ev(qEvent{Op: "close-end"})
				h.mu.Lock()
				obs.closed = true
				h.mu.Unlock()
			})
		})
	})
	obs.files = qSpoolFiles(spool)
	return res, obs
}

func c12CheckQ(c c12Q, res vsched.Result, obs *c12QObs) (vs []ev.V) {
	sc := c.Scenario
	h := obs.h
	for _, p := range res.Panics {
		who := "producer"
		if strings.Contains(p.Goroutine, "closer") {
			who = "Close"
		} else if strings.Contains(p.Goroutine, ".go:") {
			who = "queue-goroutine"
		}
		vs = append(vs, ev.Vf("queue:panic:"+who+":"+c12PanicClass(p.Value), "%s panicked: %s\n%.600s\ntrace: %s", p.Goroutine, p.Value, p.Stack, c12Trace(res)))
	}
	if res.Hang {
		return append(vs, ev.Vf("queue:hang", "goroutines still alive after 48 h of virtual time: %v\ntrace: %s", res.Stuck, c12Trace(res)))
	}
	for _, l := range h.Logs {
		if strings.Contains(l, "panic") {
			vs = append(vs, ev.Vf("queue:panic-contained", "queue logged a panic: %.500s\ntrace: %s", l, c12Trace(res)))
			break
		}
	}
	for _, f := range obs.files {
		if strings.Contains(f, "meta_broken") {
			vs = append(vs, ev.Vf("queue:meta-broken", "spool contains %s after Close; trace: %s", f, c12Trace(res)))
		}
	}
	if !obs.closed && len(res.Panics) == 0 {
		vs = append(vs, ev.Vf("queue:close-did-not-return", "Close did not return; trace %s", c12Trace(res)))
	}
	// shutdown: once Close has returned nothing is dispatched or still running
	closedAt := -1
	for i, e := range h.Events {
		if e.Op == "close-end" {
			closedAt = i
		} else if closedAt >= 0 && e.Msg != "" && e.Op != "accepted" && e.Op != "accept-error" {
			vs = append(vs, ev.Vf("queue:attempt-running-after-close", "message %s: %s event after Close had returned; %s\ntrace: %s", e.Msg, e.Op, c01Events(h), c12Trace(res)))
			break
		}
	}
	// dispatch exactly once / not early: attempts of one message are at least the retry delay apart
	last := map[string]time.Duration{}
	count := map[string]int{}
	for _, e := range h.Events {
		if e.Op != "start" {
			continue
		}
		count[e.Msg]++
		if prev, ok := last[e.Msg]; ok && e.At-prev < 15*time.Minute {
			vs = append(vs, ev.Vf("queue:dispatched-early-or-twice", "message %s: attempt %d started at +%v, only %v after the previous one (retry delay is 15 min); %s", e.Msg, e.Attempt, e.At, e.At-prev, c01Events(h)))
		}
		last[e.Msg] = e.At
	}
	for _, m := range sc.Msgs {
		fate := c01Model(sc, m)
		maxAtt := 0
		for _, f := range fate {
			if f.LastAttempt > maxAtt {
				maxAtt = f.LastAttempt
			}
		}
		if count[m.ID] > maxAtt {
			vs = append(vs, ev.Vf("queue:dispatched-more-than-scheduled", "message %s was attempted %d times, its fault plan allows %d; %s", m.ID, count[m.ID], maxAtt, c01Events(h)))
		}
	}
	if len(vs) > 0 {
		return vs
	}
	// every committed message: terminal outcome, or still complete on disk and picked up by a restart
	pendingOnDisk := map[string]bool{}
	for _, m := range sc.Msgs {
		if !obs.committed[m.ID] {
			continue
		}
		fate := c01Model(sc, m)
		done := true
		for _, r := range m.Rcpts {
			delivered, reported := false, false
			for _, a := range h.Attempts {
				if a.Msg == m.ID && a.Committed {
					for _, x := range a.Accepted {
						if x == r {
							delivered = true
						}
					}
				}
			}
			for _, rep := range h.Reports {
				for _, x := range c01ReportedRcpts(rep.Raw) {
					if c01SameAddr(x, r) {
						reported = true
					}
				}
			}
			_ = fate
			if !delivered && !reported {
				done = false
			}
		}
		if done {
			continue
		}
		have := 0
		for _, f := range obs.files {
			if f == m.ID+".meta" || f == m.ID+".header" || f == m.ID+".body" {
				have++
			}
		}
		if have != 3 {
			vs = append(vs, ev.Vf("queue:message-removed-without-outcome", "committed message %s has no terminal outcome for every recipient and only %d of its 3 spool files after Close (files %v); %s\ntrace: %s", m.ID, have, obs.files, c01Events(h), c12Trace(res)))
			continue
		}
		pendingOnDisk[m.ID] = true
	}
	if len(pendingOnDisk) > 0 && len(vs) == 0 {
		// a restart must pick them up
		rec := qRecover(obs.spool, sc, 3*time.Hour)
		for id := range pendingOnDisk {
			seen := false
			// a retry is not dispatched before its scheduled time - after a restart either: the next attempt
			// is due one retry delay (15 min at least) after the *last* attempt of the previous run. Both runs
			// start their virtual clock at the same instant, so the offsets are comparable.
			var lastPrev time.Duration = -1
			for _, e := range h.Events {
				if e.Msg == id && e.Op == "start" && e.At > lastPrev {
					lastPrev = e.At
				}
			}
			for _, e := range rec.Events {
				if e.Msg == id && e.Op == "start" {
					if !seen && lastPrev >= 0 && e.At < lastPrev+15*time.Minute-time.Second {
						vs = append(vs, ev.Vf("queue:retry-early-after-restart", "message %s: last attempt of the first run at +%v, first attempt after the restart at +%v, i.e. before the retry delay of 15 min had passed; %s", id, lastPrev, e.At, c01Events(h)))
					}
					seen = true
				}
			}
			if !seen {
				vs = append(vs, ev.Vf("queue:restart-does-not-pick-up", "message %s was left on disk by Close but a fresh queue on the directory never attempted it; files %v", id, obs.files))
			}
		}
	}
	return vs
}

func c12RunQ(c c12Q) []ev.V {
	dir, err := os.MkdirTemp("", "verifc12")
	if err != nil {
		panic(err)
	}
	defer os.RemoveAll(dir)
	n := 0
	run := func(schedule []vsched.Deviation) (vsched.Result, []ev.V) {
		n++
		res, obs := c12RunQOnce(c, schedule, dir)
		vs := c12CheckQ(c, res, obs)
		os.RemoveAll(obs.spool)
		if res.Hang {
			// goroutines blocked for good cannot be unwound: report and stop this process
			cc := c
			cc.Schedule, cc.Explore = schedule, 0
			c12Rec.Abort("queue-scenarios", cc, vs[len(vs)-1])
		}
		return res, vs
	}
	if c.Explore == 0 {
		_, vs := run(c.Schedule)
		return vs
	}
	key := fmt.Sprintf("%s|%d", c02ScenarioKeyQ(c.Scenario), c.CloseAfterSec)
	return c12ExploreCapped("queue", c.Explore, c.MaxSchedules, key, run, func(schedule []vsched.Deviation) any {
		cc := c
		cc.Schedule, cc.Explore = schedule, 0
		return cc
	})
}

func c02ScenarioKeyQ(sc qScenario) string {
	var b strings.Builder
	fmt.Fprintf(&b, "%d/%v/", sc.MaxTries, sc.Partial)
	for _, m := range sc.Msgs {
		fmt.Fprintf(&b, "%s:%v:%d:", m.ID, m.Rcpts, m.AcceptAfterMin)
		for _, p := range m.Plans {
			fmt.Fprintf(&b, "%d", len(p.Rcpt))
		}
	}
	return b.String()
}

var _ = filepath.Join

// c12RunTiming: "not before its scheduled time", across retries and restarts, on the default schedule: the
// real queue under synctest with generated fault plans and a restart after k attempts (same virtual clock);
// two consecutive attempts of a message are never less than one retry delay (15 min) apart.
func c12RunTiming(sc qScenario) (vs []ev.V) {
	h := qRun(sc, nil)
	last := map[string]time.Duration{}
	for _, e := range h.Events {
		if e.Op != "start" {
			continue
		}
		// the retry after attempt n is scheduled initial * trunc(1.25^(n-1)) later (every recipient still pending has
		// taken part in all n attempts); a restart may delay it, never advance it
		minGap := 15 * time.Minute
		if e.Attempt >= 2 {
			minGap = 15 * time.Minute * time.Duration(math.Pow(1.25, float64(e.Attempt-2)))
		}
		if prev, ok := last[e.Msg]; ok && e.At-prev < minGap-time.Second {
			shape := "same-run"
			if len(sc.RestartAfter) > 0 {
				shape = "restart-in-history"
			}
			vs = append(vs, ev.Vf("queue:retry-before-its-time:"+shape, "message %s: attempt %d started at +%v, only %v after the previous one (the retry was scheduled "+fmt.Sprint(minGap)+" after it); restarts after attempts %v; %s", e.Msg, e.Attempt, e.At, e.At-prev, sc.RestartAfter, c01Events(h)))
			break
		}
		last[e.Msg] = e.At
	}
	return vs
}

// c12GenLongRetries: histories long enough for the retry delay to grow: one recipient is deferred a few times and
// then delivered, another one is deferred in every attempt; a restart somewhere behind the delivery of the first.
func c12GenLongRetries(t *rapid.T) qScenario {
	sc := qScenario{MaxTries: rapid.IntRange(5, 9).Draw(t, "max_tries"), Partial: rapid.Bool().Draw(t, "partial"), Bounce: "ok"}
	tmp := &verifx.ErrNode{Kind: "smtp", Code: 451, Ench: [3]int{4, 0, 0}, Msg: "later"}
	m := qMsg{ID: "m0", From: "sender@example.com", OriginalFrom: "sender@example.com", Header: "From: <sender@example.com>\r\nSubject: retries\r\n", Body: "x\r\n",
		Rcpts: []string{"a@example.org", "b@example.org"}}
	okAfter := rapid.IntRange(1, 3).Draw(t, "first_delivered_after")
	for a := 1; a <= sc.MaxTries; a++ {
		p := qPlan{Rcpt: map[string]*verifx.ErrNode{"b@example.org": tmp}}
		if a <= okAfter {
			p.Rcpt["a@example.org"] = tmp
		}
		m.Plans = append(m.Plans, p)
	}
	sc.Msgs = []qMsg{m}
	if rapid.IntRange(0, 3).Draw(t, "restart") != 0 {
		sc.RestartAfter = []int{rapid.IntRange(okAfter+1, sc.MaxTries-1).Draw(t, "restart_after")}
	}
	return sc
}

func TestVerifC12Queue(t *testing.T) {
	qT = t
	r := c12Rec
	ev.Run(t, r, ev.Spec[qScenario]{Name: "retry-timing", N: r.Scale(4, 1, 100), Gen: func(t *rapid.T) qScenario {
		if rapid.Bool().Draw(t, "long_history") {
			return c12GenLongRetries(t)
		}
		return c01Gen(t)
	}, Run: c12RunTiming, Info: func(sc qScenario) ev.Info {
		return ev.Info{Nontrivial: len(sc.RestartAfter) > 0 && sc.MaxTries > 2, Classes: []string{fmt.Sprintf("restart=%v", len(sc.RestartAfter) > 0)}}
	}})
	ev.Run(t, r, ev.Spec[c12Q]{Name: "queue-scenarios", N: r.Scale(1, 4, 2), Gen: c12GenQ, Run: c12RunQ, Journal: true,
		Info: func(c c12Q) ev.Info {
			return ev.Info{Nontrivial: true, Classes: []string{fmt.Sprintf("msgs=%d", len(c.Scenario.Msgs))}}
		}})
}

// ---- max_parallelism at its boundary ---------------------------------------------------------------------

type c12pCase struct {
	Parallelism int `json:"max_parallelism"`
	Msgs        int `json:"messages"`
}

type c12pTarget struct {
	mu   sync.Mutex
	seen int
}

func (t *c12pTarget) Start(ctx context.Context, meta *module.MsgMetadata, from string) (module.Delivery, error) {
	return c12pDelivery{t}, nil
}

type c12pDelivery struct{ t *c12pTarget }

func (d c12pDelivery) AddRcpt(ctx context.Context, to string, _ smtp.RcptOptions) error { return nil }
func (d c12pDelivery) Body(ctx context.Context, h textproto.Header, b buffer.Buffer) error {
	return nil
}
func (d c12pDelivery) Abort(ctx context.Context) error { return nil }
func (d c12pDelivery) Commit(ctx context.Context) error {
	d.t.mu.Lock()
	d.t.seen++
	d.t.mu.Unlock()
	return nil
}

// c12pRun: a queue started with the given max_parallelism either refuses to start or dispatches what is committed
// to it and shuts down (real time, generous limits: a message is dispatched at once, Close has nothing to wait for).
func c12pRun(sc c12pCase) (vs []ev.V) {
	r := c12Rec
	dir, err := os.MkdirTemp("", "c12par")
	if err != nil {
		r.HarnessError("%v", err)
		return nil
	}
	defer os.RemoveAll(dir)
	mod, _ := NewQueue("", "queue", nil, nil)
	q := mod.(*Queue)
	tgt := &c12pTarget{}
	q.maxTries, q.location, q.hostname, q.autogenMsgDomain, q.Target = 3, dir, "mx.maddy.test", "maddy.test", tgt
	q.Log = log.Logger{Out: log.NopOutput{}}
	started := false
	func() {
		defer func() {
			if p := recover(); p != nil {
				vs = append(vs, ev.Vf("queue:start-panics", "max_parallelism %d: starting the queue panicked: %v", sc.Parallelism, p))
			}
		}()
		if err := q.start(sc.Parallelism); err == nil {
			started = true
		}
	}()
	if !started {
		return vs // refused (or crashed, reported above)
	}
	ctx := context.Background()
	for i := 0; i < sc.Msgs; i++ {
		d, err := q.Start(ctx, &module.MsgMetadata{ID: fmt.Sprintf("c12p%d", i), OriginalFrom: "s@example.com"}, "s@example.com")
		if err != nil {
			r.HarnessError("queue start: %v", err)
			return nil
		}
		d.AddRcpt(ctx, "r@example.org", smtp.RcptOptions{})
		hdr := textproto.Header{}
		hdr.Add("Subject", "x")
		if err := d.Body(ctx, hdr, buffer.MemoryBuffer{Slice: []byte("x\r\n")}); err != nil {
			r.HarnessError("queue body: %v", err)
			return nil
		}
		if err := d.Commit(ctx); err != nil {
			r.HarnessError("queue commit: %v", err)
			return nil
		}
	}
	deadline := time.Now().Add(10 * time.Second)
	for time.Now().Before(deadline) {
		tgt.mu.Lock()
		n := tgt.seen
		tgt.mu.Unlock()
		if n >= sc.Msgs {
			break
		}
		time.Sleep(5 * time.Millisecond)
	}
	tgt.mu.Lock()
	seen := tgt.seen
	tgt.mu.Unlock()
	if seen < sc.Msgs {
		vs = append(vs, ev.Vf("queue:committed-message-not-dispatched", "max_parallelism %d: %d messages were committed to the queue, %d were dispatched within 10 s (the target accepts everything at once)", sc.Parallelism, sc.Msgs, seen))
	}
	done := make(chan struct{})
	go func() { q.Close(); close(done) }()
	select {
	case <-done:
	case <-time.After(10 * time.Second):
		vs = append(vs, ev.Vf("queue:close-does-not-return", "max_parallelism %d, %d messages committed, %d dispatched: Close did not return within 10 s", sc.Parallelism, sc.Msgs, seen))
	}
	return vs
}

func TestVerifC12Parallelism(t *testing.T) {
	r := c12Rec
	if r.Shard != 0 {
		return // a handful of cases: one shard is enough
	}
	ev.Run(t, r, ev.Spec[c12pCase]{Name: "parallelism-boundary", N: 6, Gen: func(t *rapid.T) c12pCase {
		return c12pCase{Parallelism: rapid.SampledFrom([]int{0, -1, 1, 1, 2}).Draw(t, "max_parallelism"), Msgs: rapid.IntRange(1, 3).Draw(t, "msgs")}
	}, Run: c12pRun, Info: func(c c12pCase) ev.Info {
		return ev.Info{Nontrivial: c.Parallelism <= 0, Classes: []string{fmt.Sprintf("max_parallelism=%d", c.Parallelism)}}
	}})
}
