package msgpipeline

// C06 harness (injected into internal/msgpipeline by overlay).
//
// Pipeline: source example.org {S0} / default_source {S1}; each source block:
// destination example.org {D0 -> target} / default_destination {D1 -> target}.
// 1-4 scripted checks are placed in any subset of {global, S0, S1, S0.D0,
// S0.D1, S1.D0, S1.D1} (one instance may sit in several blocks); each has a
// configured fail action (reject / quarantine / ignore) applied through the
// real FailAction.Apply, and a script saying at which stage / for which
// recipient it reports a failure. Each call sleeps according to a generated
// rank so that the completion order of the parallel check goroutines varies.
//
// Oracle: stage-by-stage reference model of the statement; call log per check
// state; metamorphic (ignore -> none); differential (Body vs BodyNonAtomic).

import (
	"context"
	"errors"
	"fmt"
	"sort"
	"strings"
	"sync"
	"testing"
	"time"

	"github.com/emersion/go-message/textproto"
	"github.com/emersion/go-smtp"
	"github.com/foxcpp/maddy/framework/buffer"
	modconfig "github.com/foxcpp/maddy/framework/config/module"
	"github.com/foxcpp/maddy/framework/exterrors"
	"github.com/foxcpp/maddy/framework/log"
	"github.com/foxcpp/maddy/framework/module"
	"pgregory.net/rapid"
	"verifkit/ev"
)

var c06DoubleClose int64

var c06Rcpts = []string{"a@example.org", "b@example.org", "a@other.net", "b@other.net"}
var c06Senders = []string{"s@example.org", "s@other.net"}

// placements
const (
	plGlobal = iota
	plS0
	plS1
	plS0D0
	plS0D1
	plS1D0
	plS1D1
	plCount
)

var c06PlNames = []string{"global", "S0", "S1", "S0.D0", "S0.D1", "S1.D0", "S1.D1"}

type c06CheckSpec struct {
	Action string `json:"action"` // reject quarantine ignore
	Places []int  `json:"places"`
	Conn   bool   `json:"fail_conn"`
	Sender bool   `json:"fail_sender"`
	Rcpt   []int  `json:"fail_rcpt"` // recipient indices it fails
	// it fails them only the first time it is asked about them in a message (greylisting style)
	RcptOnce bool `json:"fail_rcpt_first_time_only,omitempty"`
	Body     bool `json:"fail_body"`
	Rank     int  `json:"rank"` // completion delay rank
}

type c06Scenario struct {
	Checks    []c06CheckSpec `json:"checks"`
	Sender    int            `json:"sender"`
	Rcpts     []int          `json:"rcpts"`
	NonAtomic bool           `json:"lmtp_body_path"`
}

func c06Gen(t *rapid.T) c06Scenario {
	sc := c06Scenario{Sender: rapid.IntRange(0, 1).Draw(t, "sender"), NonAtomic: rapid.Bool().Draw(t, "nonatomic")}
	n := rapid.IntRange(1, 4).Draw(t, "nchecks")
	ranks := rapid.Permutation([]int{0, 1, 2, 3}).Draw(t, "ranks")
	for i := 0; i < n; i++ {
		c := c06CheckSpec{Action: rapid.SampledFrom([]string{"reject", "quarantine", "quarantine", "ignore"}).Draw(t, "action"), Rank: ranks[i]}
		c.Places = rapid.SliceOfNDistinct(rapid.IntRange(0, plCount-1), 1, 3, rapid.ID[int]).Draw(t, "places")
		sort.Ints(c.Places)
		// failures are sparse so that messages often get through
		c.Conn = rapid.IntRange(0, 7).Draw(t, "conn") == 0
		c.Sender = rapid.IntRange(0, 7).Draw(t, "sender_fail") == 0
		c.Body = rapid.IntRange(0, 4).Draw(t, "body") == 0
		if rapid.IntRange(0, 2).Draw(t, "rcptfail") == 0 {
			c.Rcpt = rapid.SliceOfNDistinct(rapid.IntRange(0, 3), 1, 2, rapid.ID[int]).Draw(t, "rcpts_failed")
			sort.Ints(c.Rcpt)
			c.RcptOnce = rapid.IntRange(0, 2).Draw(t, "rcpt_once") == 0
		}
		sc.Checks = append(sc.Checks, c)
	}
	sc.Rcpts = rapid.SliceOfNDistinct(rapid.IntRange(0, 3), 1, 3, rapid.ID[int]).Draw(t, "rcpts")
	if rapid.IntRange(0, 3).Draw(t, "repeat_rcpt") == 0 {
		// the client repeats one of its RCPT commands (after a refusal, or by mistake)
		rep := sc.Rcpts[rapid.IntRange(0, len(sc.Rcpts)-1).Draw(t, "repeated")]
		sc.Rcpts = append(sc.Rcpts, rep)
		if len(sc.Checks) >= 2 && rapid.IntRange(0, 2).Draw(t, "greylisted") == 0 {
			// one check refuses the recipient the first time only, another one has a verdict of its own on it
			sc.Checks[0].Rcpt, sc.Checks[0].RcptOnce, sc.Checks[0].Action = []int{rep}, true, "reject"
			sc.Checks[1].Rcpt, sc.Checks[1].RcptOnce = []int{rep}, false
			sc.Checks[1].Places = sc.Checks[0].Places
		}
	}
	return sc
}

// ---- scripted check ------------------------------------------------------------------------

type c06Call struct {
	Check int
	State int
	Stage string // init conn sender rcpt body close
	Arg   string
}

type c06Log struct {
	mu     sync.Mutex
	calls  []c06Call
	nstate int
}

type c06Check struct {
	id     int
	spec   c06CheckSpec
	action modconfig.FailAction
	log    *c06Log
	mute   bool // metamorphic variant: an 'ignore' check reports nothing
}

type c06State struct {
	c     *c06Check
	id    int
	mu    sync.Mutex
	asked map[string]int
}

func (c *c06Check) CheckStateForMsg(ctx context.Context, _ *module.MsgMetadata) (module.CheckState, error) {
	c.log.mu.Lock()
	c.log.nstate++
	st := &c06State{c: c, id: c.log.nstate}
	c.log.calls = append(c.log.calls, c06Call{c.id, st.id, "init", ""})
	c.log.mu.Unlock()
	return st, nil
}

func (s *c06State) result(stage, arg string, fail bool) module.CheckResult {
	s.c.log.mu.Lock()
	s.c.log.calls = append(s.c.log.calls, c06Call{s.c.id, s.id, stage, arg})
	s.c.log.mu.Unlock()
	time.Sleep(time.Duration(s.c.spec.Rank) * 150 * time.Microsecond)
	if !fail || s.c.mute {
		return module.CheckResult{}
	}
	code, ec := 550, exterrors.EnhancedCode{5, 7, 1}
	return s.c.action.Apply(module.CheckResult{Reason: &exterrors.SMTPError{
		Code: code, EnhancedCode: ec, Message: fmt.Sprintf("check c%d says no at %s", s.c.id, stage), CheckName: fmt.Sprintf("c%d", s.c.id),
	}})
}

func (s *c06State) CheckConnection(ctx context.Context) module.CheckResult {
	return s.result("conn", "", s.c.spec.Conn)
}
func (s *c06State) CheckSender(ctx context.Context, from string) module.CheckResult {
	return s.result("sender", from, s.c.spec.Sender)
}
func (s *c06State) CheckRcpt(ctx context.Context, to string) module.CheckResult {
	fail := false
	for _, i := range s.c.spec.Rcpt {
		if c06Rcpts[i] == to {
			fail = true
		}
	}
	s.mu.Lock()
	if s.asked == nil {
		s.asked = map[string]int{}
	}
	s.asked[to]++
	if s.c.spec.RcptOnce && s.asked[to] > 1 {
		fail = false
	}
	s.mu.Unlock()
	return s.result("rcpt", to, fail)
}
func (s *c06State) CheckBody(ctx context.Context, h textproto.Header, b buffer.Buffer) module.CheckResult {
	return s.result("body", "", s.c.spec.Body)
}
func (s *c06State) Close() error {
	s.c.log.mu.Lock()
	s.c.log.calls = append(s.c.log.calls, c06Call{s.c.id, s.id, "close", ""})
	s.c.log.mu.Unlock()
	return nil
}

// ---- running one variant ------------------------------------------------------------------------

type c06Outcome struct {
	StartRefused bool
	RcptRefused  []bool // per envelope recipient
	DataRefused  bool
	Committed    bool
	Quarantined  []bool          // Quarantine flag seen by each target delivery at body time
	Delivered    map[string]bool // "tgt|rcpt" of committed deliveries
	Statuses     map[string]string
	Calls        []c06Call
	Refusal      string // text of the first refusal
}

func (o c06Outcome) class() string {
	q := "noq"
	for _, x := range o.Quarantined {
		if x {
			q = "quarantined"
		}
	}
	var del []string
	for k := range o.Delivered {
		del = append(del, k)
	}
	sort.Strings(del)
	return fmt.Sprintf("start_refused=%v rcpt_refused=%v data_refused=%v committed=%v %s delivered=%v", o.StartRefused, o.RcptRefused, o.DataRefused, o.Committed, q, del)
}

type c06Statuses struct {
	mu sync.Mutex
	m  map[string]string
}

func (s *c06Statuses) SetStatus(rcpt string, err error) {
	s.mu.Lock()
	defer s.mu.Unlock()
	if err == nil {
		s.m[rcpt] = "ok"
	} else {
		s.m[rcpt] = "err: " + err.Error()
	}
}

func c06Execute(sc c06Scenario, nonAtomic bool, muteIgnore bool) c06Outcome {
	vReset()
	lg := &c06Log{}
	checks := make([]*c06Check, len(sc.Checks))
	for i, spec := range sc.Checks {
		act, err := modconfig.ParseActionDirective([]string{spec.Action})
		if err != nil {
			panic(err)
		}
		checks[i] = &c06Check{id: i, spec: spec, action: act, log: lg, mute: muteIgnore && spec.Action == "ignore"}
	}
	at := func(pl int) []module.Check {
		var out []module.Check
		for _, c := range checks {
			for _, p := range c.spec.Places {
				if p == pl {
					out = append(out, c)
				}
			}
		}
		return out
	}
	tgt := func(id string) []module.DeliveryTarget { return []module.DeliveryTarget{&vTarget{id: id}} }
	p := MsgPipeline{
		msgpipelineCfg: msgpipelineCfg{
			globalChecks: at(plGlobal),
			perSource: map[string]sourceBlock{
				"example.org": {
					checks:      at(plS0),
					perRcpt:     map[string]*rcptBlock{"example.org": {checks: at(plS0D0), targets: tgt("t00")}},
					defaultRcpt: &rcptBlock{checks: at(plS0D1), targets: tgt("t01")},
				},
			},
			defaultSource: sourceBlock{
				checks:      at(plS1),
				perRcpt:     map[string]*rcptBlock{"example.org": {checks: at(plS1D0), targets: tgt("t10")}},
				defaultRcpt: &rcptBlock{checks: at(plS1D1), targets: tgt("t11")},
			},
		},
		Log: log.Logger{Out: log.NopOutput{}},
	}
	out := c06Outcome{Delivered: map[string]bool{}, Statuses: map[string]string{}}
	ctx := context.Background()
	meta := &module.MsgMetadata{ID: "c06", DontTraceSender: true}
	refusal := func(err error) {
		if out.Refusal == "" {
			out.Refusal = err.Error()
			var se *exterrors.SMTPError
			if errors.As(err, &se) {
				out.Refusal = se.Message
			}
		}
	}
	d, err := p.Start(ctx, meta, c06Senders[sc.Sender])
	if err != nil {
		out.StartRefused = true
		refusal(err)
		out.Calls = lg.calls
		return out
	}
	accepted := 0
	for _, ri := range sc.Rcpts {
		err := d.AddRcpt(ctx, c06Rcpts[ri], smtp.RcptOptions{})
		out.RcptRefused = append(out.RcptRefused, err != nil)
		if err != nil {
			refusal(err)
		} else {
			accepted++
		}
	}
	if accepted == 0 {
		d.Abort(ctx)
		out.Calls = lg.calls
		return out
	}
	hdr := textproto.Header{}
	hdr.Add("Subject", "x")
	body := buffer.MemoryBuffer{Slice: []byte("x\r\n")}
	if nonAtomic {
		st := &c06Statuses{m: map[string]string{}}
		d.(module.PartialDelivery).BodyNonAtomic(ctx, st, hdr, body)
		out.Statuses = st.m
		// LMTP semantics: the transaction is refused if every recipient got an error status
		allErr := len(st.m) > 0
		for _, v := range st.m {
			if v == "ok" {
				allErr = false
			}
		}
		// statuses are only set for failures by the pipeline; no status = fine
		if allErr {
			out.DataRefused = true
			for _, v := range st.m {
				refusal(errors.New(v))
			}
			d.Abort(ctx)
			out.Calls = lg.calls
			return out
		}
	} else if err := d.Body(ctx, hdr, body); err != nil {
		out.DataRefused = true
		refusal(err)
		d.Abort(ctx)
		out.Calls = lg.calls
		return out
	}
	if err := d.Commit(ctx); err == nil {
		out.Committed = true
	}
	committed := map[int]bool{}
	for _, e := range vRec.snapshot() {
		if e.Op == "commit" && e.Err == "" {
			committed[e.Deliv] = true
		}
	}
	for _, e := range vRec.snapshot() {
		switch e.Op {
		case "body":
			out.Quarantined = append(out.Quarantined, e.Quar)
		case "rcpt":
			if committed[e.Deliv] && e.Err == "" {
				out.Delivered[e.Tgt+"|"+e.Arg] = true
			}
		}
	}
	out.Calls = lg.calls
	return out
}

// ---- reference model -------------------------------------------------------------------------------

func c06Has(xs []int, x int) bool {
	for _, y := range xs {
		if y == x {
			return true
		}
	}
	return false
}

func c06DestPlace(sender, rcpt int) int {
	d0 := strings.HasSuffix(c06Rcpts[rcpt], "@example.org")
	switch {
	case sender == 0 && d0:
		return plS0D0
	case sender == 0:
		return plS0D1
	case d0:
		return plS1D0
	default:
		return plS1D1
	}
}

type c06Expect struct {
	StartRefused bool
	RcptMust     []bool // must be refused
	RcptMay      []bool // may be refused (replay of an earlier recipient to a newly met check)
	DataRefused  bool
	Quarantine   bool // some quarantine verdict belongs to a command that was accepted
	QuarMay      bool // a quarantine verdict arose while handling a recipient that was refused
}

func c06Model(sc c06Scenario) c06Expect {
	var ex c06Expect
	srcPl := plS0
	if sc.Sender == 1 {
		srcPl = plS1
	}
	// verdict of one check call: (reject, quarantine)
	verdict := func(c c06CheckSpec, fails bool) (bool, bool) {
		if !fails {
			return false, false
		}
		return c.Action == "reject", c.Action == "quarantine"
	}
	// MAIL: global then source checks, connection and sender stage
	for _, pl := range []int{plGlobal, srcPl} {
		for _, c := range sc.Checks {
			if c06Has(c.Places, pl) {
				for _, f := range []bool{c.Conn, c.Sender} {
					rj, q := verdict(c, f)
					if rj {
						ex.StartRefused = true
					}
					if q {
						ex.Quarantine = true
					}
				}
			}
		}
		if ex.StartRefused {
			return ex
		}
	}
	// RCPT
	met := map[int]bool{} // checks already initialised
	for i, c := range sc.Checks {
		if c06Has(c.Places, plGlobal) || c06Has(c.Places, srcPl) {
			met[i] = true
		}
	}
	var acceptedSoFar []int // every earlier recipient is replayed, including refused ones
	touched := map[int]bool{}
	// a check is asked about a recipient once per message; a recipient that was refused is examined again by
	// every check in scope when the client names it again
	type ir struct{ i, r int }
	settled := map[ir]bool{} // asked about r in an RCPT command that was accepted
	asked := map[ir]int{}
	for _, r := range sc.Rcpts {
		must, may, quar := false, false, false
		dpl := c06DestPlace(sc.Sender, r)
		// the checks are run group by group - global, source block, destination block - and a rejection ends the
		// command: the groups behind it are not asked
		askedNow := map[int]bool{}
		for _, pl := range []int{plGlobal, srcPl, dpl} {
			if must {
				break
			}
			replayRejects := false
			for i, c := range sc.Checks {
				if !c06Has(c.Places, pl) || met[i] || askedNow[i] {
					continue
				}
				// first met at this destination block: connection and sender are replayed (earlier recipients were
				// handled by blocks the check is not referenced in: it does not see them)
				for _, f := range []bool{c.Conn, c.Sender} {
					rj, q := verdict(c, f)
					replayRejects = replayRejects || rj
					quar = quar || q
				}
			}
			_ = acceptedSoFar
			if replayRejects {
				must = true
				break
			}
			for i, c := range sc.Checks {
				if !c06Has(c.Places, pl) || askedNow[i] {
					continue
				}
				askedNow[i] = true
				if settled[ir{i, r}] {
					continue
				}
				asked[ir{i, r}]++
				rj, q := verdict(c, c06Has(c.Rcpt, r) && (!c.RcptOnce || asked[ir{i, r}] == 1))
				must = must || rj
				quar = quar || q
			}
		}
		if !must {
			for i := range sc.Checks {
				if askedNow[i] {
					settled[ir{i, r}] = true
				}
			}
		}
		ex.RcptMust = append(ex.RcptMust, must)
		ex.RcptMay = append(ex.RcptMay, may)
		if must || may {
			ex.QuarMay = ex.QuarMay || quar
			acceptedSoFar = append(acceptedSoFar, r)
			continue
		}
		ex.Quarantine = ex.Quarantine || quar
		for i, c := range sc.Checks {
			if c06Has(c.Places, dpl) {
				met[i] = true
			}
		}
		acceptedSoFar = append(acceptedSoFar, r)
		touched[dpl] = true
	}
	// DATA: global, source and touched destination blocks
	for _, c := range sc.Checks {
		in := c06Has(c.Places, plGlobal) || c06Has(c.Places, srcPl)
		for pl := range touched {
			if c06Has(c.Places, pl) {
				in = true
			}
		}
		if in {
			rj, q := verdict(c, c.Body)
			ex.DataRefused = ex.DataRefused || rj
			ex.Quarantine = ex.Quarantine || q
		}
	}
	return ex
}

// ---- the property ------------------------------------------------------------------------------------

func c06Run(sc c06Scenario) (vs []ev.V) {
	got := c06Execute(sc, sc.NonAtomic, false)
	want := c06Model(sc)
	path := "Body"
	if sc.NonAtomic {
		path = "BodyNonAtomic"
	}
	desc := func() string {
		var cs []string
		for i, c := range sc.Checks {
			var pls []string
			for _, p := range c.Places {
				pls = append(pls, c06PlNames[p])
			}
			cs = append(cs, fmt.Sprintf("c%d{%s at %v conn=%v sender=%v rcpt=%v body=%v}", i, c.Action, pls, c.Conn, c.Sender, c.Rcpt, c.Body))
		}
		var rs []string
		for _, r := range sc.Rcpts {
			rs = append(rs, c06Rcpts[r])
		}
		return fmt.Sprintf("checks %s; MAIL FROM %s; RCPT %v; %s path; observed: %s (refusal: %s)", strings.Join(cs, " "), c06Senders[sc.Sender], rs, path, got.class(), got.Refusal)
	}
	mayApplies := false
	for _, m := range want.RcptMay {
		if m {
			mayApplies = true
		}
	}
	switch {
	case want.StartRefused != got.StartRefused:
		return []ev.V{ev.Vf(fmt.Sprintf("enforce:mail:refused=%v-want-%v", got.StartRefused, want.StartRefused), "%s", desc())}
	case want.StartRefused:
		if len(vRec.snapshot()) != 0 {
			return []ev.V{ev.Vf("enforce:mail:target-used-after-reject", "%s: targets were used although MAIL was refused", desc())}
		}
		return c06CallLog(sc, got, false)
	}
	for i := range sc.Rcpts {
		if i >= len(got.RcptRefused) {
			break
		}
		if want.RcptMust[i] && !got.RcptRefused[i] {
			return []ev.V{ev.Vf("enforce:rcpt:accepted-despite-reject", "%s: recipient %d had to be refused", desc(), i)}
		}
		if !want.RcptMust[i] && !want.RcptMay[i] && got.RcptRefused[i] {
			return []ev.V{ev.Vf("enforce:rcpt:refused-without-reject", "%s: recipient %d was refused although no applicable check rejects it", desc(), i)}
		}
		acceptedLater := false // the client named the address again and that command was accepted
		for j := range sc.Rcpts {
			if j != i && j < len(got.RcptRefused) && sc.Rcpts[j] == sc.Rcpts[i] && !got.RcptRefused[j] {
				acceptedLater = true
			}
		}
		if got.RcptRefused[i] && !acceptedLater {
			for k := range got.Delivered {
				if strings.HasSuffix(k, "|"+c06Rcpts[sc.Rcpts[i]]) {
					return []ev.V{ev.Vf("enforce:rcpt:refused-recipient-delivered", "%s: recipient %d was refused but delivered", desc(), i)}
				}
			}
		}
	}
	if mayApplies {
		// the set of accepted recipients depends on an unspecified replay; later stages are not predicted
		return c06CallLog(sc, got, false)
	}
	anyAccepted := false
	for _, r := range got.RcptRefused {
		if !r {
			anyAccepted = true
		}
	}
	if !anyAccepted {
		return c06CallLog(sc, got, false)
	}
	if want.DataRefused != got.DataRefused {
		shape := "other"
		if sc.NonAtomic {
			shape = "lmtp-body-path"
		}
		return []ev.V{ev.Vf(fmt.Sprintf("enforce:data:refused=%v-want-%v:%s", got.DataRefused, want.DataRefused, shape), "%s", desc())}
	}
	if got.DataRefused {
		if len(got.Delivered) != 0 {
			return []ev.V{ev.Vf("enforce:data:delivered-despite-reject", "%s", desc())}
		}
		return c06CallLog(sc, got, false)
	}
	// accepted: quarantine flag at every target
	for _, q := range got.Quarantined {
		if q != want.Quarantine && !(want.QuarMay && !want.Quarantine) {
			shape := "other"
			if sc.NonAtomic {
				shape = "lmtp-body-path"
			}
			return []ev.V{ev.Vf(fmt.Sprintf("quarantine:flag=%v-want-%v:%s", q, want.Quarantine, shape), "%s: a target saw Quarantine=%v at body time, the model says %v", desc(), q, want.Quarantine)}
		}
	}
	if len(got.Quarantined) == 0 {
		return []ev.V{ev.Vf("harness:no-target-body", "%s: accepted but no target saw a body", desc())}
	}
	if vs := c06CallLog(sc, got, true); len(vs) > 0 {
		return vs
	}
	// metamorphic: silence the 'ignore' checks
	hasIgnore := false
	for _, c := range sc.Checks {
		if c.Action == "ignore" && (c.Conn || c.Sender || c.Body || len(c.Rcpt) > 0) {
			hasIgnore = true
		}
	}
	if hasIgnore {
		alt := c06Execute(sc, sc.NonAtomic, true)
		if alt.class() != got.class() {
			return []ev.V{ev.Vf("metamorphic:ignore-changes-outcome", "%s; with the 'ignore' checks silenced: %s", desc(), alt.class())}
		}
	}
	// differential: the other body path
	other := c06Execute(sc, !sc.NonAtomic, false)
	if other.class() != got.class() {
		return []ev.V{ev.Vf("differential:smtp-vs-lmtp-body-path", "%s; on the other body path: %s (refusal: %s)", desc(), other.class(), other.Refusal)}
	}
	return nil
}

// c06CallLog checks the per-state call log.
func c06CallLog(sc c06Scenario, got c06Outcome, accepted bool) (vs []ev.V) {
	type key struct {
		state int
		stage string
		arg   string
	}
	cnt := map[key]int{}
	stateCheck := map[int]int{}
	closed := map[int]int{}
	for _, c := range got.Calls {
		stateCheck[c.State] = c.Check
		if c.Stage == "close" {
			closed[c.State]++
			continue
		}
		if c.Stage == "init" {
			continue
		}
		cnt[key{c.State, c.Stage, c.Arg}]++
	}
	repeated := map[string]bool{}
	seenR := map[int]bool{}
	for _, r := range sc.Rcpts {
		if seenR[r] {
			repeated[c06Rcpts[r]] = true
		}
		seenR[r] = true
	}
	for k, n := range cnt {
		if n > 1 && k.stage == "rcpt" && repeated[k.arg] {
			continue // the client itself named the recipient twice; a refused RCPT is examined again
		}
		if n > 1 {
			return []ev.V{ev.Vf("calls:stage-seen-twice:"+k.stage, "check c%d (state %d) saw %s %q %d times in one message; calls: %v", stateCheck[k.state], k.state, k.stage, k.arg, n, got.Calls)}
		}
	}
	// Not asserted (outside the statement of C06): a check state being closed
	// twice or used after Close. Both happen on the pinned tree when a replay for
	// a check first met at a later recipient is rejected (checkStates closes the
	// states of checks that stay registered); counted for the evidence only.
	for _, n := range closed {
		if n > 1 {
			c06DoubleClose++
			break
		}
	}
	srcPl := plS0
	if sc.Sender == 1 {
		srcPl = plS1
	}
	// a check sees only the recipients handled in its scope (documented flow: the checks of the selected
	// destination block are executed for that recipient)
	for _, c := range got.Calls {
		if c.Stage != "rcpt" {
			continue
		}
		spec := sc.Checks[c.Check]
		if c06Has(spec.Places, plGlobal) || c06Has(spec.Places, srcPl) {
			continue
		}
		for _, r := range sc.Rcpts {
			if c06Rcpts[r] == c.Arg && !c06Has(spec.Places, c06DestPlace(sc.Sender, r)) {
				return []ev.V{ev.Vf("calls:rcpt-outside-scope", "check c%d (referenced at %v only) was run for recipient %s, which is handled by another block; calls %v", c.Check, spec.Places, c.Arg, got.Calls)}
			}
		}
	}
	if !accepted {
		return nil
	}
	// finally accepted: every applicable check saw conn, sender, body exactly once and each in-scope recipient once
	perCheckStates := map[int][]int{}
	for st, c := range stateCheck {
		perCheckStates[c] = append(perCheckStates[c], st)
	}
	for i, c := range sc.Checks {
		var scope []string // recipients in this check's scope (accepted ones)
		applicable := c06Has(c.Places, plGlobal) || c06Has(c.Places, srcPl)
		for j, r := range sc.Rcpts {
			if got.RcptRefused[j] {
				continue
			}
			if applicable || c06Has(c.Places, c06DestPlace(sc.Sender, r)) {
				scope = append(scope, c06Rcpts[r])
			}
		}
		if len(scope) == 0 {
			continue
		}
		sts := perCheckStates[i]
		if len(sts) == 0 {
			return []ev.V{ev.Vf("calls:check-never-ran", "accepted message: applicable check c%d was never initialised; calls %v", i, got.Calls)}
		}
		// A check whose state was discarded because a recipient in its scope was
		// refused is initialised again for the next recipient; the accounting is
		// per state (DESIGN.md C06), so the state that lived until the end counts.
		sort.Ints(sts)
		st := sts[len(sts)-1]
		for _, stage := range []string{"conn", "sender", "body"} {
			arg := ""
			if stage == "sender" {
				arg = c06Senders[sc.Sender]
			}
			if cnt[key{st, stage, arg}] != 1 {
				shape := "other"
				if sc.NonAtomic && stage == "body" {
					shape = "lmtp-body-path"
				}
				return []ev.V{ev.Vf("calls:stage-missed:"+stage+":"+shape, "accepted message: check c%d saw stage %s %d times, want exactly once; calls %v", i, stage, cnt[key{st, stage, arg}], got.Calls)}
			}
		}
		for _, r := range scope {
			// once for the command that was accepted; a command for the same address that was refused before may
			// have been examined as well (the refused recipient was not "handled")
			refusedBefore := 0
			for j, x := range sc.Rcpts {
				if c06Rcpts[x] == r && j < len(got.RcptRefused) && got.RcptRefused[j] {
					refusedBefore++
				}
			}
			if n := cnt[key{st, "rcpt", r}]; n < 1 || n > 1+refusedBefore {
				return []ev.V{ev.Vf("calls:rcpt-missed", "accepted message: check c%d saw recipient %s %d times, want once; calls %v", i, r, cnt[key{st, "rcpt", r}], got.Calls)}
			}
		}
	}
	return nil
}

func c06Info(sc c06Scenario) ev.Info {
	acts := map[string]bool{}
	multi, late := false, false
	for _, c := range sc.Checks {
		if c.Conn || c.Sender || c.Body || len(c.Rcpt) > 0 {
			acts[c.Action] = true
		}
		if len(c.Places) > 1 {
			multi = true
		}
		if !c06Has(c.Places, plGlobal) && !c06Has(c.Places, plS0) && !c06Has(c.Places, plS1) && len(sc.Rcpts) > 1 {
			late = true
		}
	}
	path := "smtp"
	if sc.NonAtomic {
		path = "lmtp"
	}
	return ev.Info{Nontrivial: len(acts) >= 2 || multi || late, Classes: []string{"path=" + path, fmt.Sprintf("checks=%d", len(sc.Checks))}}
}

func TestVerifC06(t *testing.T) {
	r := ev.Get("C06")
	r.Rule("Scenario = 1-4 scripted checks, each with a fail action (reject/quarantine/ignore, applied by the real FailAction.Apply), placed in 1-3 of {global, 2 source blocks, 4 destination blocks} " +
		"(same instance in several blocks), a failure script per stage (connection, sender, per recipient, body) and a completion-delay rank; sender from one of two domains, 1-3 distinct recipients " +
		"routed to different destination blocks; body path Body (SMTP) or BodyNonAtomic (LMTP). Oracle: stage-by-stage reference model (reject => command refused and nothing delivered; quarantine " +
		"=> every target sees the flag; per check state each stage at most once and, for an accepted message, exactly once per in-scope item), metamorphic (silencing 'ignore' checks changes nothing), " +
		"differential (same outcome on the other body path). Non-trivial = >=2 different effective actions, or a check in several blocks, or a destination-scoped check with >=2 recipients. Distinct = distinct scenario.")
	r.Assume("completion orders are varied by per-check delays (150 us x rank), not by an owned scheduler; the oracle holds for every order, so this only affects coverage")
	defer func() { r.AddExtra("observed_not_asserted_state_closed_twice", c06DoubleClose); r.Flush() }()
	ev.Run(t, r, ev.Spec[c06Scenario]{Name: "verdicts", N: r.N, Gen: c06Gen, Run: c06Run, Info: c06Info})
}
