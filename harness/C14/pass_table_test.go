package pass_table

// C14 harness (injected into internal/auth/pass_table by overlay).
//
// A history of account operations and authentication attempts is applied to
// the real pass_table module (over an in-memory mutable table) behind the real
// auth.SASLAuth (PLAIN and LOGIN servers, optional auth_map / normalisation),
// and to a reference map[base identity]password.

import (
	"context"
	"fmt"
	"net"
	"regexp"
	"sort"
	"strings"
	"testing"

	"github.com/emersion/go-sasl"
	"github.com/foxcpp/maddy/framework/config"
	"github.com/foxcpp/maddy/framework/log"
	"github.com/foxcpp/maddy/framework/module"
	"github.com/foxcpp/maddy/internal/auth"
	"github.com/foxcpp/maddy/internal/authz"
	"github.com/foxcpp/maddy/internal/table"
	"golang.org/x/text/unicode/norm"
	"pgregory.net/rapid"
	"verifkit/ev"
)

type c14Mem struct{ m map[string]string }

func (t *c14Mem) Lookup(_ context.Context, k string) (string, bool, error) {
	v, ok := t.m[k]
	return v, ok, nil
}
func (t *c14Mem) Keys() ([]string, error) {
	var ks []string
	for k := range t.m {
		ks = append(ks, k)
	}
	sort.Strings(ks)
	return ks, nil
}
func (t *c14Mem) RemoveKey(k string) error { delete(t.m, k); return nil }
func (t *c14Mem) SetKey(k, v string) error { t.m[k] = v; return nil }

// base identities (already in PRECIS UsernameCaseMapped form)
var c14Bases = []string{"alice", "bob@example.org", "üser", "full", "alias-a", "alias-b", "legacy-alice", "legacy-bob@example.org", "nobody",
	"postmaster", // a valid address without a domain part (address.Split special-cases it)
	"xlegacy-alice"} // merely contains a name the regexp map matches (the map matches whole names by default)

// spelling forms: 0 canonical, 1 upper case, 2 NFD, 3 fullwidth (ASCII letters only), 4 mixed case
func c14Spell(base string, form int) string {
	switch form {
	case 1:
		return strings.ToUpper(base)
	case 2:
		return norm.NFD.String(base)
	case 3:
		return strings.Map(func(r rune) rune {
			if r >= 'a' && r <= 'z' {
				return r - 'a' + 0xff41
			}
			return r
		}, base)
	case 4:
		i := 0
		return strings.Map(func(r rune) rune {
			i++
			if i%2 == 0 && r >= 'a' && r <= 'z' {
				return r - 32
			}
			return r
		}, base)
	}
	return base
}

var c14LegacyRe = regexp.MustCompile(`(?i)^legacy-(.+)$`)

var c14Passwords = []string{"secret", "", "пароль-ü", strings.Repeat("long-password-", 6), "secret ", "Secret", "p w\t", "other",
	// longer than bcrypt's 72-byte limit, equal in the first 72 bytes; exactly 72 and 73 bytes
	strings.Repeat("long-password-", 6) + "-other-tail", strings.Repeat("p", 72), strings.Repeat("p", 73)}

type c14Op struct {
	Kind    string `json:"op"` // create setpw delete plain login
	User    int    `json:"user"`
	Form    int    `json:"form"`
	Pw      int    `json:"pw"`
	Authzid int    `json:"authzid"` // plain only: 0 empty, 1 same as user name, 2 a different user, 3 same identity but different spelling
}

type c14Scenario struct {
	Map  string  `json:"auth_map"`  // none identity static regexp
	Norm bool    `json:"normalize"` // auth_map_normalize auto (true) or unset
	Hash string  `json:"hash"`      // bcrypt argon2
	Ops  []c14Op `json:"ops"`
}

var c14Static = map[string]string{"alias-a": "alice", "alias-b": "bob@example.org", "alice": "bob@example.org", "full": "full"}

func c14Gen(t *rapid.T) c14Scenario {
	sc := c14Scenario{
		Map:  rapid.SampledFrom([]string{"none", "none", "identity", "static", "static", "regexp"}).Draw(t, "map"),
		Norm: rapid.Bool().Draw(t, "norm"),
		Hash: rapid.SampledFrom([]string{"bcrypt", "argon2"}).Draw(t, "hash"),
	}
	n := rapid.IntRange(1, 12).Draw(t, "nops")
	for i := 0; i < n; i++ {
		op := c14Op{
			Kind: rapid.SampledFrom([]string{"create", "create", "setpw", "delete", "plain", "plain", "plain", "login", "login", "login"}).Draw(t, "op"),
			User: rapid.SampledFrom([]int{0, 0, 0, 1, 1, 2, 3, 4, 5, 6, 7, 8, 9, 9, 10, 10}).Draw(t, "user"),
			Form: rapid.SampledFrom([]int{0, 0, 0, 1, 2, 3, 4}).Draw(t, "form"),
			Pw:   rapid.SampledFrom([]int{0, 0, 0, 1, 2, 3, 3, 4, 5, 6, 7, 8, 8, 9, 10}).Draw(t, "pw"),
		}
		if op.Kind == "plain" {
			op.Authzid = rapid.SampledFrom([]int{0, 0, 1, 2, 3}).Draw(t, "authzid")
		}
		if op.Kind == "create" || op.Kind == "setpw" || op.Kind == "delete" {
			op.User = rapid.SampledFrom([]int{0, 0, 1, 2, 3, 9}).Draw(t, "acct") // accounts are only made for these identities
		}
		sc.Ops = append(sc.Ops, op)
	}
	if rapid.IntRange(0, 3).Draw(t, "lifecycle") == 0 {
		// an account that is used, deleted, made again with another password and then tried with the old and the new one
		u := rapid.SampledFrom([]int{0, 1, 2, 3}).Draw(t, "lc_user")
		p1 := rapid.SampledFrom([]int{0, 1, 2, 3}).Draw(t, "lc_pw1")
		p2 := rapid.SampledFrom([]int{4, 5, 6}).Draw(t, "lc_pw2")
		mech := rapid.SampledFrom([]string{"plain", "login"}).Draw(t, "lc_mech")
		second := rapid.SampledFrom([]string{"create", "setpw"}).Draw(t, "lc_second")
		lc := []c14Op{{Kind: "create", User: u, Pw: p1}, {Kind: mech, User: u, Pw: p1}, {Kind: "delete", User: u}, {Kind: "create", User: u, Pw: p2}}
		if second == "setpw" {
			lc = []c14Op{{Kind: "create", User: u, Pw: p1}, {Kind: mech, User: u, Pw: p1}, {Kind: "setpw", User: u, Pw: p2}}
		}
		lc = append(lc, c14Op{Kind: mech, User: u, Pw: p1}, c14Op{Kind: mech, User: u, Pw: p2})
		at := rapid.IntRange(0, len(sc.Ops)).Draw(t, "lc_at")
		sc.Ops = append(append(append([]c14Op(nil), sc.Ops[:at]...), lc...), sc.Ops[at:]...)
	}
	return sc
}

func c14SASL(mech string, s *auth.SASLAuth, user, pw, authzid string) (ok bool, identity string, err error) {
	real := mech
	if mech == "LOGIN+IR" {
		real = sasl.Login
	}
	srv := s.CreateSASL(real, &net.TCPAddr{IP: net.IPv4(127, 0, 0, 1)}, func(id string, _ auth.ContextData) error {
		ok, identity = true, id
		return nil
	})
	var done bool
	switch mech {
	case sasl.Plain:
		_, done, err = srv.Next([]byte(authzid + "\x00" + user + "\x00" + pw))
	case "LOGIN+IR":
		// the user name arrives as the initial response of the AUTH command; one more response (the password) follows
		if _, done, err = srv.Next([]byte(user)); err != nil || done {
			if err == nil {
				err = fmt.Errorf("exchange finished before the password was asked for")
			}
			return false, "", err
		}
		_, done, err = srv.Next([]byte(pw))
	default:
		if _, _, err = srv.Next(nil); err != nil {
			return false, "", err
		}
		if _, _, err = srv.Next([]byte(user)); err != nil {
			return false, "", err
		}
		_, done, err = srv.Next([]byte(pw))
	}
	if err != nil {
		return false, "", err
	}
	if !done {
		return false, "", fmt.Errorf("exchange not finished")
	}
	return ok, identity, nil
}

func c14Run(sc c14Scenario) (vs []ev.V) {
	mem := &c14Mem{m: map[string]string{}}
	a := &Auth{modName: "auth.pass_table", instName: "verif", table: mem}
	s := &auth.SASLAuth{Log: log.Logger{Out: log.NopOutput{}}, EnableLogin: true, Plain: []module.PlainAuth{a}}
	if sc.Norm {
		s.AuthNormalize = authz.NormalizeAuto
	}
	switch sc.Map {
	case "identity":
		s.AuthMap = &table.Identity{}
	case "static":
		m, _ := table.NewStatic("table.static", "verif", nil, nil)
		var entries []config.Node
		var keys []string
		for k := range c14Static {
			keys = append(keys, k)
		}
		sort.Strings(keys)
		for _, k := range keys {
			entries = append(entries, config.Node{Name: "entry", Args: []string{k, c14Static[k]}})
		}
		if err := m.Init(config.NewMap(nil, config.Node{Children: entries})); err != nil {
			return []ev.V{ev.Vf("harness", "static table init: %v", err)}
		}
		s.AuthMap = m.(module.Table)
	case "regexp":
		m, _ := table.NewRegexp("table.regexp", "verif", nil, []string{"legacy-(.+)", "$1"})
		if err := m.Init(config.NewMap(nil, config.Node{})); err != nil {
			return []ev.V{ev.Vf("harness", "regexp table init: %v", err)}
		}
		s.AuthMap = m.(module.Table)
	}

	model := map[string]string{} // base identity -> current password
	// the account a (spelled) user name maps to according to the configuration; ok=false: mapping refuses it
	mapUser := func(op c14Op) (string, bool) {
		key := c14Bases[op.User] // normalised form, known by construction
		if !sc.Norm {
			key = c14Spell(c14Bases[op.User], op.Form) // no normalisation before the map lookup
		}
		switch sc.Map {
		case "static":
			v, ok := c14Static[key]
			return v, ok
		case "regexp":
			// table.regexp: full match, case-insensitive by default (documented); what follows the prefix is
			// handed to the provider, which normalises it by itself
			if m := c14LegacyRe.FindStringSubmatch(key); m != nil {
				if b := c14Bases[op.User]; strings.HasPrefix(b, "legacy-") {
					return b[len("legacy-"):], true
				}
				return m[1], true
			}
			return "", false
		}
		if !sc.Norm {
			return c14Bases[op.User], true // the provider normalises by itself
		}
		return key, true
	}
	for i, op := range sc.Ops {
		user := c14Spell(c14Bases[op.User], op.Form)
		pw := c14Passwords[op.Pw]
		where := fmt.Sprintf("op %d %s user=%q pw#%d (map=%s normalize=%v)", i, op.Kind, user, op.Pw, sc.Map, sc.Norm)
		switch op.Kind {
		case "create":
			opts := HashOpts{BcryptCost: 4, Argon2Time: 1, Argon2Memory: 8, Argon2Threads: 1}
			err := a.CreateUserHash(user, pw, sc.Hash, opts)
			_, exists := model[c14Bases[op.User]]
			if err == nil {
				if exists {
					vs = append(vs, ev.Vf("create:duplicate-accepted", "%s: created an account that already exists", where))
				}
				model[c14Bases[op.User]] = pw
			}
		case "setpw":
			if err := a.SetUserPassword(user, pw); err == nil {
				model[c14Bases[op.User]] = pw
			}
		case "delete":
			if err := a.DeleteUser(user); err == nil {
				delete(model, c14Bases[op.User])
			}
		case "plain", "login":
			acct, mapped := mapUser(op)
			cur, exists := model[acct]
			want := mapped && exists && cur == pw
			authzid := ""
			if op.Kind == "plain" {
				switch op.Authzid {
				case 1:
					authzid = user
				case 2:
					authzid = "someone-else"
					want = false
				case 3:
					authzid = c14Spell(c14Bases[op.User], (op.Form+1)%5)
					if authzid != user {
						want = false // the statement: an authorization identity different from the authenticated one is refused
					}
				}
			}
			mech := sasl.Plain
			if op.Kind == "login" {
				mech = sasl.Login
			}
			ok, id, err := c14SASL(mech, s, user, pw, authzid)
			if ok != want {
				shape := "other"
				if op.Kind == "login" && sc.Map != "none" && sc.Map != "identity" {
					shape = "login-with-" + sc.Map + "-map"
				}
				if ok && !want && mapped && exists && len(cur) == 72 && len(pw) > 72 && pw[:72] == cur {
					// bcrypt looks at the first 72 bytes only: a longer password that starts with the
					// 72-byte password of the account is accepted (passwords longer than 72 bytes cannot be set)
					vs = append(vs, ev.Vf("auth:success=true-want-false:bcrypt-password-extended-beyond-72-bytes",
						"%s: authentication success=%v, the reference model says %v: the account's password is 72 bytes long and the supplied one continues it", where, ok, want))
					continue
				}
				vs = append(vs, ev.Vf(fmt.Sprintf("auth:%s:success=%v-want-%v:%s", op.Kind, ok, want, shape),
					"%s: authentication success=%v (err %v), the reference model says %v (account %q exists=%v)", where, ok, err, want, acct, exists))
			}
			// PLAIN vs LOGIN on the same credentials and state
			if op.Kind == "plain" && op.Authzid == 0 || op.Kind == "login" {
				other := sasl.Login
				if op.Kind == "login" {
					other = sasl.Plain
				}
				if ok3, id3, _ := c14SASL("LOGIN+IR", s, user, pw, ""); ok3 != ok || (ok && id3 != id && op.Kind == "login") {
					vs = append(vs, ev.Vf("auth:login-with-initial-response-differs:map="+sc.Map, "%s: %s says %v (identity %q), LOGIN with the user name as initial response says %v (identity %q)", where, mech, ok, id, ok3, id3))
				}
				ok2, id2, _ := c14SASL(other, s, user, pw, "")
				if ok2 != ok {
					vs = append(vs, ev.Vf("auth:plain-login-decision-differs:map="+sc.Map, "%s: %s says %v, %s says %v", where, mech, ok, other, ok2))
				} else if ok && id != id2 {
					vs = append(vs, ev.Vf("auth:plain-login-identity-differs:map="+sc.Map, "%s: %s reports identity %q, %s reports %q", where, mech, id, other, id2))
				}
			}
		}
		if len(vs) > 0 {
			return vs
		}
	}
	return vs
}

func c14Info(sc c14Scenario) ev.Info {
	changed, variant, authAfter := false, false, false
	for _, op := range sc.Ops {
		switch op.Kind {
		case "setpw", "delete":
			changed = true
		case "plain", "login":
			if changed {
				authAfter = true
			}
		}
		if op.Form != 0 {
			variant = true
		}
	}
	return ev.Info{Nontrivial: authAfter || variant || (sc.Map != "none" && sc.Map != "identity"), Classes: []string{"map=" + sc.Map, "hash=" + sc.Hash}}
}

func TestVerifC14(t *testing.T) {
	r := ev.Get("C14")
	r.Rule("History of 1-12 operations {create, set-password, delete, authenticate PLAIN (authzid empty / same / different / same identity in another spelling), authenticate LOGIN} over user " +
		"names = base identity x spelling (canonical, upper case, NFD, fullwidth, mixed case) and 8 passwords (empty, trailing space, case variant, non-ASCII, embedded whitespace, 84 bytes), hash bcrypt (cost 4) or " +
		"argon2 (tiny), auth_map none / identity / static / regexp, auth_map_normalize auto or unset; real pass_table + SASLAuth over an in-memory table. Oracle: reference map " +
		"identity -> password; after every authentication the other mechanism is run on the same credentials and must agree in decision and identity. " +
		"Non-trivial = an authentication after a password change or delete, or a non-canonical spelling, or a non-identity map. Distinct = distinct history.")
	ev.Run(t, r, ev.Spec[c14Scenario]{Name: "history", N: r.N, Gen: c14Gen, Run: c14Run, Info: c14Info})
}
