package remote

// C13 harness (injected into internal/target/remote by overlay).
//
// The harness builds its own small PKI, so for every TLSA record it knows by
// construction which certificate the record matches, and for every chain
// whether the leaf validly chains to a given CA for the MX name. The oracle
// never calls x509.Verify or TLSA.Verify.

import (
	"context"
	"crypto/ed25519"
	"crypto/rand"
	"crypto/sha256"
	"crypto/sha512"
	"crypto/tls"
	"crypto/x509"
	"crypto/x509/pkix"
	"encoding/hex"
	"encoding/pem"
	"errors"
	"fmt"
	"math/big"
	"net"
	"os"
	"testing"
	"time"

	"github.com/foxcpp/maddy/framework/dns"
	"github.com/foxcpp/maddy/framework/exterrors"
	"github.com/foxcpp/maddy/framework/future"
	"github.com/foxcpp/maddy/framework/log"
	"github.com/foxcpp/maddy/framework/module"
	"pgregory.net/rapid"
	"verifkit/ev"
)

const c13MX = "mx.example.test"

type c13Cert struct {
	name string
	cert *x509.Certificate
	key  ed25519.PrivateKey
}

var c13PKI = map[string]*c13Cert{}

func c13Make(name string, parent *c13Cert, isCA bool, dnsName string, expired bool) *c13Cert {
	pub, priv, err := ed25519.GenerateKey(rand.Reader)
	if err != nil {
		panic(err)
	}
	serial, _ := rand.Int(rand.Reader, big.NewInt(1<<62))
	tpl := &x509.Certificate{
		SerialNumber:          serial,
		Subject:               pkix.Name{CommonName: "verif " + name},
		NotBefore:             time.Now().Add(-48 * time.Hour),
		NotAfter:              time.Now().Add(10 * 365 * 24 * time.Hour),
		BasicConstraintsValid: true,
		IsCA:                  isCA,
	}
	if expired {
		tpl.NotAfter = time.Now().Add(-24 * time.Hour)
	}
	if isCA {
		tpl.KeyUsage = x509.KeyUsageCertSign | x509.KeyUsageCRLSign
	} else {
		tpl.KeyUsage = x509.KeyUsageDigitalSignature
		tpl.ExtKeyUsage = []x509.ExtKeyUsage{x509.ExtKeyUsageServerAuth}
	}
	if dnsName != "" {
		tpl.DNSNames = []string{dnsName}
	}
	signer, signerKey := tpl, priv
	if parent != nil {
		signer, signerKey = parent.cert, parent.key
	}
	der, err := x509.CreateCertificate(rand.Reader, tpl, signer, pub, signerKey)
	if err != nil {
		panic(err)
	}
	c, err := x509.ParseCertificate(der)
	if err != nil {
		panic(err)
	}
	cc := &c13Cert{name: name, cert: c, key: priv}
	c13PKI[name] = cc
	return cc
}

func init() {
	root := c13Make("root", nil, true, "", false)
	inter := c13Make("inter", root, true, "", false)
	c13Make("leaf", inter, false, c13MX, false)
	c13Make("leaf-expired", inter, false, c13MX, true)
	c13Make("leaf-wrongname", inter, false, "other.example.test", false)
	nonca := c13Make("nonca-inter", root, false, "", false) // an "intermediate" that is not a CA
	c13Make("leaf-under-nonca", nonca, false, c13MX, false)
	c13Make("unrelated-ca", nil, true, "", false)
	// The harness root is also made a *system-trusted* root of this process (the Go runtime reads
	// SSL_CERT_FILE when it first loads the system pool): the chains that validly lead to it then pass
	// ordinary PKIX validation, which must make no difference to any DANE answer - in particular a usable
	// DANE-TA record that matches nothing is still a refusal.
	if f, err := os.CreateTemp("", "c13-system-roots-*.pem"); err == nil {
		pem.Encode(f, &pem.Block{Type: "CERTIFICATE", Bytes: root.cert.Raw})
		f.Close()
		os.Setenv("SSL_CERT_FILE", f.Name())
		if d, err := os.MkdirTemp("", "c13-empty-certdir"); err == nil {
			os.Setenv("SSL_CERT_DIR", d)
		}
	}
}

// chains: the certificates the server presents, leaf first
var c13Chains = [][]string{
	{"leaf"},
	{"leaf", "inter"},
	{"leaf", "inter", "root"},
	{"leaf-expired", "inter"},
	{"leaf-wrongname", "inter"},
	{"leaf-under-nonca", "nonca-inter", "root"},
	{"leaf-expired", "inter", "root"},
}

var c13ChainNames = []string{"leaf-only", "leaf+inter", "leaf+inter+root", "expired-leaf+inter", "wrongname-leaf+inter", "leaf+nonCA-inter+root", "expired-leaf+inter+root"}

// leafValidUnder[chain][ca] : the presented leaf validly chains, for the MX
// name and at the current time, to CA certificate `ca` using only presented
// certificates. By construction:
func c13ValidUnder(chain int, ca string) bool {
	switch chain {
	case 1:
		return ca == "inter"
	case 2:
		return ca == "inter" || ca == "root"
	default:
		// 0: no CA presented; 3,6: expired; 4: wrong name; 5: the issuer is not a CA
		return false
	}
}

var (
	c13Usages    = []uint8{0, 1, 2, 3, 4, 255}
	c13Selectors = []uint8{0, 1, 2, 255}
	c13MTypes    = []uint8{0, 1, 2, 3, 255}
	c13Targets   = []string{"leaf", "inter", "root", "unrelated", "garbage"}
)

type c13Rec struct {
	Usage  int `json:"usage"`    // index
	Sel    int `json:"selector"` // index
	MType  int `json:"mtype"`    // index
	Target int `json:"target"`   // index: which certificate the association data is computed from
}

type c13Scenario struct {
	Recs      []c13Rec `json:"records"`
	Chain     int      `json:"chain"`
	Handshake bool     `json:"handshake_complete"`
	// 0 records delivered; 1 lookup says not found; 2 lookup fails (SERVFAIL); 3 lookup times out
	Lookup int `json:"lookup"`
}

// the certificate a record's target denotes for a given chain
func c13TargetCert(chain int, target int) *x509.Certificate {
	names := c13Chains[chain]
	switch c13Targets[target] {
	case "leaf":
		return c13PKI[names[0]].cert
	case "inter":
		if chain == 5 {
			return c13PKI["nonca-inter"].cert
		}
		return c13PKI["inter"].cert
	case "root":
		return c13PKI["root"].cert
	case "unrelated":
		return c13PKI["unrelated-ca"].cert
	}
	return nil
}

func c13Assoc(sel, mtype uint8, cert *x509.Certificate) string {
	if cert == nil {
		return "deadbeef00"
	}
	data := cert.Raw
	if sel == 1 {
		data = cert.RawSubjectPublicKeyInfo
	}
	switch mtype {
	case 1:
		h := sha256.Sum256(data)
		return hex.EncodeToString(h[:])
	case 2:
		h := sha512.Sum512(data)
		return hex.EncodeToString(h[:])
	default:
		return hex.EncodeToString(data)
	}
}

func (sc c13Scenario) tlsa() []dns.TLSA {
	out := make([]dns.TLSA, 0, len(sc.Recs))
	for _, r := range sc.Recs {
		rec := dns.TLSA{Usage: c13Usages[r.Usage], Selector: c13Selectors[r.Sel], MatchingType: c13MTypes[r.MType]}
		rec.Certificate = c13Assoc(rec.Selector, rec.MatchingType, c13TargetCert(sc.Chain, r.Target))
		out = append(out, rec)
	}
	return out
}

type c13Expect struct {
	Auth, Refuse, Temp bool
	Why                string
}

func c13Model(sc c13Scenario) c13Expect {
	switch sc.Lookup {
	case 1:
		return c13Expect{Why: "no TLSA records exist"}
	case 2, 3:
		return c13Expect{Refuse: true, Temp: true, Why: "TLSA discovery failed: defer"}
	}
	if len(sc.Recs) == 0 {
		return c13Expect{Why: "no records"}
	}
	if !sc.Handshake {
		return c13Expect{Refuse: true, Why: "TLSA records exist but TLS was not negotiated"}
	}
	usable := 0
	for _, r := range sc.Recs {
		u, s, m := c13Usages[r.Usage], c13Selectors[r.Sel], c13MTypes[r.MType]
		if (u != 2 && u != 3) || s > 1 || m > 2 {
			continue
		}
		usable++
		tgt := c13Targets[r.Target]
		if u == 3 && tgt == "leaf" {
			return c13Expect{Auth: true, Why: "usable DANE-EE record matches the server certificate"}
		}
		if u == 2 {
			// the target must be a CA certificate that is part of the presented chain
			var ca string
			switch tgt {
			case "inter":
				if sc.Chain != 5 {
					ca = "inter"
				}
			case "root":
				ca = "root"
			}
			present := false
			for _, n := range c13Chains[sc.Chain] {
				if n == ca {
					present = true
				}
			}
			if ca != "" && present && c13ValidUnder(sc.Chain, ca) {
				return c13Expect{Auth: true, Why: "usable DANE-TA record matches presented CA " + ca + " to which the leaf validly chains"}
			}
		}
	}
	if usable == 0 {
		return c13Expect{Why: "only unusable records"}
	}
	return c13Expect{Refuse: true, Why: "usable records exist and none matches"}
}

func c13Gen(t *rapid.T) c13Scenario {
	sc := c13Scenario{}
	n := rapid.IntRange(0, 4).Draw(t, "nrecs")
	for i := 0; i < n; i++ {
		sc.Recs = append(sc.Recs, c13Rec{
			Usage:  rapid.SampledFrom([]int{0, 1, 2, 2, 2, 2, 3, 3, 3, 3, 4, 5}).Draw(t, "usage"),
			Sel:    rapid.SampledFrom([]int{0, 0, 0, 1, 1, 1, 2, 3}).Draw(t, "selector"),
			MType:  rapid.SampledFrom([]int{0, 0, 1, 1, 1, 2, 2, 3, 4}).Draw(t, "mtype"),
			Target: rapid.SampledFrom([]int{0, 0, 0, 1, 1, 1, 2, 2, 3, 4}).Draw(t, "target"),
		})
	}
	sc.Chain = rapid.IntRange(0, len(c13Chains)-1).Draw(t, "chain")
	sc.Handshake = rapid.IntRange(0, 5).Draw(t, "handshake") != 0
	sc.Lookup = rapid.SampledFrom([]int{0, 0, 0, 0, 0, 0, 0, 1, 2, 3}).Draw(t, "lookup")
	return sc
}

func c13Run(sc c13Scenario) (vs []ev.V) {
	want := c13Model(sc)
	pol := &danePolicy{extResolver: &dns.ExtResolver{}, log: log.Logger{Out: log.NopOutput{}}}
	d := &daneDelivery{c: pol, tlsaFut: future.New()}
	switch sc.Lookup {
	case 0:
		d.tlsaFut.Set(sc.tlsa(), nil)
	case 1:
		d.tlsaFut.Set(nil, &net.DNSError{Err: "no such host", Name: c13MX, IsNotFound: true})
	case 2:
		d.tlsaFut.Set(nil, dns.RCodeError{Name: c13MX, Code: 2})
	default:
		d.tlsaFut.Set(nil, &net.DNSError{Err: "i/o timeout", Name: c13MX, IsTimeout: true})
	}
	st := tls.ConnectionState{ServerName: c13MX}
	if sc.Handshake {
		st.HandshakeComplete = true
		st.Version = tls.VersionTLS13
		for _, n := range c13Chains[sc.Chain] {
			st.PeerCertificates = append(st.PeerCertificates, c13PKI[n].cert)
		}
	}
	level, err := d.CheckConn(context.Background(), module.MXNone, module.TLSEncrypted, "example.test", c13MX, st)
	gotAuth := err == nil && level == module.TLSAuthenticated
	gotRefuse := err != nil
	desc := fmt.Sprintf("records=%s chain=%s handshake=%v lookup=%d: model says auth=%v refuse=%v (%s); CheckConn returned level=%v err=%v",
		c13Describe(sc), c13ChainNames[sc.Chain], sc.Handshake, sc.Lookup, want.Auth, want.Refuse, want.Why, level, err)
	if err != nil && level != module.TLSNone {
		vs = append(vs, ev.Vf("dane:level-with-error", "%s", desc))
	}
	switch {
	case gotAuth && !want.Auth:
		vs = append(vs, ev.Vf("dane:false-authentication:"+c13Shape(sc), "%s", desc))
	case !gotAuth && want.Auth:
		vs = append(vs, ev.Vf("dane:missed-authentication:"+c13Shape(sc), "%s", desc))
	}
	switch {
	case gotRefuse && !want.Refuse:
		vs = append(vs, ev.Vf("dane:false-refusal:"+c13Shape(sc), "%s", desc))
	case !gotRefuse && want.Refuse:
		vs = append(vs, ev.Vf("dane:missed-refusal:"+c13Shape(sc), "%s", desc))
	}
	if want.Temp && err != nil && !exterrors.IsTemporary(err) {
		vs = append(vs, ev.Vf("dane:lookup-failure-not-temporary", "%s", desc))
	}
	if !want.Temp && want.Refuse && err != nil {
		var se *exterrors.SMTPError
		if !errors.As(err, &se) {
			vs = append(vs, ev.Vf("dane:refusal-not-smtp-error", "%s", desc))
		}
	}
	return vs
}

func c13Shape(sc c13Scenario) string {
	if sc.Lookup != 0 {
		return fmt.Sprintf("lookup%d", sc.Lookup)
	}
	if !sc.Handshake {
		return "no-tls"
	}
	return c13ChainNames[sc.Chain]
}

func c13Describe(sc c13Scenario) string {
	s := "["
	for i, r := range sc.Recs {
		if i > 0 {
			s += " "
		}
		s += fmt.Sprintf("%d/%d/%d:%s", c13Usages[r.Usage], c13Selectors[r.Sel], c13MTypes[r.MType], c13Targets[r.Target])
	}
	return s + "]"
}

func c13Info(sc c13Scenario) ev.Info {
	kinds := map[string]bool{}
	ta := false
	for _, r := range sc.Recs {
		u, s, m := c13Usages[r.Usage], c13Selectors[r.Sel], c13MTypes[r.MType]
		usable := (u == 2 || u == 3) && s <= 1 && m <= 2
		kinds[fmt.Sprintf("%v/%s", usable, c13Targets[r.Target])] = true
		if u == 2 && usable {
			ta = true
		}
	}
	want := c13Model(sc)
	cls := "neither"
	if want.Auth {
		cls = "auth"
	} else if want.Refuse {
		cls = "refuse"
	}
	return ev.Info{Nontrivial: sc.Lookup == 0 && (len(kinds) >= 2 || ta), Classes: []string{"expect=" + cls, "chain=" + c13ChainNames[sc.Chain]}}
}

func TestVerifC13(t *testing.T) {
	r := ev.Get("C13")
	r.Rule("Scenario = multiset of 0-4 TLSA records (usage {0,1,2,3,4,255} x selector {0,1,2,255} x matching type {0,1,2,3,255} x association data computed from " +
		"the presented leaf / the presented intermediate / the root / an unrelated CA / garbage) x presented chain {leaf; leaf+inter; leaf+inter+root; expired leaf+inter; " +
		"wrong-name leaf+inter; leaf + non-CA issuer + root; expired leaf+inter+root} x handshake complete or not x lookup outcome {records, not found, SERVFAIL, timeout}, " +
		"evaluated by daneDelivery.CheckConn (which calls verifyDANE). Expected answer known by construction of the harness PKI. " +
		"Non-trivial = records were delivered and (>=2 records of different usability/target, or a usable DANE-TA record). Distinct = distinct scenario. " +
		"Thorough tier enumerates all multisets of <=2 records x all chains x handshake completely.")
	r.Assume("certificates are generated by the harness (ed25519); validity of chains is known by construction, not computed with x509.Verify")
	ev.Run(t, r, ev.Spec[c13Scenario]{Name: "random", N: r.N, Gen: c13Gen, Run: c13Run, Info: c13Info})
	if r.Thorough() {
		var all []c13Rec
		for u := range c13Usages {
			for s := range c13Selectors {
				for m := range c13MTypes {
					for tg := range c13Targets {
						all = append(all, c13Rec{u, s, m, tg})
					}
				}
			}
		}
		shards := int(ev.EnvInt("VERIF_SHARDS", 1))
		ev.Enumerate(t, r, "multisets-le2", true, func(yield func(c13Scenario) bool) {
			for ch := range c13Chains {
				for _, hs := range []bool{true, false} {
					if r.Shard == 0 && !yield(c13Scenario{Chain: ch, Handshake: hs}) {
						return
					}
					for i, a := range all {
						if i%shards != r.Shard {
							continue
						}
						if !yield(c13Scenario{Recs: []c13Rec{a}, Chain: ch, Handshake: hs}) {
							return
						}
						for j := i; j < len(all); j++ {
							if !hs && j > i+3 {
								break // without TLS the answer does not depend on record content; keep a few
							}
							if !yield(c13Scenario{Recs: []c13Rec{a, all[j]}, Chain: ch, Handshake: hs}) {
								return
							}
						}
					}
				}
			}
		}, c13Run, c13Info)
	}
}
