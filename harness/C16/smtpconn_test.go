package smtpconn

// C16, client side: what maddy makes of the next hop's replies and of I/O
// errors (wrapClientErr) before it answers its own client or records the
// failure. The next hop's reply is taken as given when it is coherent; maddy's
// own rewriting (552 -> 452, network and DNS errors) must not make the basic
// and enhanced codes disagree, nor disagree with the temporary/permanent
// treatment.

import (
	"errors"
	"fmt"
	"net"
	"testing"

	"github.com/emersion/go-smtp"
	"github.com/foxcpp/maddy/framework/exterrors"
	"github.com/foxcpp/maddy/framework/log"
	"pgregory.net/rapid"
	"verifkit/ev"
)

type c16cCase struct {
	Kind   string `json:"kind"` // smtp | neterr | dnserr-temp | dnserr-perm
	Code   int    `json:"code,omitempty"`
	Ench   [3]int `json:"ench,omitempty"` // {0,0,0}: the reply had no enhanced code
	Prefix bool   `json:"addr_in_smtp_msg"`
}

func c16cRun(c c16cCase) (vs []ev.V) {
	conn := New()
	conn.Log = log.Logger{Out: log.NopOutput{}}
	conn.AddrInSMTPMsg = c.Prefix
	var in error
	switch c.Kind {
	case "smtp":
		in = &smtp.SMTPError{Code: c.Code, EnhancedCode: smtp.EnhancedCode{c.Ench[0], c.Ench[1], c.Ench[2]}, Message: "reply of the next hop"}
	case "neterr":
		in = &net.OpError{Op: "read", Net: "tcp", Err: errors.New("connection reset by peer")}
	case "dnserr-temp":
		in = &net.OpError{Op: "dial", Net: "tcp", Err: &net.DNSError{Err: "server misbehaving", Name: "mx.example.org", IsTemporary: true}}
	case "dnserr-perm":
		in = &net.OpError{Op: "dial", Net: "tcp", Err: &net.DNSError{Err: "no such host", Name: "mx.example.org", IsNotFound: true}}
	}
	out := conn.wrapClientErr(in, "mx.example.org")
	se, ok := out.(*exterrors.SMTPError)
	if !ok {
		return nil // left to the generic conversion of the endpoint / queue (covered by the wrap and queue sub-checks)
	}
	where := fmt.Sprintf("wrapClientErr(%v) = %d %v", in, se.Code, se.EnhancedCode)
	if se.Code/100 != 4 && se.Code/100 != 5 {
		return []ev.V{ev.Vf("client-errors:not-a-failure-code:"+c.Kind, "%s", where)}
	}
	if se.EnhancedCode != (exterrors.EnhancedCode{}) && se.EnhancedCode[0] != se.Code/100 {
		shape := c.Kind
		if c.Kind == "smtp" && c.Code == 552 {
			shape = "552-rewritten-to-452"
		}
		vs = append(vs, ev.Vf("client-errors:class-mismatch:"+shape, "%s: basic and enhanced code are of different classes", where))
	}
	if exterrors.IsTemporary(out) != (se.Code/100 == 4) {
		vs = append(vs, ev.Vf("client-errors:class-vs-treatment:"+c.Kind, "%s is treated as temporary=%v", where, exterrors.IsTemporary(out)))
	}
	return vs
}

func TestVerifC16Client(t *testing.T) {
	r := ev.Get("C16")
	ev.Run(t, r, ev.Spec[c16cCase]{Name: "client-errors", N: r.Scale(1, 8, 200), Gen: func(t *rapid.T) c16cCase {
		c := c16cCase{Kind: rapid.SampledFrom([]string{"smtp", "smtp", "smtp", "smtp", "neterr", "dnserr-temp", "dnserr-perm"}).Draw(t, "kind"), Prefix: rapid.Bool().Draw(t, "prefix")}
		if c.Kind == "smtp" {
			c.Code = rapid.SampledFrom([]int{421, 450, 451, 452, 454, 500, 501, 550, 551, 552, 552, 552, 553, 554, 556}).Draw(t, "code")
			if rapid.IntRange(0, 3).Draw(t, "hasench") != 0 {
				// the next hop's own reply is coherent
				c.Ench = [3]int{c.Code / 100, rapid.IntRange(0, 7).Draw(t, "subject"), rapid.IntRange(0, 30).Draw(t, "detail")}
			}
		}
		return c
	}, Run: c16cRun, Info: func(c c16cCase) ev.Info {
		return ev.Info{Nontrivial: c.Kind != "smtp" || c.Code == 552, Classes: []string{"kind=" + c.Kind}}
	}})
}
