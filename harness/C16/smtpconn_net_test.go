package smtpconn

// C16, the outbound client: what wrapClientErr makes of the errors the SMTP
// client library returns is what the queue and the endpoint classify. A
// network failure (reset, time-out, broken pipe) is a temporary failure - the
// conversion says so for a plain connection (450 4.4.2) - and it is the same
// failure when the connection uses TLS, where crypto/tls hands the very same
// *net.OpError over inside its own wrapper. The wrapped values are genuine:
// they are produced by a tls.Conn on top of a connection that fails that way.

import (
	"crypto/ecdsa"
	"crypto/elliptic"
	"crypto/rand"
	"crypto/tls"
	"crypto/x509"
	"crypto/x509/pkix"
	"errors"
	"fmt"
	"io"
	"math/big"
	"net"
	"os"
	"sync"
	"syscall"
	"testing"
	"time"

	"github.com/emersion/go-smtp"
	"github.com/foxcpp/maddy/framework/exterrors"
	"github.com/foxcpp/maddy/framework/log"
	"pgregory.net/rapid"
	"verifkit/ev"
)

type c16sCase struct {
	Failure string `json:"failure"` // reset | pipe | timeout | refused
	Op      string `json:"op"`      // read | write
	TLS     bool   `json:"tls"`
}

// c16sConn passes everything to the other end of a pipe until a failure is
// switched on.
type c16sConn struct {
	net.Conn
	mu  sync.Mutex
	err error
}

func (c *c16sConn) fail() error { c.mu.Lock(); defer c.mu.Unlock(); return c.err }

func (c *c16sConn) Read(b []byte) (int, error) {
	if err := c.fail(); err != nil {
		return 0, err
	}
	return c.Conn.Read(b)
}

func (c *c16sConn) Write(b []byte) (int, error) {
	if err := c.fail(); err != nil {
		return 0, err
	}
	return c.Conn.Write(b)
}

var c16sServerCfg = func() *tls.Config {
	key, err := ecdsa.GenerateKey(elliptic.P256(), rand.Reader)
	if err != nil {
		panic(err)
	}
	tmpl := &x509.Certificate{SerialNumber: big.NewInt(1), Subject: pkix.Name{CommonName: "mx.example.org"}, DNSNames: []string{"mx.example.org"},
		NotBefore: time.Now().Add(-time.Hour), NotAfter: time.Now().Add(24 * time.Hour), KeyUsage: x509.KeyUsageDigitalSignature, ExtKeyUsage: []x509.ExtKeyUsage{x509.ExtKeyUsageServerAuth}}
	der, err := x509.CreateCertificate(rand.Reader, tmpl, tmpl, &key.PublicKey, key)
	if err != nil {
		panic(err)
	}
	return &tls.Config{Certificates: []tls.Certificate{{Certificate: [][]byte{der}, PrivateKey: key}}}
}()

func c16sErr(c c16sCase) (error, error) {
	var inner error
	switch c.Failure {
	case "reset":
		inner = os.NewSyscallError(c.Op, syscall.ECONNRESET)
	case "pipe":
		inner = os.NewSyscallError(c.Op, syscall.EPIPE)
	case "refused":
		inner = os.NewSyscallError(c.Op, syscall.ECONNREFUSED)
	default:
		inner = os.ErrDeadlineExceeded
	}
	opErr := &net.OpError{Op: c.Op, Net: "tcp", Addr: &net.TCPAddr{IP: net.IPv4(192, 0, 2, 1), Port: 25}, Err: inner}
	if !c.TLS {
		return opErr, nil
	}
	// what a tls.Conn returns when its connection fails like this after the handshake
	cl, srv := net.Pipe()
	defer cl.Close()
	defer srv.Close()
	done := make(chan error, 1)
	go func() {
		ts := tls.Server(srv, c16sServerCfg)
		err := ts.Handshake()
		if err == nil {
			// keep reading so that the pipe does not block the client
			go io.Copy(io.Discard, ts)
		}
		done <- err
	}()
	under := &c16sConn{Conn: cl}
	tc := tls.Client(under, &tls.Config{InsecureSkipVerify: true})
	if err := tc.Handshake(); err != nil {
		return nil, fmt.Errorf("handshake: %w", err)
	}
	if err := <-done; err != nil {
		return nil, fmt.Errorf("server handshake: %w", err)
	}
	under.mu.Lock()
	under.err = opErr
	under.mu.Unlock()
	var err error
	if c.Op == "write" {
		_, err = tc.Write([]byte("RCPT TO:<a@example.org>\r\n"))
	} else {
		_, err = tc.Read(make([]byte, 16))
	}
	if err == nil {
		return nil, errors.New("the failure did not surface")
	}
	return err, nil
}

func c16sRun(c c16sCase) (vs []ev.V) {
	conn := New()
	conn.Log = log.Logger{Out: log.NopOutput{}}
	in, herr := c16sErr(c)
	if herr != nil {
		ev.Get("C16").HarnessError("tls pair: %v", herr)
		return nil
	}
	out := conn.wrapClientErr(in, "mx.example.org")
	temp := exterrors.IsTemporary(out)
	fields := exterrors.Fields(out)
	code, _ := fields["smtp_code"].(int)
	var opErr *net.OpError
	desc := fmt.Sprintf("%s on %s, TLS %v: the client library returns %T (%v); wrapClientErr gives temporary=%v smtp_code=%v", c.Failure, c.Op, c.TLS, in, in, temp, fields["smtp_code"])
	if !errors.As(in, &opErr) {
		return nil // not a network failure after all
	}
	if !temp || (code != 0 && code/100 != 4) {
		shape := "plain"
		if c.TLS {
			shape = "inside-the-wrapper-of-crypto/tls"
		}
		vs = append(vs, ev.Vf("client-network-errors:not-temporary:"+shape, "%s: a network failure is a temporary one, the delivery has to be retried and answered 4yz", desc))
	}
	return vs
}

func TestVerifC16ClientNet(t *testing.T) {
	r := ev.Get("C16")
	ev.Run(t, r, ev.Spec[c16sCase]{Name: "client-network-errors", N: r.Scale(1, 200, 64), Gen: func(t *rapid.T) c16sCase {
		return c16sCase{Failure: rapid.SampledFrom([]string{"reset", "pipe", "timeout", "refused"}).Draw(t, "failure"),
			Op: rapid.SampledFrom([]string{"read", "write"}).Draw(t, "op"), TLS: rapid.Bool().Draw(t, "tls")}
	}, Run: c16sRun, Info: func(c c16sCase) ev.Info {
		return ev.Info{Nontrivial: c.TLS, Classes: []string{"failure=" + c.Failure, fmt.Sprintf("tls=%v", c.TLS)}}
	}})
}

// ---- the summary of per-recipient LMTP statuses --------------------------------
//
// Data() against an LMTP server gives one error for the whole message (used by
// the atomic Body of target.lmtp, i.e. whenever the message came in by SMTP).
// As for target.remote's summary (remote unit): it is a temporary failure if
// some recipient failed temporarily, and then answered 4yz.

type c16lCase struct {
	Statuses []int `json:"statuses"` // per recipient: 0 delivered, else the reply code
}

func c16lRun(c c16lCase) (vs []ev.V) {
	st := lmtpError{}
	anyTemp, anyFail := false, false
	for i, code := range c.Statuses {
		var e *smtp.SMTPError
		if code != 0 {
			e = &smtp.SMTPError{Code: code, EnhancedCode: smtp.EnhancedCode{code / 100, 2, 0}, Message: "status of the recipient"}
			anyFail = true
			anyTemp = anyTemp || code/100 == 4
		}
		st.SetStatus(fmt.Sprintf("rcpt%d@example.org", i), e)
	}
	if !anyFail {
		return nil
	}
	var err error = st // what smtpToLMTPData returns
	temp := exterrors.IsTemporary(err)
	code, hasCode := exterrors.Fields(err)["smtp_code"].(int)
	desc := fmt.Sprintf("LMTP statuses %v: the summary error is temporary=%v smtp_code=%v", c.Statuses, temp, exterrors.Fields(err)["smtp_code"])
	if temp != anyTemp {
		vs = append(vs, ev.Vf("lmtp-summary:class-vs-statuses", "%s (a recipient failed temporarily: %v)", desc, anyTemp))
	}
	if hasCode && (code/100 == 4) != temp {
		vs = append(vs, ev.Vf("lmtp-summary:code-vs-treatment", "%s", desc))
	}
	return vs
}

func TestVerifC16ClientLMTP(t *testing.T) {
	r := ev.Get("C16")
	ev.Run(t, r, ev.Spec[c16lCase]{Name: "lmtp-summary", N: r.Scale(1, 100, 100), Gen: func(t *rapid.T) c16lCase {
		return c16lCase{Statuses: rapid.SliceOfN(rapid.SampledFrom([]int{0, 0, 451, 450, 452, 550, 554}), 1, 4).Draw(t, "statuses")}
	}, Run: c16lRun, Info: func(c c16lCase) ev.Info {
		fails := 0
		for _, s := range c.Statuses {
			if s != 0 {
				fails++
			}
		}
		return ev.Info{Nontrivial: fails >= 2, Classes: []string{fmt.Sprintf("failures=%d", fails)}}
	}})
}
