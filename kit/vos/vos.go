// Package vos is a drop-in replacement for the subset of package os that
// maddy's queue uses (plus a margin, so that realistic edits of the queue
// still compile). It works on the real file system and appends every mutating
// operation to a global log, from which crash images are reconstructed.
package vos

import (
	"io/fs"
	"os"
	"path/filepath"
	"sync"
	"time"
)

type (
	FileInfo  = os.FileInfo
	FileMode  = os.FileMode
	DirEntry  = os.DirEntry
	PathError = os.PathError
	LinkError = os.LinkError
)

const (
	ModePerm      = os.ModePerm
	ModeDir       = os.ModeDir
	O_RDONLY      = os.O_RDONLY
	O_WRONLY      = os.O_WRONLY
	O_RDWR        = os.O_RDWR
	O_APPEND      = os.O_APPEND
	O_CREATE      = os.O_CREATE
	O_EXCL        = os.O_EXCL
	O_SYNC        = os.O_SYNC
	O_TRUNC       = os.O_TRUNC
	PathSeparator = os.PathSeparator
)

var (
	ErrNotExist   = os.ErrNotExist
	ErrExist      = os.ErrExist
	ErrPermission = os.ErrPermission
	ErrClosed     = os.ErrClosed
	ErrInvalid    = os.ErrInvalid
	Stderr        = os.Stderr
	Stdout        = os.Stdout
	Args          = os.Args
)

// Op is one mutating file-system operation.
type Op struct {
	Seq   int64
	Kind  string // create write sync rename remove mkdir truncate link close
	Path  string
	Path2 string
	File  int64 // object id for create/write/sync/truncate/close
	Off   int64
	Data  []byte
	Size  int64 // truncate
}

var (
	mu      sync.Mutex
	enabled bool
	ops     []Op
	seq     int64 // number of mutating operations issued so far
	nextID  int64
)

// Reset clears the log and turns recording on or off.
func Reset(record bool) {
	mu.Lock()
	enabled, ops, seq = record, nil, 0
	mu.Unlock()
}

// Seq is the number of mutating operations issued so far; harnesses stamp
// their own events with it.
func Seq() int64 {
	mu.Lock()
	defer mu.Unlock()
	return seq
}

// Log returns a copy of the operation log.
func Log() []Op {
	mu.Lock()
	defer mu.Unlock()
	return append([]Op(nil), ops...)
}

func record(o Op) {
	mu.Lock()
	if enabled {
		o.Seq = seq
		ops = append(ops, o)
		seq++
	}
	mu.Unlock()
}

func newID() int64 {
	mu.Lock()
	nextID++
	id := nextID
	mu.Unlock()
	return id
}

// File wraps *os.File and logs writes.
type File struct {
	f   *os.File
	id  int64
	off int64
	app bool
	mu  sync.Mutex
}

func (f *File) Name() string                            { return f.f.Name() }
func (f *File) Read(p []byte) (int, error)              { return f.f.Read(p) }
func (f *File) Stat() (FileInfo, error)                 { return f.f.Stat() }
func (f *File) Fd() uintptr                             { return f.f.Fd() }
func (f *File) Chmod(m FileMode) error                  { return f.f.Chmod(m) }
func (f *File) SetDeadline(t time.Time) error           { return f.f.SetDeadline(t) }
func (f *File) ReadAt(p []byte, off int64) (int, error) { return f.f.ReadAt(p, off) }
func (f *File) ReadDir(n int) ([]DirEntry, error)       { return f.f.ReadDir(n) }
func (f *File) Readdirnames(n int) ([]string, error)    { return f.f.Readdirnames(n) }

func (f *File) Seek(offset int64, whence int) (int64, error) {
	f.mu.Lock()
	defer f.mu.Unlock()
	n, err := f.f.Seek(offset, whence)
	if err == nil {
		f.off = n
	}
	return n, err
}

func (f *File) Write(p []byte) (int, error) {
	f.mu.Lock()
	defer f.mu.Unlock()
	if f.id != 0 {
		off := f.off
		if f.app {
			if st, err := f.f.Stat(); err == nil {
				off = st.Size()
			}
		}
		record(Op{Kind: "write", Path: f.f.Name(), File: f.id, Off: off, Data: append([]byte(nil), p...)})
		f.off = off
	}
	n, err := f.f.Write(p)
	f.off += int64(n)
	return n, err
}

func (f *File) WriteString(s string) (int, error) { return f.Write([]byte(s)) }

func (f *File) WriteAt(p []byte, off int64) (int, error) {
	if f.id != 0 {
		record(Op{Kind: "write", Path: f.f.Name(), File: f.id, Off: off, Data: append([]byte(nil), p...)})
	}
	return f.f.WriteAt(p, off)
}

// FailSync, when set, is asked before every Sync of a recorded file: a non-nil
// result is returned to the caller and nothing is synced (the one file-system
// error the harnesses inject: fsync reporting EIO / ENOSPC).
var FailSync func(path string) error

func (f *File) Sync() error {
	if f.id != 0 {
		mu.Lock()
		fail := FailSync
		mu.Unlock()
		if fail != nil {
			if err := fail(f.f.Name()); err != nil {
				return &os.PathError{Op: "sync", Path: f.f.Name(), Err: err}
			}
		}
		record(Op{Kind: "sync", Path: f.f.Name(), File: f.id})
	}
	return f.f.Sync()
}

func (f *File) Truncate(size int64) error {
	if f.id != 0 {
		record(Op{Kind: "truncate", Path: f.f.Name(), File: f.id, Size: size})
	}
	return f.f.Truncate(size)
}

func (f *File) Close() error { return f.f.Close() }

func Create(name string) (*File, error) {
	return OpenFile(name, O_RDWR|O_CREATE|O_TRUNC, 0o666)
}

func Open(name string) (*File, error) {
	f, err := os.Open(name)
	if err != nil {
		return nil, err
	}
	return &File{f: f}, nil
}

func OpenFile(name string, flag int, perm FileMode) (*File, error) {
	writable := flag&(O_WRONLY|O_RDWR|O_CREATE|O_TRUNC|O_APPEND) != 0
	if !writable {
		return Open(name)
	}
	_, statErr := os.Stat(name)
	existed := statErr == nil
	f, err := os.OpenFile(name, flag, perm)
	if err != nil {
		return nil, err
	}
	vf := &File{f: f, app: flag&O_APPEND != 0}
	switch {
	case !existed || flag&O_TRUNC != 0:
		vf.id = newID()
		record(Op{Kind: "create", Path: name, File: vf.id})
	default:
		// opening an existing file for writing without truncation: writes are
		// attributed to the object currently bound to the name
		vf.id = -1
		record(Op{Kind: "reopen", Path: name, File: vf.id})
	}
	return vf, nil
}

func WriteFile(name string, data []byte, perm FileMode) error {
	f, err := OpenFile(name, O_WRONLY|O_CREATE|O_TRUNC, perm)
	if err != nil {
		return err
	}
	_, err = f.Write(data)
	if err1 := f.Close(); err1 != nil && err == nil {
		err = err1
	}
	return err
}

func Rename(oldpath, newpath string) error {
	record(Op{Kind: "rename", Path: oldpath, Path2: newpath})
	return os.Rename(oldpath, newpath)
}

func Remove(name string) error {
	record(Op{Kind: "remove", Path: name})
	return os.Remove(name)
}

func RemoveAll(path string) error {
	record(Op{Kind: "removeall", Path: path})
	return os.RemoveAll(path)
}

func Link(oldname, newname string) error {
	record(Op{Kind: "link", Path: oldname, Path2: newname})
	return os.Link(oldname, newname)
}

func Truncate(name string, size int64) error {
	record(Op{Kind: "truncate-path", Path: name, Size: size})
	return os.Truncate(name, size)
}

func Mkdir(name string, perm FileMode) error {
	record(Op{Kind: "mkdir", Path: name})
	return os.Mkdir(name, perm)
}

func MkdirAll(path string, perm FileMode) error {
	if _, err := os.Stat(path); err != nil {
		record(Op{Kind: "mkdir", Path: path})
	}
	return os.MkdirAll(path, perm)
}

func MkdirTemp(dir, pattern string) (string, error) { return os.MkdirTemp(dir, pattern) }
func CreateTemp(dir, pattern string) (*File, error) {
	f, err := os.CreateTemp(dir, pattern)
	if err != nil {
		return nil, err
	}
	vf := &File{f: f, id: newID()}
	record(Op{Kind: "create", Path: f.Name(), File: vf.id})
	return vf, nil
}

// read-only passthroughs
func Stat(name string) (FileInfo, error)      { return os.Stat(name) }
func Lstat(name string) (FileInfo, error)     { return os.Lstat(name) }
func ReadDir(name string) ([]DirEntry, error) { return os.ReadDir(name) }
func ReadFile(name string) ([]byte, error)    { return os.ReadFile(name) }
func IsNotExist(err error) bool               { return os.IsNotExist(err) }
func IsExist(err error) bool                  { return os.IsExist(err) }
func IsPermission(err error) bool             { return os.IsPermission(err) }
func IsTimeout(err error) bool                { return os.IsTimeout(err) }
func Getenv(k string) string                  { return os.Getenv(k) }
func LookupEnv(k string) (string, bool)       { return os.LookupEnv(k) }
func Hostname() (string, error)               { return os.Hostname() }
func Getpid() int                             { return os.Getpid() }
func Getwd() (string, error)                  { return os.Getwd() }
func TempDir() string                         { return os.TempDir() }
func Exit(code int)                           { os.Exit(code) }
func Chmod(name string, m FileMode) error     { return os.Chmod(name, m) }
func Chtimes(n string, a, m time.Time) error  { return os.Chtimes(n, a, m) }
func SameFile(a, b FileInfo) bool             { return os.SameFile(a, b) }
func DirFS(dir string) fs.FS                  { return os.DirFS(dir) }
func UserHomeDir() (string, error)            { return os.UserHomeDir() }

// ---- crash images ------------------------------------------------------------------

// Variant of a crash image.
type Variant struct {
	// Torn >= 0: operation K is a write and only its first Torn bytes reach the disk.
	Torn int
	// DropUnsynced: file data written after the file's last fsync is lost
	// (directory entries are durable in issue order).
	DropUnsynced bool
}

type object struct {
	data   []byte
	synced []byte
}

// Image materialises, in dstDir, the state of srcDir after the first k
// operations of log (relative file names are kept), under the given variant.
// Files that existed before the log started are not part of the image.
func Image(log []Op, k int, v Variant, srcDir, dstDir string) error {
	objs := map[int64]*object{}
	names := map[string]int64{} // base name -> object id
	// files already present in dstDir (an earlier crash image) are the starting state
	preexisting := map[string]bool{}
	if ents, err := os.ReadDir(dstDir); err == nil {
		var pid int64 = -1000
		for _, e := range ents {
			if e.IsDir() {
				continue
			}
			b, err := os.ReadFile(filepath.Join(dstDir, e.Name()))
			if err != nil {
				return err
			}
			pid--
			objs[pid] = &object{data: b, synced: append([]byte(nil), b...)}
			names[e.Name()] = pid
			preexisting[e.Name()] = true
		}
	}
	rel := func(p string) (string, bool) {
		r, err := filepath.Rel(srcDir, p)
		if err != nil || len(r) >= 2 && r[:2] == ".." {
			return "", false
		}
		return r, true
	}
	write := func(o *object, off int64, data []byte) {
		end := off + int64(len(data))
		if int64(len(o.data)) < end {
			o.data = append(o.data, make([]byte, end-int64(len(o.data)))...)
		}
		copy(o.data[off:end], data)
	}
	apply := func(op Op, torn int) {
		switch op.Kind {
		case "create":
			if n, ok := rel(op.Path); ok {
				objs[op.File] = &object{}
				names[n] = op.File
			}
		case "write":
			o := objs[op.File]
			if op.File == -1 {
				if n, ok := rel(op.Path); ok {
					o = objs[names[n]]
				}
			}
			if o == nil {
				return
			}
			data := op.Data
			if torn >= 0 && torn < len(data) {
				data = data[:torn]
			}
			write(o, op.Off, data)
		case "sync":
			if o := objs[op.File]; o != nil {
				o.synced = append([]byte(nil), o.data...)
			}
		case "truncate":
			if o := objs[op.File]; o != nil {
				if int64(len(o.data)) > op.Size {
					o.data = o.data[:op.Size]
				}
			}
		case "rename":
			n1, ok1 := rel(op.Path)
			n2, ok2 := rel(op.Path2)
			if ok1 && ok2 {
				if id, ok := names[n1]; ok {
					names[n2] = id
					delete(names, n1)
				}
			}
		case "link":
			n1, ok1 := rel(op.Path)
			n2, ok2 := rel(op.Path2)
			if ok1 && ok2 {
				if id, ok := names[n1]; ok {
					names[n2] = id
				}
			}
		case "remove":
			if n, ok := rel(op.Path); ok {
				delete(names, n)
			}
		}
	}
	for i := 0; i < k && i < len(log); i++ {
		apply(log[i], -1)
	}
	if v.Torn >= 0 && k < len(log) && log[k].Kind == "write" {
		apply(log[k], v.Torn)
	}
	for n := range preexisting {
		if _, ok := names[n]; !ok {
			os.Remove(filepath.Join(dstDir, n))
		}
	}
	for n, id := range names {
		o := objs[id]
		data := o.data
		if v.DropUnsynced {
			data = o.synced
		}
		p := filepath.Join(dstDir, n)
		if err := os.MkdirAll(filepath.Dir(p), 0o755); err != nil {
			return err
		}
		if err := os.WriteFile(p, data, 0o644); err != nil {
			return err
		}
	}
	return nil
}
