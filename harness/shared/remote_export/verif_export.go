package remote

// Overlay-only file (never part of /repo): lets harnesses of other packages
// build a target.remote whose DNS answers and dialer are scripted, the way the
// package's own tests do it by setting unexported fields.

import (
	"context"
	"net"

	"github.com/foxcpp/go-mockdns"
	"github.com/foxcpp/maddy/framework/log"
	"github.com/foxcpp/maddy/internal/limits"
	"github.com/foxcpp/maddy/internal/smtpconn/pool"
)

func VerifNewTarget(hostname string, zones map[string]mockdns.Zone, dial func(ctx context.Context, network, addr string) (net.Conn, error)) *Target {
	return &Target{name: "remote", hostname: hostname, resolver: &mockdns.Resolver{Zones: zones}, dialer: dial,
		Log: log.Logger{Out: log.NopOutput{}}, connReuseLimit: 10, limits: &limits.Group{},
		pool: pool.New(pool.Config{MaxKeys: 5000, MaxConnsPerKey: 5, MaxConnLifetimeSec: 150, StaleKeyLifetimeSec: 300})}
}
