package dns

// C13, the TLSA RRset DANE works with: ExtResolver.AuthLookupTLSA against a
// DNS server on loopback that behaves like a validating resolver (AD=1) and,
// like Unbound and BIND, never splits an RRset - an answer that does not fit
// in the UDP payload size is sent with TC=1 and no records, the complete
// answer is available over TCP. DANE "fails closed" only if the RRset it is
// given is the published one: an authenticated answer with fewer records than
// published turns "usable records exist and none matches -> refused" into
// "no records -> nothing to enforce".

import (
	"context"
	"encoding/hex"
	"fmt"
	"net"
	"os"
	"strings"
	"testing"
	"time"

	miekgdns "github.com/miekg/dns"
	"pgregory.net/rapid"
	"verifkit/ev"
)

type c13lCase struct {
	Records []int `json:"record_sizes"` // association data sizes in octets (32: SHA-256 ... 1400: a full certificate)
	MaxUDP  int   `json:"server_max_udp_size"`
}

func c13lServer(maxUDP int, rrs []miekgdns.RR) (addr string, tcpQueries *int, stop func(), err error) {
	// the same port for TCP and UDP: the UDP one may be taken, try another pair then
	var tcpL net.Listener
	var pc net.PacketConn
	for try := 0; ; try++ {
		tcpL, err = net.Listen("tcp4", "127.0.0.1:0")
		if err != nil {
			return "", nil, nil, err
		}
		pc, err = net.ListenPacket("udp4", tcpL.Addr().String())
		if err == nil {
			break
		}
		tcpL.Close()
		if try == 50 {
			return "", nil, nil, err
		}
	}
	n := 0
	handler := func(udp bool) miekgdns.HandlerFunc {
		return func(w miekgdns.ResponseWriter, m *miekgdns.Msg) {
			reply := new(miekgdns.Msg)
			reply.SetReply(m)
			reply.RecursionAvailable = true
			reply.AuthenticatedData = true
			if q := m.Question[0]; q.Qtype == miekgdns.TypeTLSA && q.Name == "_25._tcp.mx.example.invalid." {
				reply.Answer = rrs
			} else {
				reply.Rcode = miekgdns.RcodeNameError
			}
			if udp {
				limit := miekgdns.MinMsgSize
				if opt := m.IsEdns0(); opt != nil {
					limit = int(opt.UDPSize())
				}
				if limit > maxUDP {
					limit = maxUDP
				}
				if reply.Len() > limit {
					reply.Answer = nil
					reply.Truncated = true
				}
			} else {
				n++
			}
			w.WriteMsg(reply)
		}
	}
	udpSrv := &miekgdns.Server{PacketConn: pc, Handler: handler(true)}
	tcpSrv := &miekgdns.Server{Listener: tcpL, Handler: handler(false)}
	go udpSrv.ActivateAndServe()
	go tcpSrv.ActivateAndServe()
	return tcpL.Addr().String(), &n, func() { udpSrv.Shutdown(); tcpSrv.Shutdown() }, nil
}

func c13lRun(sc c13lCase) (vs []ev.V) {
	r := ev.Get("C13")
	var rrs []miekgdns.RR
	for i, size := range sc.Records {
		data := strings.Repeat(fmt.Sprintf("%02x", i+1), size)
		_ = hex.EncodeToString
		rrs = append(rrs, &miekgdns.TLSA{Hdr: miekgdns.RR_Header{Name: "_25._tcp.mx.example.invalid.", Rrtype: miekgdns.TypeTLSA, Class: miekgdns.ClassINET, Ttl: 300},
			Usage: 3, Selector: 0, MatchingType: 0, Certificate: data})
	}
	addr, _, stop, err := c13lServer(sc.MaxUDP, rrs)
	if err != nil {
		r.HarnessError("dns server: %v", err)
		return nil
	}
	defer stop()
	host, port, _ := net.SplitHostPort(addr)
	cl := new(miekgdns.Client)
	cl.Dialer = &net.Dialer{Timeout: 3 * time.Second}
	e := ExtResolver{cl: cl, Cfg: &miekgdns.ClientConfig{Servers: []string{host}, Port: port, Timeout: 3}}
	ctx, cancel := context.WithTimeout(context.Background(), 10*time.Second)
	defer cancel()
	ad, recs, err := e.AuthLookupTLSA(ctx, "25", "tcp", "mx.example.invalid.")
	if os.Getenv("VERIF_DEBUG") != "" {
		fmt.Println("C13L-DEBUG", sc, ad, len(recs), err)
	}
	if err != nil {
		return nil // a failed discovery defers the delivery: fails closed
	}
	if ad && len(recs) != len(rrs) {
		vs = append(vs, ev.Vf("tlsa-lookup:authenticated-answer-incomplete", "%d TLSA records are published (%v octets of association data, server sends at most %d octets over UDP), AuthLookupTLSA returned ad=true with %d records and no error", len(rrs), sc.Records, sc.MaxUDP, len(recs)))
	}
	return vs
}

func TestVerifC13TLSALookup(t *testing.T) {
	r := ev.Get("C13")
	ev.Run(t, r, ev.Spec[c13lCase]{Name: "tlsa-lookup", N: r.Scale(1, 200, 80), Gen: func(t *rapid.T) c13lCase {
		sc := c13lCase{MaxUDP: rapid.SampledFrom([]int{512, 1232, 4096}).Draw(t, "max_udp")}
		for i, n := 0, rapid.IntRange(1, 5).Draw(t, "nrecords"); i < n; i++ {
			sc.Records = append(sc.Records, rapid.SampledFrom([]int{32, 32, 64, 300, 900, 1400}).Draw(t, "size"))
		}
		return sc
	}, Run: c13lRun, Info: func(sc c13lCase) ev.Info {
		total := 0
		for _, s := range sc.Records {
			total += s + 16
		}
		return ev.Info{Nontrivial: total > sc.MaxUDP-60, Classes: []string{fmt.Sprintf("max_udp=%d", sc.MaxUDP), fmt.Sprintf("fits=%v", total <= sc.MaxUDP-60)}}
	}})
}
