package msgpipeline

// Shared harness code for the msgpipeline checks (C04, C06, C20-shipped):
// recording delivery targets and scripted tables, registered as ordinary
// modules so that pipelines are built through the real directive parsers.

import (
	"context"
	"fmt"
	"strings"
	"sync"

	"github.com/emersion/go-message/textproto"
	"github.com/emersion/go-smtp"
	"github.com/foxcpp/maddy/framework/buffer"
	"github.com/foxcpp/maddy/framework/config"
	"github.com/foxcpp/maddy/framework/module"
)

// ---- event log shared by all recording modules of one scenario ------------------

type vEvent struct {
	Tgt   string // target id
	Inst  int    // module instance number (each deliver_to creates one)
	Deliv int    // delivery number
	Op    string // start rcpt body commit abort
	Arg   string
	Quar  bool // msgMeta.Quarantine at that moment
	Err   string
}

type vRecorder struct {
	mu     sync.Mutex
	events []vEvent
	ninst  int
	ndeliv int
	// scripted failures: key "tgt/op/arg" (arg may be "*") -> error
	fail map[string]error
}

var vRec = &vRecorder{fail: map[string]error{}}

func vReset() {
	vRec = &vRecorder{fail: map[string]error{}}
}

func (r *vRecorder) add(e vEvent) {
	r.mu.Lock()
	r.events = append(r.events, e)
	r.mu.Unlock()
}

func (r *vRecorder) snapshot() []vEvent {
	r.mu.Lock()
	defer r.mu.Unlock()
	return append([]vEvent(nil), r.events...)
}

func (r *vRecorder) failure(tgt, op, arg string) error {
	r.mu.Lock()
	defer r.mu.Unlock()
	if e, ok := r.fail[tgt+"/"+op+"/"+arg]; ok {
		return e
	}
	return r.fail[tgt+"/"+op+"/*"]
}

// ---- recording target: `deliver_to verif_tgt <id>` ---------------------------------

type vTarget struct {
	id   string
	inst int
}

func (t *vTarget) Init(*config.Map) error { return nil }
func (t *vTarget) Name() string           { return "target.verif_tgt" }
func (t *vTarget) InstanceName() string   { return "verif_tgt_" + t.id }

type vDelivery struct {
	t     *vTarget
	n     int
	meta  *module.MsgMetadata
	rcpts []string
}

func (t *vTarget) Start(ctx context.Context, meta *module.MsgMetadata, from string) (module.Delivery, error) {
	vRec.mu.Lock()
	vRec.ndeliv++
	n := vRec.ndeliv
	vRec.mu.Unlock()
	err := vRec.failure(t.id, "start", from)
	vRec.add(vEvent{Tgt: t.id, Inst: t.inst, Deliv: n, Op: "start", Arg: from, Quar: meta.Quarantine, Err: errStr(err)})
	if err != nil {
		return nil, err
	}
	return &vDelivery{t: t, n: n, meta: meta}, nil
}

func errStr(err error) string {
	if err == nil {
		return ""
	}
	return err.Error()
}

func (d *vDelivery) AddRcpt(ctx context.Context, to string, _ smtp.RcptOptions) error {
	err := vRec.failure(d.t.id, "rcpt", to)
	vRec.add(vEvent{Tgt: d.t.id, Inst: d.t.inst, Deliv: d.n, Op: "rcpt", Arg: to, Quar: d.meta.Quarantine, Err: errStr(err)})
	if err == nil {
		d.rcpts = append(d.rcpts, to)
	}
	return err
}

func (d *vDelivery) Body(ctx context.Context, h textproto.Header, b buffer.Buffer) error {
	err := vRec.failure(d.t.id, "body", "")
	vRec.add(vEvent{Tgt: d.t.id, Inst: d.t.inst, Deliv: d.n, Op: "body", Arg: strings.Join(d.rcpts, ","), Quar: d.meta.Quarantine, Err: errStr(err)})
	return err
}

func (d *vDelivery) Commit(ctx context.Context) error {
	err := vRec.failure(d.t.id, "commit", "")
	vRec.add(vEvent{Tgt: d.t.id, Inst: d.t.inst, Deliv: d.n, Op: "commit", Quar: d.meta.Quarantine, Err: errStr(err)})
	return err
}

func (d *vDelivery) Abort(ctx context.Context) error {
	vRec.add(vEvent{Tgt: d.t.id, Inst: d.t.inst, Deliv: d.n, Op: "abort"})
	return nil
}

// per-recipient variant: `deliver_to verif_ptgt <id>` (implements PartialDelivery)
type vPartialTarget struct{ vTarget }

type vPartialDelivery struct{ *vDelivery }

func (t *vPartialTarget) Name() string { return "target.verif_ptgt" }
func (t *vPartialTarget) Start(ctx context.Context, meta *module.MsgMetadata, from string) (module.Delivery, error) {
	d, err := t.vTarget.Start(ctx, meta, from)
	if err != nil {
		return nil, err
	}
	return &vPartialDelivery{d.(*vDelivery)}, nil
}

func (d *vPartialDelivery) BodyNonAtomic(ctx context.Context, sc module.StatusCollector, h textproto.Header, b buffer.Buffer) {
	vRec.add(vEvent{Tgt: d.t.id, Inst: d.t.inst, Deliv: d.n, Op: "body", Arg: strings.Join(d.rcpts, ","), Quar: d.meta.Quarantine})
	for _, r := range d.rcpts {
		sc.SetStatus(r, vRec.failure(d.t.id, "status", r))
	}
}

// ---- tables: `verif_set k1 k2 ...` and `verif_map k1 v1a,v1b k2 v2 ...` ---------------

type vSetTable struct{ keys map[string]bool }

func (t *vSetTable) Init(*config.Map) error { return nil }
func (t *vSetTable) Name() string           { return "table.verif_set" }
func (t *vSetTable) InstanceName() string   { return "verif_set" }
func (t *vSetTable) Lookup(_ context.Context, k string) (string, bool, error) {
	return "", t.keys[k], nil
}

type vMapTable struct{ m map[string][]string }

func (t *vMapTable) Init(*config.Map) error { return nil }
func (t *vMapTable) Name() string           { return "table.verif_map" }
func (t *vMapTable) InstanceName() string   { return "verif_map" }
func (t *vMapTable) Lookup(_ context.Context, k string) (string, bool, error) {
	v := t.m[k]
	if len(v) == 0 {
		return "", false, nil
	}
	return v[0], true, nil
}
func (t *vMapTable) LookupMulti(_ context.Context, k string) ([]string, error) { return t.m[k], nil }

func init() {
	module.Register("target.verif_tgt", func(_, _ string, _, args []string) (module.Module, error) {
		if len(args) != 1 {
			return nil, fmt.Errorf("verif_tgt: one argument required")
		}
		vRec.mu.Lock()
		vRec.ninst++
		n := vRec.ninst
		vRec.mu.Unlock()
		return &vTarget{id: args[0], inst: n}, nil
	})
	module.Register("target.verif_ptgt", func(_, _ string, _, args []string) (module.Module, error) {
		if len(args) != 1 {
			return nil, fmt.Errorf("verif_ptgt: one argument required")
		}
		vRec.mu.Lock()
		vRec.ninst++
		n := vRec.ninst
		vRec.mu.Unlock()
		return &vPartialTarget{vTarget{id: args[0], inst: n}}, nil
	})
	module.Register("table.verif_set", func(_, _ string, _, args []string) (module.Module, error) {
		t := &vSetTable{keys: map[string]bool{}}
		for _, a := range args {
			t.keys[a] = true
		}
		return t, nil
	})
	module.Register("table.verif_map", func(_, _ string, _, args []string) (module.Module, error) {
		t := &vMapTable{m: map[string][]string{}}
		for i := 0; i+1 < len(args); i += 2 {
			t.m[args[i]] = strings.Split(args[i+1], ",")
		}
		return t, nil
	})
}
