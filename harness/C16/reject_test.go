package msgpipeline

// C16 harness, reject directive (injected into internal/msgpipeline by overlay):
// a `reject` directive with zero or one argument lets maddy choose the
// enhanced code, which therefore has to agree with the basic code's class.

import (
	"fmt"
	"strconv"
	"testing"

	"github.com/foxcpp/maddy/framework/config"
	"pgregory.net/rapid"
	"verifkit/ev"
)

type c16Reject struct {
	Args []string `json:"args"`
}

func c16RunReject(sc c16Reject) []ev.V {
	se, err := parseRejectDirective(config.Node{Name: "reject", Args: sc.Args})
	if err != nil {
		return nil
	}
	if len(sc.Args) >= 2 {
		return nil // both codes typed by the administrator
	}
	if se.Code/100 != se.EnhancedCode[0] {
		sig := "reject-directive:one-argument-4yz"
		if se.Code/100 != 4 {
			sig = "reject-directive:other"
		}
		return []ev.V{ev.Vf(sig, "`reject %v` yields %d with enhanced code %v", sc.Args, se.Code, se.EnhancedCode)}
	}
	return nil
}

func TestVerifC16Reject(t *testing.T) {
	r := ev.Get("C16")
	ev.Run(t, r, ev.Spec[c16Reject]{Name: "reject-directive", N: r.Scale(1, 40, 200), Gen: func(t *rapid.T) c16Reject {
		n := rapid.IntRange(0, 3).Draw(t, "nargs")
		var a []string
		if n >= 1 {
			a = append(a, strconv.Itoa(rapid.SampledFrom([]int{450, 451, 421, 410, 499, 550, 554, 501, 599, 250, 399, 600}).Draw(t, "code")))
		}
		if n >= 2 {
			a = append(a, fmt.Sprintf("%d.%d.%d", rapid.SampledFrom([]int{4, 5, 2}).Draw(t, "e0"), rapid.IntRange(0, 7).Draw(t, "e1"), rapid.IntRange(0, 30).Draw(t, "e2")))
		}
		if n >= 3 {
			a = append(a, rapid.SampledFrom([]string{"Go away", "No", ""}).Draw(t, "msg"))
		}
		return c16Reject{Args: a}
	}, Run: c16RunReject, Info: func(sc c16Reject) ev.Info { return ev.Info{Nontrivial: len(sc.Args) == 1} }})
}
