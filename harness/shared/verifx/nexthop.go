package verifx

// NextHop is a scripted SMTP/LMTP server (go-smtp server with a scripted
// backend) that plays the remote MX / downstream server for the outbound
// targets: capability set, optional STARTTLS, scripted replies per command and
// per recipient, per-recipient LMTP statuses, connection drop, capture of what
// was received together with the TLS state of the connection.

import (
	"crypto/tls"
	"errors"
	"io"
	"net"
	"strconv"
	"sync"
	"time"

	"github.com/emersion/go-sasl"
	"github.com/emersion/go-smtp"
)

type HopMsg struct {
	From    string
	Opts    smtp.MailOptions
	To      []string
	Data    []byte
	TLS     bool
	Session int
}

type HopConfig struct {
	Name       string
	ListenIP   string // e.g. 127.0.0.1
	LMTP       bool
	UTF8       bool
	RequireTLS bool
	TLS        *tls.Config // non-nil: STARTTLS is advertised
}

type NextHop struct {
	Cfg  HopConfig
	Addr string

	mu       sync.Mutex
	script   map[string]string // "mail", "rcpt:<addr>", "rcpt", "data", "status:<addr>", "drop:<stage>" -> T | P | drop; "dropafter" -> number of per-recipient LMTP replies given before the connection is cut
	Msgs     []HopMsg
	Log      []string
	sessions int
	srv      *smtp.Server
	l        net.Listener
}

func StartNextHop(cfg HopConfig) (*NextHop, error) {
	ip := cfg.ListenIP
	if ip == "" {
		ip = "127.0.0.1"
	}
	l, err := net.Listen("tcp", ip+":0")
	if err != nil {
		return nil, err
	}
	h := &NextHop{Cfg: cfg, Addr: l.Addr().String(), script: map[string]string{}, l: l}
	s := smtp.NewServer(h)
	s.Domain = cfg.Name
	if s.Domain == "" {
		s.Domain = "nexthop.test"
	}
	s.LMTP = cfg.LMTP
	s.EnableSMTPUTF8 = cfg.UTF8
	s.EnableREQUIRETLS = cfg.RequireTLS
	s.TLSConfig = cfg.TLS
	s.AllowInsecureAuth = true
	h.srv = s
	go s.Serve(l)
	return h, nil
}

func (h *NextHop) Close() { h.srv.Close() }

// Script sets the scripted reply for a key ("" removes it).
func (h *NextHop) Script(key, val string) {
	h.mu.Lock()
	defer h.mu.Unlock()
	if val == "" {
		delete(h.script, key)
	} else {
		h.script[key] = val
	}
}

func (h *NextHop) ResetScript() {
	h.mu.Lock()
	h.script = map[string]string{}
	h.mu.Unlock()
}

func (h *NextHop) Messages() []HopMsg {
	h.mu.Lock()
	defer h.mu.Unlock()
	return append([]HopMsg(nil), h.Msgs...)
}

func (h *NextHop) Sessions() int {
	h.mu.Lock()
	defer h.mu.Unlock()
	return h.sessions
}

func (h *NextHop) get(keys ...string) string {
	h.mu.Lock()
	defer h.mu.Unlock()
	for _, k := range keys {
		if v, ok := h.script[k]; ok {
			return v
		}
	}
	return ""
}

func hopErr(cls, what string) *smtp.SMTPError {
	switch cls {
	case "T":
		return &smtp.SMTPError{Code: 451, EnhancedCode: smtp.EnhancedCode{4, 3, 0}, Message: "next hop: temporary failure at " + what}
	case "P":
		return &smtp.SMTPError{Code: 550, EnhancedCode: smtp.EnhancedCode{5, 1, 1}, Message: "next hop: permanent failure at " + what}
	}
	return nil
}

type hopSession struct {
	h    *NextHop
	conn *smtp.Conn
	n    int
	msg  *HopMsg
}

func (h *NextHop) NewSession(c *smtp.Conn) (smtp.Session, error) {
	h.mu.Lock()
	h.sessions++
	n := h.sessions
	h.mu.Unlock()
	return &hopSession{h: h, conn: c, n: n}, nil
}

func (s *hopSession) AuthMechanisms() []string            { return nil }
func (s *hopSession) Auth(string) (sasl.Server, error)    { return nil, errors.New("no auth") }
func (s *hopSession) Reset()                              { s.msg = nil }
func (s *hopSession) Logout() error                       { return nil }

func (s *hopSession) act(cls, what string) error {
	if cls == "drop" {
		s.conn.Conn().Close()
		return &smtp.SMTPError{Code: 421, EnhancedCode: smtp.EnhancedCode{4, 4, 2}, Message: "dropping"}
	}
	if e := hopErr(cls, what); e != nil {
		return e
	}
	return nil
}

func (s *hopSession) Mail(from string, opts *smtp.MailOptions) error {
	if err := s.act(s.h.get("mail"), "MAIL"); err != nil {
		return err
	}
	_, isTLS := s.conn.TLSConnectionState()
	s.msg = &HopMsg{From: from, Opts: *opts, TLS: isTLS, Session: s.n}
	return nil
}

func (s *hopSession) Rcpt(to string, _ *smtp.RcptOptions) error {
	if err := s.act(s.h.get("rcpt:"+to, "rcpt"), "RCPT"); err != nil {
		return err
	}
	if s.msg == nil {
		s.msg = &HopMsg{Session: s.n}
	}
	s.msg.To = append(s.msg.To, to)
	return nil
}

func (s *hopSession) Data(r io.Reader) error {
	b, err := io.ReadAll(r)
	if err != nil {
		return err
	}
	if err := s.act(s.h.get("data"), "DATA"); err != nil {
		return err
	}
	s.msg.Data = b
	s.h.mu.Lock()
	s.h.Msgs = append(s.h.Msgs, *s.msg)
	s.h.mu.Unlock()
	return nil
}

func (s *hopSession) LMTPData(r io.Reader, status smtp.StatusCollector) error {
	b, err := io.ReadAll(r)
	if err != nil {
		return err
	}
	if err := s.act(s.h.get("data"), "DATA"); err != nil {
		return err
	}
	s.msg.Data = b
	delivered := *s.msg
	delivered.To = nil
	dropAfter := -1
	if v := s.h.get("dropafter"); v != "" {
		dropAfter, _ = strconv.Atoi(v)
	}
	for i, rc := range s.msg.To {
		if i == dropAfter {
			// the server dies after it has answered for the first `dropAfter` recipients
			time.Sleep(3 * time.Millisecond) // let the replies already produced reach the wire
			s.h.mu.Lock()
			s.h.Msgs = append(s.h.Msgs, delivered)
			s.h.mu.Unlock()
			s.conn.Conn().Close()
			return &smtp.SMTPError{Code: 421, EnhancedCode: smtp.EnhancedCode{4, 4, 2}, Message: "dropping"}
		}
		if e := hopErr(s.h.get("status:"+rc, "status"), "delivery to "+rc); e != nil {
			status.SetStatus(rc, e)
			continue
		}
		status.SetStatus(rc, nil)
		delivered.To = append(delivered.To, rc)
	}
	s.h.mu.Lock()
	s.h.Msgs = append(s.h.Msgs, delivered)
	s.h.mu.Unlock()
	return nil
}
