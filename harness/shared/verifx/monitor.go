package verifx

// Monitor modules: recording delivery targets with a typestate monitor,
// scripted checks and scripted modifiers, registered as ordinary maddy modules
// (`deliver_to verif_mon <id> [partial]`, `check { verif_chk <id> { fail_action ... } }`,
// `modify { verif_mod <id> }`) so that harnesses build endpoints and pipelines
// through the real configuration parsers.

import (
	"context"
	"errors"
	"fmt"
	"strings"
	"sync"
	"time"

	"github.com/emersion/go-message/textproto"
	"github.com/emersion/go-smtp"
	"github.com/foxcpp/maddy/framework/buffer"
	"github.com/foxcpp/maddy/framework/config"
	modconfig "github.com/foxcpp/maddy/framework/config/module"
	"github.com/foxcpp/maddy/framework/exterrors"
	"github.com/foxcpp/maddy/framework/module"
)

type MonEvent struct {
	N     int       `json:"n"`
	Tgt   string    `json:"tgt"`
	Deliv int       `json:"deliv"`
	Op    string    `json:"op"` // start rcpt body status commit abort | chk:<stage> | mod:<stage>
	Arg   string    `json:"arg,omitempty"`
	Err   string    `json:"err,omitempty"`
	Quar  bool      `json:"quarantine,omitempty"`
	MsgID string    `json:"msg_id,omitempty"`
	At    time.Time `json:"-"`
}

// Recorder is the shared event log of one scenario.
type Recorder struct {
	mu     sync.Mutex
	Events []MonEvent
	ndeliv int
	// Faults: key "<module id>/<op>" or "<module id>/<op>/<arg>" -> fault class "T" (temporary), "P" (permanent), "U" (unclassified)
	Faults map[string]string
	// problems found by the typestate monitor
	Problems []string
	state    map[int]string // delivery -> open | committed | aborted
	// Hook, if set, is called (without the lock) at every target operation; used to park operations.
	Hook func(e MonEvent)
}

var (
	recMu sync.Mutex
	rec   = NewRecorder()
)

func NewRecorder() *Recorder {
	return &Recorder{Faults: map[string]string{}, state: map[int]string{}}
}

// Reset installs a fresh recorder and returns it.
func Reset() *Recorder {
	recMu.Lock()
	defer recMu.Unlock()
	rec = NewRecorder()
	return rec
}

func cur() *Recorder {
	recMu.Lock()
	defer recMu.Unlock()
	return rec
}

func (r *Recorder) add(e MonEvent) MonEvent {
	r.mu.Lock()
	e.N = len(r.Events)
	e.At = time.Now()
	r.Events = append(r.Events, e)
	h := r.Hook
	r.mu.Unlock()
	if h != nil {
		h(e)
	}
	return e
}

func (r *Recorder) Snapshot() []MonEvent {
	r.mu.Lock()
	defer r.mu.Unlock()
	return append([]MonEvent(nil), r.Events...)
}

func (r *Recorder) fault(id, op, arg string) error {
	r.mu.Lock()
	cls, ok := r.Faults[id+"/"+op+"/"+arg]
	if !ok {
		cls, ok = r.Faults[id+"/"+op]
	}
	r.mu.Unlock()
	if !ok {
		return nil
	}
	return FaultErr(cls, id+" "+op)
}

// FaultErr builds an error of the given class.
func FaultErr(cls, what string) error {
	switch cls {
	case "T":
		return &exterrors.SMTPError{Code: 451, EnhancedCode: exterrors.EnhancedCode{4, 3, 0}, Message: "scripted temporary failure (" + what + ")", TargetName: "verif"}
	case "P":
		return &exterrors.SMTPError{Code: 550, EnhancedCode: exterrors.EnhancedCode{5, 3, 0}, Message: "scripted permanent failure (" + what + ")", TargetName: "verif"}
	default:
		return errors.New("scripted internal failure: open /var/lib/secret: permission denied (" + what + ")")
	}
}

func (r *Recorder) problem(format string, a ...any) {
	r.mu.Lock()
	r.Problems = append(r.Problems, fmt.Sprintf(format, a...))
	r.mu.Unlock()
}

// Open returns the deliveries that were neither committed nor aborted.
func (r *Recorder) Open() []int {
	r.mu.Lock()
	defer r.mu.Unlock()
	var out []int
	for d, st := range r.state {
		if st == "open" {
			out = append(out, d)
		}
	}
	return out
}

func (r *Recorder) Describe(deliv int) string {
	r.mu.Lock()
	defer r.mu.Unlock()
	var parts []string
	for _, e := range r.Events {
		if e.Deliv == deliv {
			s := e.Op
			if e.Arg != "" {
				s += " " + e.Arg
			}
			if e.Err != "" {
				s += " ERR"
			}
			parts = append(parts, s)
		}
	}
	return strings.Join(parts, ", ")
}

// ---- target ------------------------------------------------------------------------------

type MonTarget struct {
	ID      string
	Partial bool
}

func (t *MonTarget) Init(*config.Map) error { return nil }
func (t *MonTarget) Name() string           { return "target.verif_mon" }
func (t *MonTarget) InstanceName() string   { return "verif_mon_" + t.ID }

type monDelivery struct {
	t     *MonTarget
	r     *Recorder
	n     int
	meta  *module.MsgMetadata
	rcpts []string
}

type monPartialDelivery struct{ *monDelivery }

func (t *MonTarget) Start(ctx context.Context, meta *module.MsgMetadata, from string) (module.Delivery, error) {
	r := cur()
	r.mu.Lock()
	r.ndeliv++
	n := r.ndeliv
	r.mu.Unlock()
	err := r.fault(t.ID, "start", "")
	r.add(MonEvent{Tgt: t.ID, Deliv: n, Op: "start", Arg: from, Err: es(err), MsgID: meta.ID, Quar: meta.Quarantine})
	if err != nil {
		return nil, err
	}
	r.mu.Lock()
	r.state[n] = "open"
	r.mu.Unlock()
	d := &monDelivery{t: t, r: r, n: n, meta: meta}
	if t.Partial {
		return &monPartialDelivery{d}, nil
	}
	return d, nil
}

func es(err error) string {
	if err == nil {
		return ""
	}
	return err.Error()
}

func (d *monDelivery) use(op string) {
	d.r.mu.Lock()
	st := d.r.state[d.n]
	d.r.mu.Unlock()
	if st != "open" {
		d.r.problem("target %s delivery %d: %s after it was %s", d.t.ID, d.n, op, st)
	}
}

func (d *monDelivery) AddRcpt(ctx context.Context, to string, _ smtp.RcptOptions) error {
	d.use("AddRcpt")
	err := d.r.fault(d.t.ID, "rcpt", to)
	d.r.add(MonEvent{Tgt: d.t.ID, Deliv: d.n, Op: "rcpt", Arg: to, Err: es(err), MsgID: d.meta.ID})
	if err == nil {
		d.rcpts = append(d.rcpts, to)
	}
	return err
}

func (d *monDelivery) Body(ctx context.Context, h textproto.Header, b buffer.Buffer) error {
	d.use("Body")
	err := d.r.fault(d.t.ID, "body", "")
	d.r.add(MonEvent{Tgt: d.t.ID, Deliv: d.n, Op: "body", Arg: strings.Join(d.rcpts, ","), Err: es(err), MsgID: d.meta.ID, Quar: d.meta.Quarantine})
	return err
}

func (d *monPartialDelivery) BodyNonAtomic(ctx context.Context, sc module.StatusCollector, h textproto.Header, b buffer.Buffer) {
	d.use("BodyNonAtomic")
	d.r.add(MonEvent{Tgt: d.t.ID, Deliv: d.n, Op: "body", Arg: strings.Join(d.rcpts, ","), MsgID: d.meta.ID, Quar: d.meta.Quarantine})
	for _, rc := range d.rcpts {
		err := d.r.fault(d.t.ID, "status", rc)
		d.r.add(MonEvent{Tgt: d.t.ID, Deliv: d.n, Op: "status", Arg: rc, Err: es(err), MsgID: d.meta.ID})
		sc.SetStatus(rc, err)
	}
}

func (d *monDelivery) close(op string) {
	d.r.mu.Lock()
	st := d.r.state[d.n]
	if st == "open" {
		if op == "commit" {
			d.r.state[d.n] = "committed"
		} else {
			d.r.state[d.n] = "aborted"
		}
	}
	d.r.mu.Unlock()
	if st != "open" {
		d.r.problem("target %s delivery %d: %s after it was already %s (closed twice)", d.t.ID, d.n, op, st)
	}
}

func (d *monDelivery) Commit(ctx context.Context) error {
	err := d.r.fault(d.t.ID, "commit", "")
	d.close("commit")
	d.r.add(MonEvent{Tgt: d.t.ID, Deliv: d.n, Op: "commit", Err: es(err), MsgID: d.meta.ID, Quar: d.meta.Quarantine})
	return err
}

func (d *monDelivery) Abort(ctx context.Context) error {
	err := d.r.fault(d.t.ID, "abort", "")
	d.close("abort")
	d.r.add(MonEvent{Tgt: d.t.ID, Deliv: d.n, Op: "abort", Err: es(err), MsgID: d.meta.ID})
	return err
}

// ---- scripted check -----------------------------------------------------------------------------

type ScriptCheck struct {
	ID     string
	action modconfig.FailAction
}

func (c *ScriptCheck) Init(cfg *config.Map) error {
	cfg.Custom("fail_action", false, false, func() (interface{}, error) {
		return modconfig.FailAction{Reject: true}, nil
	}, modconfig.FailActionDirective, &c.action)
	_, err := cfg.Process()
	return err
}
func (c *ScriptCheck) Name() string         { return "check.verif_chk" }
func (c *ScriptCheck) InstanceName() string { return "verif_chk_" + c.ID }

type scriptCheckState struct {
	c *ScriptCheck
	r *Recorder
}

func (c *ScriptCheck) CheckStateForMsg(ctx context.Context, meta *module.MsgMetadata) (module.CheckState, error) {
	r := cur()
	if err := r.fault("chk:"+c.ID, "init", ""); err != nil {
		r.add(MonEvent{Tgt: "chk:" + c.ID, Op: "chk:init", Err: es(err)})
		return nil, err
	}
	return &scriptCheckState{c: c, r: r}, nil
}

func (s *scriptCheckState) res(stage, arg string) module.CheckResult {
	err := s.r.fault("chk:"+s.c.ID, stage, arg)
	s.r.add(MonEvent{Tgt: "chk:" + s.c.ID, Op: "chk:" + stage, Arg: arg, Err: es(err)})
	if err == nil {
		return module.CheckResult{}
	}
	return s.c.action.Apply(module.CheckResult{Reason: err})
}

func (s *scriptCheckState) CheckConnection(ctx context.Context) module.CheckResult {
	return s.res("conn", "")
}
func (s *scriptCheckState) CheckSender(ctx context.Context, from string) module.CheckResult {
	return s.res("sender", "")
}
func (s *scriptCheckState) CheckRcpt(ctx context.Context, to string) module.CheckResult {
	return s.res("rcpt", to)
}
func (s *scriptCheckState) CheckBody(ctx context.Context, h textproto.Header, b buffer.Buffer) module.CheckResult {
	return s.res("body", "")
}
func (s *scriptCheckState) Close() error { return nil }

// ---- scripted modifier ----------------------------------------------------------------------------

type ScriptModifier struct{ ID string }

func (m *ScriptModifier) Init(*config.Map) error { return nil }
func (m *ScriptModifier) Name() string           { return "modify.verif_mod" }
func (m *ScriptModifier) InstanceName() string   { return "verif_mod_" + m.ID }

type scriptModState struct {
	m *ScriptModifier
	r *Recorder
}

func (m *ScriptModifier) ModStateForMsg(ctx context.Context, meta *module.MsgMetadata) (module.ModifierState, error) {
	r := cur()
	if err := r.fault("mod:"+m.ID, "init", ""); err != nil {
		r.add(MonEvent{Tgt: "mod:" + m.ID, Op: "mod:init", Err: es(err)})
		return nil, err
	}
	return &scriptModState{m: m, r: r}, nil
}

func (s *scriptModState) RewriteSender(ctx context.Context, from string) (string, error) {
	err := s.r.fault("mod:"+s.m.ID, "sender", "")
	s.r.add(MonEvent{Tgt: "mod:" + s.m.ID, Op: "mod:sender", Err: es(err)})
	return from, err
}
func (s *scriptModState) RewriteRcpt(ctx context.Context, to string) ([]string, error) {
	err := s.r.fault("mod:"+s.m.ID, "rcpt", to)
	s.r.add(MonEvent{Tgt: "mod:" + s.m.ID, Op: "mod:rcpt", Arg: to, Err: es(err)})
	// Faults["mod:<id>/rewrite"] set: recipients are rewritten to an alias in the same domain (same routing)
	s.r.mu.Lock()
	rewrite := s.r.Faults["mod:"+s.m.ID+"/rewrite"]
	s.r.mu.Unlock()
	if rewrite != "" && err == nil {
		if at := strings.LastIndexByte(to, '@'); at > 0 {
			if rewrite == "case" {
				// another spelling of the same mailbox
				return []string{SwapCase(to[:at]) + to[at:]}, nil
			}
			return []string{to[:at] + "+alias" + to[at:]}, nil
		}
	}
	return []string{to}, err
}
func (s *scriptModState) RewriteBody(ctx context.Context, h *textproto.Header, b buffer.Buffer) error {
	err := s.r.fault("mod:"+s.m.ID, "body", "")
	s.r.add(MonEvent{Tgt: "mod:" + s.m.ID, Op: "mod:body", Err: es(err)})
	return err
}
func (s *scriptModState) Close() error { return nil }

func init() {
	module.Register("target.verif_mon", func(_, _ string, _, args []string) (module.Module, error) {
		if len(args) < 1 {
			return nil, fmt.Errorf("verif_mon: id required")
		}
		return &MonTarget{ID: args[0], Partial: len(args) > 1 && args[1] == "partial"}, nil
	})
	module.Register("check.verif_chk", func(_, _ string, _, args []string) (module.Module, error) {
		if len(args) != 1 {
			return nil, fmt.Errorf("verif_chk: id required")
		}
		return &ScriptCheck{ID: args[0], action: modconfig.FailAction{Reject: true}}, nil
	})
	module.Register("modify.verif_mod", func(_, _ string, _, args []string) (module.Module, error) {
		if len(args) != 1 {
			return nil, fmt.Errorf("verif_mod: id required")
		}
		return &ScriptModifier{ID: args[0]}, nil
	})
}

// SwapCase turns a lower-case local part into upper case and any other one into lower case.
func SwapCase(local string) string {
	if strings.ToLower(local) == local {
		return strings.ToUpper(local)
	}
	return strings.ToLower(local)
}
