package smtp

// C14, endpoint clause: "a submission endpoint accepts no mail transaction
// before a successful authentication" (and hands out 235 only for valid
// credentials with an acceptable authorization identity). Generated command
// sequences are played by the raw-socket client of the C03 harness against the
// real submission endpoint with a scripted credentials provider.

import (
	"bufio"
	"encoding/base64"
	"fmt"
	"net"
	"strings"
	"testing"
	"time"

	"github.com/foxcpp/maddy/framework/config"
	"github.com/foxcpp/maddy/framework/log"
	"github.com/foxcpp/maddy/framework/module"
	"github.com/foxcpp/maddy/internal/verifx"
	"pgregory.net/rapid"
	"verifkit/ev"
)

type c14sStep struct {
	Op      string `json:"op"` // EHLO HELO AUTHP AUTHP2 AUTHL AUTHX MAIL RCPT DATA BDAT RSET NOOP STARTTLS QUIT
	User    string `json:"user,omitempty"`
	Pass    string `json:"pass,omitempty"`
	Authzid string `json:"authzid,omitempty"`
	Garbage bool   `json:"garbage,omitempty"` // AUTH data that is not base64 / cancelled with "*"
}

type c14sScenario struct {
	SASLLogin bool       `json:"sasl_login"`
	Defer     bool       `json:"defer_sender_reject"`
	Steps     []c14sStep `json:"steps"`
}

var c14sAccounts = map[string]string{"alice": "wonderland", "bob@example.org": "p w"}

type c14sAuth struct{}

func (c14sAuth) Init(*config.Map) error { return nil }
func (c14sAuth) Name() string          { return "auth.verif_auth" }
func (c14sAuth) InstanceName() string  { return "verif_auth" }
func (c14sAuth) AuthPlain(user, pass string) error {
	if want, ok := c14sAccounts[user]; ok && want == pass {
		return nil
	}
	return fmt.Errorf("verif_auth: invalid credentials for %q", user)
}

func init() {
	module.Register("auth.verif_auth", func(_, _ string, _, _ []string) (module.Module, error) { return c14sAuth{}, nil })
}

func c14sGen(t *rapid.T) c14sScenario {
	sc := c14sScenario{SASLLogin: rapid.Bool().Draw(t, "sasl_login"), Defer: rapid.Bool().Draw(t, "defer")}
	users := []string{"alice", "alice", "bob@example.org", "ALICE", "mallory", ""}
	passes := []string{"wonderland", "wonderland", "p w", "wrong", ""}
	n := rapid.IntRange(1, 12).Draw(t, "nsteps")
	for i := 0; i < n; i++ {
		st := c14sStep{Op: rapid.SampledFrom([]string{"EHLO", "EHLO", "HELO", "AUTHP", "AUTHP", "AUTHP2", "AUTHL", "AUTHX", "MAIL", "MAIL", "MAIL", "RCPT", "RCPT", "DATA", "BDAT", "RSET", "NOOP", "STARTTLS", "QUIT"}).Draw(t, "op")}
		if strings.HasPrefix(st.Op, "AUTH") {
			st.User = rapid.SampledFrom(users).Draw(t, "user")
			st.Pass = rapid.SampledFrom(passes).Draw(t, "pass")
			st.Authzid = rapid.SampledFrom([]string{"", "", "", "same", "root", "bob@example.org"}).Draw(t, "authzid")
			st.Garbage = rapid.IntRange(0, 7).Draw(t, "garbage") == 0
		}
		sc.Steps = append(sc.Steps, st)
	}
	return sc
}

func c14sValid(st c14sStep) bool {
	// the endpoint normalises the user name (case mapping) before it asks the provider
	want, ok := c14sAccounts[strings.ToLower(st.User)]
	if !ok || want != st.Pass || st.Garbage {
		return false
	}
	authz := st.Authzid
	if authz == "same" {
		authz = st.User
	}
	return st.Op == "AUTHL" || authz == "" || authz == st.User
}

func c14sRun(sc c14sScenario) (vs []ev.V) {
	r := ev.Get("C14")
	rec := verifx.Reset()
	mod, err := New("submission", []string{"tcp://" + c03ListenIP() + ":0"})
	if err != nil {
		r.HarnessError("%v", err)
		return nil
	}
	endp := mod.(*Endpoint)
	endp.Log = log.Logger{Out: log.NopOutput{}}
	cfg := []config.Node{
		{Name: "hostname", Args: []string{"mx.maddy.test"}},
		{Name: "tls", Args: []string{"off"}},
		{Name: "auth", Args: []string{"verif_auth"}},
		{Name: "sasl_login", Args: []string{map[bool]string{true: "yes", false: "no"}[sc.SASLLogin]}},
		{Name: "defer_sender_reject", Args: []string{map[bool]string{true: "yes", false: "no"}[sc.Defer]}},
		{Name: "deliver_to", Args: []string{"verif_mon", "t1"}},
	}
	err = endp.Init(config.NewMap(nil, config.Node{Children: cfg}))
	for try := 0; err != nil && strings.Contains(err.Error(), "address already in use") && try < 50; try++ {
		time.Sleep(100 * time.Millisecond)
		mod, _ = New("submission", []string{"tcp://" + c03ListenIP() + ":0"})
		endp = mod.(*Endpoint)
		endp.Log = log.Logger{Out: log.NopOutput{}}
		err = endp.Init(config.NewMap(nil, config.Node{Children: cfg}))
	}
	if err != nil {
		r.HarnessError("cannot start the submission endpoint: %v", err)
		return nil
	}
	endp.pipeline.Log = log.Logger{Out: log.NopOutput{}}
	defer endp.Close()
	conn, err := net.DialTimeout("tcp", endp.listeners[0].Addr().String(), 3*time.Second)
	if err != nil {
		r.HarnessError("dial: %v", err)
		return nil
	}
	defer func() {
		if tc, ok := conn.(*net.TCPConn); ok {
			tc.SetLinger(0)
		}
		conn.Close()
	}()
	c := &c03Client{conn: conn, r: bufio.NewReader(conn)}
	if _, err := c.readReply(); err != nil {
		return nil
	}
	b64 := func(s string) string { return base64.StdEncoding.EncodeToString([]byte(s)) }
	authed := false
	dialog := func() string { return strings.Join(c.log, "\n") }
	exchange := func(line string) (c03Reply, bool) {
		if err := c.send(line + "\r\n"); err != nil {
			return c03Reply{}, false
		}
		rep, err := c.readReply()
		return rep, err == nil
	}
	for i, st := range sc.Steps {
		var rep c03Reply
		ok := true
		switch st.Op {
		case "EHLO":
			rep, ok = exchange("EHLO client.example")
		case "HELO":
			rep, ok = exchange("HELO client.example")
		case "AUTHP", "AUTHP2":
			authz := st.Authzid
			if authz == "same" {
				authz = st.User
			}
			resp := b64(authz + "\x00" + st.User + "\x00" + st.Pass)
			if st.Garbage {
				resp = "!!!not-base64!!!"
			}
			if st.Op == "AUTHP" {
				rep, ok = exchange("AUTH PLAIN " + resp)
			} else {
				rep, ok = exchange("AUTH PLAIN")
				if ok && rep.Code == 334 {
					if st.Garbage {
						resp = "*"
					}
					rep, ok = exchange(resp)
				}
			}
		case "AUTHL":
			rep, ok = exchange("AUTH LOGIN")
			if ok && rep.Code == 334 {
				u := b64(st.User)
				if st.Garbage {
					u = "*"
				}
				rep, ok = exchange(u)
				if ok && rep.Code == 334 {
					rep, ok = exchange(b64(st.Pass))
				}
			}
		case "AUTHX":
			rep, ok = exchange("AUTH CRAM-MD5")
			if ok && rep.Code == 334 {
				rep, ok = exchange("*")
			}
		case "MAIL":
			rep, ok = exchange("MAIL FROM:<alice@example.org>")
		case "RCPT":
			rep, ok = exchange("RCPT TO:<rcpt@example.org>")
		case "DATA":
			rep, ok = exchange("DATA")
			if ok && rep.Code == 354 {
				if !authed {
					vs = append(vs, ev.Vf("gate:mail-transaction-before-auth:DATA", "step %d: DATA answered 354 before any successful authentication\n%s", i, dialog()))
				}
				rep, ok = exchange("Subject: x\r\n\r\nbody\r\n.")
			}
		case "BDAT":
			// a zero-size chunk: a refused BDAT leaves nothing unread on the wire
			rep, ok = exchange("BDAT 0 LAST")
		case "RSET":
			rep, ok = exchange("RSET")
		case "NOOP":
			rep, ok = exchange("NOOP")
		case "STARTTLS":
			rep, ok = exchange("STARTTLS")
		case "QUIT":
			rep, ok = exchange("QUIT")
			ok = false
		}
		if rep.Code == 235 {
			if !c14sValid(st) {
				vs = append(vs, ev.Vf("gate:235-for-unacceptable-credentials", "step %d: %+v answered 235\n%s", i, st, dialog()))
			}
			authed = true
		}
		if !authed && rep.Code/100 == 2 && (st.Op == "MAIL" || st.Op == "RCPT" || st.Op == "BDAT") {
			vs = append(vs, ev.Vf("gate:mail-transaction-before-auth:"+st.Op, "step %d: %s answered %d before any successful authentication\n%s", i, st.Op, rep.Code, dialog()))
		}
		if !ok {
			break
		}
	}
	// nothing may have reached the target without authentication
	if !authed {
		for _, e := range rec.Snapshot() {
			vs = append(vs, ev.Vf("gate:target-used-without-auth", "target event %s %s without any successful authentication\n%s", e.Tgt, e.Op, dialog()))
			break
		}
	}
	return vs
}

func TestVerifC14Submission(t *testing.T) {
	r := ev.Get("C14")
	ev.Run(t, r, ev.Spec[c14sScenario]{Name: "submission-gate", Journal: true, N: r.Scale(1, 1, 100), Gen: c14sGen, Run: c14sRun, Info: func(sc c14sScenario) ev.Info {
		authSeen, mailBefore, validSeen := false, false, false
		for _, st := range sc.Steps {
			if strings.HasPrefix(st.Op, "AUTH") {
				authSeen = true
				if c14sValid(st) && (st.Op != "AUTHL" || sc.SASLLogin) && st.Op != "AUTHX" {
					validSeen = true
				}
			}
			if (st.Op == "MAIL" || st.Op == "RCPT" || st.Op == "DATA" || st.Op == "BDAT") && !validSeen {
				mailBefore = true
			}
		}
		return ev.Info{Nontrivial: authSeen && mailBefore, Classes: []string{fmt.Sprintf("sasl_login=%v", sc.SASLLogin), fmt.Sprintf("valid_auth=%v", validSeen)}}
	}})
}
