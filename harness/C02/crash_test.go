package queue

// C02 harness: crash-point enumeration. queue.go is compiled with package
// "os" replaced by verifkit/vos (tools/instr_vos.py, regenerated from the
// current tree on every run), which logs every mutating file-system operation.
// A scenario is run once; then for EVERY crash point of that run (before each
// operation, torn variants of each write, each again with un-fsynced file data
// dropped) the spool image is rebuilt from the log and a fresh queue is started
// on it. In the thorough tier the crash points of each recovery run are
// enumerated again (depth 2).

import (
	"encoding/json"
	"fmt"
	"os"
	"path/filepath"
	"sort"
	"strings"
	"syscall"
	"testing"
	"time"

	"github.com/foxcpp/maddy/internal/verifx"
	"pgregory.net/rapid"
	"verifkit/ev"
	"verifkit/vos"
)

func c02Gen(t *rapid.T) qScenario {
	sc := qScenario{MaxTries: rapid.IntRange(1, 3).Draw(t, "max_tries"), Partial: rapid.Bool().Draw(t, "partial"),
		Bounce:           rapid.SampledFrom([]string{"ok", "ok", "none"}).Draw(t, "bounce"),
		RecoverTempFails: rapid.SampledFrom([]int{0, 0, 1, 2}).Draw(t, "recover_temp_fails")}
	nm := rapid.IntRange(1, 3).Draw(t, "nmsgs")
	tmp := &verifx.ErrNode{Kind: "smtp", Code: 451, Ench: [3]int{4, 0, 0}, Msg: "later"}
	perm := &verifx.ErrNode{Kind: "smtp", Code: 550, Ench: [3]int{5, 1, 1}, Msg: "no"}
	for i := 0; i < nm; i++ {
		m := qMsg{ID: fmt.Sprintf("m%d", i), From: "sender@example.com", OriginalFrom: "sender@example.com",
			Header: "From: <sender@example.com>\r\nSubject: crash test\r\n", Body: ev.QS(strings.Repeat("body line\r\n", rapid.IntRange(1, 40).Draw(t, "bodylines")))}
		if rapid.IntRange(0, 5).Draw(t, "nullsender") == 0 {
			m.From, m.OriginalFrom = "", ""
		}
		idx := rapid.SliceOfNDistinct(rapid.IntRange(0, 3), 1, 3, rapid.ID[int]).Draw(t, "rcpts")
		for _, j := range idx {
			m.Rcpts = append(m.Rcpts, fmt.Sprintf("r%d-%d@example.org", i, j))
		}
		m.Abort = rapid.IntRange(0, 5).Draw(t, "abort") == 0
		if rapid.IntRange(0, 7).Draw(t, "fsync_fails") == 0 {
			m.SyncFail = rapid.SampledFrom([]string{"header", "body"}).Draw(t, "fsync_of")
		}
		if i > 0 && rapid.Bool().Draw(t, "later") {
			m.AcceptAfterMin = rapid.SampledFrom([]int{1, 15, 16}).Draw(t, "accept_after") // while a retry of an earlier message is pending / in flight
		}
		for a := 0; a < sc.MaxTries; a++ {
			p := qPlan{}
			for _, r := range m.Rcpts {
				switch rapid.IntRange(0, 4).Draw(t, "fault") {
				case 0:
					if p.Rcpt == nil {
						p.Rcpt = map[string]*verifx.ErrNode{}
					}
					p.Rcpt[r] = tmp
				case 1:
					if p.Rcpt == nil {
						p.Rcpt = map[string]*verifx.ErrNode{}
					}
					p.Rcpt[r] = perm
				}
			}
			if rapid.IntRange(0, 6).Draw(t, "bodyfault") == 0 && !sc.Partial {
				p.Body = tmp
			}
			m.Plans = append(m.Plans, p)
		}
		sc.Msgs = append(sc.Msgs, m)
	}
	return sc
}

type c02Point struct {
	K int         `json:"k"`
	V vos.Variant `json:"variant"`
	// NoEv: the stop comes right after operation k-1 instead of right before operation k, i.e. what the
	// queue did between the two without touching the file system (target and bounce-target calls) has
	// not happened yet. Same image, fewer facts established before the stop.
	NoEv bool `json:"events_not_yet,omitempty"`
}

// cut is the highest sequence stamp that counts as "before the stop".
func (p c02Point) cut() int64 {
	if p.NoEv {
		return int64(p.K) - 1
	}
	return int64(p.K)
}

// c02EventSeqs: operation indices at which the run did something observable between two file-system operations.
func c02EventSeqs(h *qHistory) map[int]bool {
	at := map[int]bool{}
	for _, e := range h.Events {
		at[int(e.Seq)] = true
	}
	for _, a := range h.Attempts {
		at[int(a.StartSeq)] = true
		if a.Committed {
			at[int(a.CommitSeq)] = true
		}
	}
	for _, rep := range h.Reports {
		if rep.Committed {
			at[int(rep.CommitSeq)] = true
		}
	}
	return at
}

// c02Case is what is saved as replay: the scenario and the crash path.
type c02Case struct {
	Scenario qScenario  `json:"scenario"`
	Path     []c02Point `json:"crash_path,omitempty"` // empty: enumerate everything
	Depth    int        `json:"depth"`
}

func c02Points(log []vos.Op, evAt map[int]bool) []c02Point {
	var pts []c02Point
	for k := 0; k <= len(log); k++ {
		for _, drop := range []bool{false, true} {
			if k > 0 && evAt[k] {
				pts = append(pts, c02Point{K: k, V: vos.Variant{Torn: -1, DropUnsynced: drop}, NoEv: true})
			}
			pts = append(pts, c02Point{K: k, V: vos.Variant{Torn: -1, DropUnsynced: drop}})
			if k < len(log) && log[k].Kind == "write" {
				n := len(log[k].Data)
				seen := map[int]bool{}
				for _, torn := range []int{0, 1, n / 2, n - 1} {
					if torn >= 0 && torn < n && !seen[torn] {
						seen[torn] = true
						pts = append(pts, c02Point{K: k, V: vos.Variant{Torn: torn, DropUnsynced: drop}})
					}
				}
			}
		}
	}
	return pts
}

type c02Pre struct {
	// facts established before the crash (over all earlier runs of the path)
	accepted      map[string]bool            // message id -> acceptance (Commit) returned
	aborted       map[string]bool            // message id -> client Abort returned
	delivered     map[string]map[string]bool // msg -> rcpt committed downstream
	reported      map[string]map[string]bool
	deliveredUpTo map[string]map[int][]string        // msg -> attempt -> rcpts delivered in that attempt
	startedMax    map[string]int                     // msg -> highest attempt number started
	started       map[string]map[int]bool            // msg -> attempts started before the crash
	offered       map[string]map[int]map[string]bool // msg -> attempt -> recipients offered in it
}

func newC02Pre() *c02Pre {
	return &c02Pre{accepted: map[string]bool{}, aborted: map[string]bool{}, delivered: map[string]map[string]bool{}, reported: map[string]map[string]bool{},
		deliveredUpTo: map[string]map[int][]string{}, startedMax: map[string]int{}, started: map[string]map[int]bool{}, offered: map[string]map[int]map[string]bool{}}
}

// absorb adds the facts of history h that happened before crash point k
// (sequence stamp <= k). attemptBase shifts attempt numbers of later runs.
func (p *c02Pre) absorb(sc qScenario, h *qHistory, k int64, attemptBase map[string]int) {
	for _, e := range h.Events {
		if e.Seq > k {
			continue
		}
		switch e.Op {
		case "accepted":
			p.accepted[e.Msg] = true
		case "client-abort":
			p.aborted[e.Msg] = true
		}
	}
	for _, a := range h.Attempts {
		if a.StartSeq > k {
			continue
		}
		n := a.N + attemptBase[a.Msg]
		if n > p.startedMax[a.Msg] {
			p.startedMax[a.Msg] = n
		}
		if p.started[a.Msg] == nil {
			p.started[a.Msg] = map[int]bool{}
			p.offered[a.Msg] = map[int]map[string]bool{}
		}
		p.started[a.Msg][n] = true
		if p.offered[a.Msg][n] == nil {
			p.offered[a.Msg][n] = map[string]bool{}
		}
		for _, e := range h.Events {
			// the recipient list of an attempt is fixed when it starts (the stored pending list), so the
			// recipients it offers after the crash point still tell which ones it was going to include
			if e.Msg == a.Msg && e.Attempt == a.N && e.Op == "rcpt" {
				p.offered[a.Msg][n][e.Rcpt] = true
			}
		}
		if !a.Committed || a.CommitSeq > k {
			continue
		}
		for _, r := range a.Accepted {
			failed := false
			for _, e := range h.Events {
				if e.Msg == a.Msg && e.Attempt == a.N && e.Op == "status" && e.Rcpt == r && e.Err != "" {
					failed = true
				}
			}
			if failed {
				continue
			}
			if p.delivered[a.Msg] == nil {
				p.delivered[a.Msg] = map[string]bool{}
				p.deliveredUpTo[a.Msg] = map[int][]string{}
			}
			p.delivered[a.Msg][r] = true
			p.deliveredUpTo[a.Msg][n] = append(p.deliveredUpTo[a.Msg][n], r)
		}
	}
	// terminal failures whose report is suppressed (null sender / no bounce pipeline): the
	// recipient's outcome is reached once the attempt in which it fails terminally has ended
	if attemptBase == nil {
		for _, m := range sc.Msgs {
			if m.OriginalFrom != "" && sc.Bounce != "none" {
				continue
			}
			fate := c01Model(sc, m)
			for _, r := range m.Rcpts {
				f := fate[r]
				if !f.Failed {
					continue
				}
				for _, e := range h.Events {
					if e.Msg == m.ID && e.Attempt == f.FailAttempt && e.Seq <= k && (e.Op == "abort" || e.Op == "commit" || (e.Op == "start" && e.Err != "")) {
						if p.reported[m.ID] == nil {
							p.reported[m.ID] = map[string]bool{}
						}
						p.reported[m.ID][r] = true
					}
				}
			}
		}
	}
	for _, rep := range h.Reports {
		if !rep.Committed || rep.CommitSeq > k {
			continue
		}
		for _, x := range c01ReportedRcpts(rep.Raw) {
			for _, m := range sc.Msgs {
				for _, r := range m.Rcpts {
					if c01SameAddr(x, r) {
						if p.reported[m.ID] == nil {
							p.reported[m.ID] = map[string]bool{}
						}
						p.reported[m.ID][r] = true
					}
				}
			}
		}
	}
}

type c02Meta struct {
	To []string
}

func c02Invariants(sc qScenario, pre *c02Pre, imageDir string, imageMeta map[string]c02Meta, h *qHistory, where string) (vs []ev.V) {
	for _, l := range h.Logs {
		if strings.Contains(l, "panic") {
			vs = append(vs, ev.Vf("recovery:panic", "%s: recovery logged a panic: %.300s", where, l))
			break
		}
	}
	for _, f := range h.Files {
		if strings.Contains(f, "meta_broken") {
			vs = append(vs, ev.Vf("recovery:meta-broken", "%s: recovery left %s", where, f))
		}
	}
	after := map[string]map[string]bool{} // msg -> rcpt attempted or reported after the crash
	for _, e := range h.Events {
		if e.Op == "rcpt" {
			if after[e.Msg] == nil {
				after[e.Msg] = map[string]bool{}
			}
			after[e.Msg][e.Rcpt] = true
			// I3
			meta, ok := imageMeta[e.Msg]
			in := false
			for _, x := range meta.To {
				if x == e.Rcpt {
					in = true
				}
			}
			if !ok || !in {
				vs = append(vs, ev.Vf("I3:not-a-pending-recipient", "%s: recovery offered %s of message %s to the target, pending recipients stored in the image: %v (meta present: %v)", where, e.Rcpt, e.Msg, meta.To, ok))
			}
		}
	}
	// I5: inside the recovery run a recipient the target committed is not offered again by a later attempt
	// of the same run (the meta-data update between the attempts must work on the recovered spool as well)
	deliveredIn := map[string]map[string]int{}
	for _, a := range h.Attempts {
		if deliveredIn[a.Msg] == nil {
			deliveredIn[a.Msg] = map[string]int{}
		}
		for _, e := range h.Events {
			if e.Op == "rcpt" && e.Msg == a.Msg && e.Attempt == a.N {
				if n, ok := deliveredIn[a.Msg][e.Rcpt]; ok && n < a.N {
					vs = append(vs, ev.Vf("I5:recovery-resends-delivered-recipient", "%s: after the restart attempt %d delivered %s of %s and attempt %d offered it again", where, n, e.Rcpt, a.Msg, a.N))
				}
			}
		}
		if a.Committed {
			for _, r := range a.Accepted {
				failed := false
				for _, e := range h.Events {
					if e.Op == "status" && e.Msg == a.Msg && e.Attempt == a.N && e.Rcpt == r && e.Err != "" {
						failed = true
					}
				}
				if failed {
					continue
				}
				if _, ok := deliveredIn[a.Msg][r]; !ok {
					deliveredIn[a.Msg][r] = a.N
				}
			}
		}
	}
	for _, rep := range h.Reports {
		for _, x := range c01ReportedRcpts(rep.Raw) {
			for _, m := range sc.Msgs {
				for _, r := range m.Rcpts {
					if c01SameAddr(x, r) {
						if after[m.ID] == nil {
							after[m.ID] = map[string]bool{}
						}
						after[m.ID][r] = true
					}
				}
			}
		}
	}
	for _, m := range sc.Msgs {
		if pre.aborted[m.ID] && len(after[m.ID]) > 0 {
			vs = append(vs, ev.Vf("I2:aborted-message-delivered", "%s: message %s was aborted before the stop but recovery attempted %v", where, m.ID, c02Keys(after[m.ID])))
		}
		if pre.accepted[m.ID] {
			for _, r := range m.Rcpts {
				if !pre.delivered[m.ID][r] && !pre.reported[m.ID][r] && !after[m.ID][r] {
					vs = append(vs, ev.Vf("I1:accepted-recipient-lost", "%s: recipient %s of accepted message %s was neither delivered/reported before the stop nor attempted/reported after restart (image: %v; recovery hang=%v)", where, r, m.ID, c02Dir(imageDir), h.Hang))
				}
			}
		}
		// I4: once the queue has begun a later attempt that no longer includes a recipient delivered earlier
		// (i.e. its meta-data recorded the delivery), that recipient must not be re-sent after a restart.
		// An attempt that still offers the recipient (possible only after an earlier crash came before the
		// meta-data update) does not count as "later attempt" for it; re-sending inside one run is C01's business
		// and is flagged here as well.
		for n, rs := range pre.deliveredUpTo[m.ID] {
			for _, r := range rs {
				for n2 := range pre.started[m.ID] {
					if n2 <= n {
						continue
					}
					if pre.offered[m.ID][n2][r] {
						continue
					}
					if after[m.ID][r] {
						vs = append(vs, ev.Vf("I4:resent-after-later-attempt", "%s: recipient %s of %s was delivered in attempt %d, attempt %d (which no longer included it) had begun before the stop, and recovery re-sent it", where, r, m.ID, n, n2))
					}
				}
			}
		}
	}
	return vs
}

func c02Keys(m map[string]bool) []string {
	var ks []string
	for k := range m {
		ks = append(ks, k)
	}
	sort.Strings(ks)
	return ks
}

func c02Dir(dir string) []string {
	ents, _ := os.ReadDir(dir)
	var out []string
	for _, e := range ents {
		st, _ := e.Info()
		out = append(out, fmt.Sprintf("%s(%d)", e.Name(), st.Size()))
	}
	return out
}

func c02ReadMetas(dir string) map[string]c02Meta {
	out := map[string]c02Meta{}
	ents, _ := os.ReadDir(dir)
	for _, e := range ents {
		if !strings.HasSuffix(e.Name(), ".meta") {
			continue
		}
		b, err := os.ReadFile(filepath.Join(dir, e.Name()))
		if err != nil {
			continue
		}
		var m c02Meta
		if json.Unmarshal(b, &m) == nil {
			out[strings.TrimSuffix(e.Name(), ".meta")] = m
		}
	}
	return out
}

var c02Rec = ev.Get("C02")

// c02Explore runs the scenario and enumerates crash points to the given depth.
// only != nil restricts the enumeration to one crash path (replay).
func c02Explore(c c02Case) (vs []ev.V) {
	sc := c.Scenario
	qSeq = vos.Seq
	qBeforeBody = func(m qMsg) {
		vos.FailSync = nil
		if m.SyncFail != "" {
			suffix := m.ID + "." + m.SyncFail
			vos.FailSync = func(path string) error {
				if strings.HasSuffix(path, suffix) {
					return syscall.EIO
				}
				return nil
			}
		}
	}
	defer func() { vos.FailSync = nil }()
	defer func() { qSeq = nil }()
	vos.Reset(true)
	h0 := qRun(sc, nil)
	log0 := vos.Log()
	vos.Reset(false)
	quiescent := map[int64]bool{}
	for _, s := range h0.QuiescentSeqs {
		quiescent[s] = true
	}
	base, err := os.MkdirTemp("", "verifcrash")
	if err != nil {
		panic(err)
	}
	defer os.RemoveAll(base)
	n := 0
	report := func(path []c02Point, found []ev.V) {
		// keep the first occurrence of each signature, with its crash path
		for _, v := range found {
			dup := false
			for _, x := range vs {
				if x.Sig == v.Sig {
					dup = true
				}
			}
			if !dup {
				c02FailPath[v.Sig] = append([]c02Point(nil), path...)
				vs = append(vs, v)
			}
		}
	}
	// without any crash: a recipient delivered in attempt n is not offered again in a later attempt
	{
		pre := newC02Pre()
		pre.absorb(sc, h0, int64(len(log0))+1, nil)
		for _, m := range sc.Msgs {
			for n, rs := range pre.deliveredUpTo[m.ID] {
				for _, r := range rs {
					for n2, off := range pre.offered[m.ID] {
						if n2 > n && off[r] {
							report(nil, []ev.V{ev.Vf("I4:resent-within-run", "recipient %s of %s was delivered in attempt %d and offered to the target again in attempt %d", r, m.ID, n, n2)})
						}
					}
				}
			}
		}
	}
	pts := c02Points(log0, c02EventSeqs(h0))
	for _, p1 := range pts {
		if len(c.Path) >= 1 && c.Path[0] != p1 {
			continue
		}
		n++
		img := filepath.Join(base, fmt.Sprintf("i%d", n))
		os.Mkdir(img, 0o755)
		if err := vos.Image(log0, p1.K, p1.V, h0.SpoolDir, img); err != nil {
			panic(err)
		}
		metas := c02ReadMetas(img)
		pre := newC02Pre()
		pre.absorb(sc, h0, p1.cut(), nil)
		depth2 := c.Depth >= 2 && p1.V.Torn < 0
		vos.Reset(depth2)
		h1 := qRecover(img, sc, 3*time.Hour)
		log1 := vos.Log()
		vos.Reset(false)
		where := fmt.Sprintf("crash before op %d/%d %s torn=%d drop-unsynced=%v", p1.K, len(log0), c02OpName(log0, p1.K), p1.V.Torn, p1.V.DropUnsynced)
		if p1.NoEv {
			where = fmt.Sprintf("crash right after op %d/%d %s (before anything the queue does between it and op %d %s) drop-unsynced=%v", p1.K-1, len(log0), c02OpName(log0, p1.K-1), p1.K, c02OpName(log0, p1.K), p1.V.DropUnsynced)
		}
		found := c02Invariants(sc, pre, img, metas, h1, where)
		c02Rec.Count("crash-images", nil, ev.Info{Key: fmt.Sprintf("%s|%d|%v|%v", c02ScenarioKey(sc), p1.K, p1.V, p1.NoEv), Nontrivial: !quiescent[int64(p1.K)] || p1.V.Torn >= 0,
			Classes: []string{"depth=1", fmt.Sprintf("drop=%v", p1.V.DropUnsynced), fmt.Sprintf("between-ops=%v", p1.NoEv)}})
		report([]c02Point{p1}, found)
		if os.Getenv("VERIF_DEBUG") != "" && len(c.Path) >= 1 {
			fmt.Println("=== log0")
			for i, o := range log0 {
				fmt.Printf("%d %s %s %d bytes\n", i, o.Kind, filepath.Base(o.Path), len(o.Data))
			}
			fmt.Println("=== H0 events")
			for _, e := range h0.Events {
				fmt.Printf("seq=%d at=%v %s #%d %s %s %s\n", e.Seq, e.At, e.Msg, e.Attempt, e.Op, e.Rcpt, e.Err)
			}
			for _, a := range h0.Attempts {
				fmt.Printf("attempt %s #%d start=%d commit=%d committed=%v accepted=%v\n", a.Msg, a.N, a.StartSeq, a.CommitSeq, a.Committed, a.Accepted)
			}
			fmt.Println("=== image1", c02Dir(img), metas)
			fmt.Println("=== log1")
			for i, o := range log1 {
				fmt.Printf("%d %s %s\n", i, o.Kind, filepath.Base(o.Path))
			}
			fmt.Println("=== H1 events")
			for _, e := range h1.Events {
				fmt.Printf("seq=%d %s #%d %s %s %s\n", e.Seq, e.Msg, e.Attempt, e.Op, e.Rcpt, e.Err)
			}
			for _, a := range h1.Attempts {
				fmt.Printf("attempt %s #%d start=%d commit=%d committed=%v accepted=%v\n", a.Msg, a.N, a.StartSeq, a.CommitSeq, a.Committed, a.Accepted)
			}
		}
		if depth2 && len(found) == 0 {
			attemptBase := map[string]int{}
			for id, mx := range pre.startedMax {
				attemptBase[id] = mx
			}
			for _, p2 := range c02Points(log1, c02EventSeqs(h1)) {
				if p2.V.Torn >= 0 {
					continue // torn variants only at depth 1
				}
				if len(c.Path) >= 2 && c.Path[1] != p2 {
					continue
				}
				n++
				img2 := filepath.Join(base, fmt.Sprintf("i%d", n))
				os.Mkdir(img2, 0o755)
				// state at the first crash, then the recovery run's operations up to its own crash point on top
				if err := vos.Image(log0, p1.K, p1.V, h0.SpoolDir, img2); err != nil {
					panic(err)
				}
				if err := vos.Image(log1, p2.K, p2.V, img, img2); err != nil {
					panic(err)
				}
				pre2 := newC02Pre()
				pre2.absorb(sc, h0, p1.cut(), nil)
				pre2.absorb(sc, h1, p2.cut(), attemptBase)
				metas2 := c02ReadMetas(img2)
				h2 := qRecover(img2, sc, 3*time.Hour)
				where2 := where + fmt.Sprintf("; then crash of the recovery run before op %d/%d %s drop-unsynced=%v between-ops=%v", p2.K, len(log1), c02OpName(log1, p2.K), p2.V.DropUnsynced, p2.NoEv)
				c02Rec.Count("crash-images", nil, ev.Info{Key: fmt.Sprintf("%s|%d|%v|%v|%d|%v|%v", c02ScenarioKey(sc), p1.K, p1.V, p1.NoEv, p2.K, p2.V, p2.NoEv), Nontrivial: true, Classes: []string{"depth=2"}})
				found2 := c02Invariants(sc, pre2, img2, metas2, h2, where2)
				if len(found2) > 0 {
					// schedules of concurrent goroutines are not owned here, so a replay may interleave differently:
					// keep everything needed to judge the case in the report itself
					var b strings.Builder
					fmt.Fprintf(&b, "\n--- first run, file-system log:")
					for i, o := range log0 {
						fmt.Fprintf(&b, " %d:%s:%s", i, o.Kind, filepath.Base(o.Path))
					}
					fmt.Fprintf(&b, "\n--- first run, events:")
					for _, e := range h0.Events {
						fmt.Fprintf(&b, " [seq%d %s#%d %s %s %s]", e.Seq, e.Msg, e.Attempt, e.Op, e.Rcpt, e.Err)
					}
					fmt.Fprintf(&b, "\n--- image 1 meta: %v\n--- recovery 1 log:", metas)
					for i, o := range log1 {
						fmt.Fprintf(&b, " %d:%s:%s", i, o.Kind, filepath.Base(o.Path))
					}
					fmt.Fprintf(&b, "\n--- recovery 1 events:")
					for _, e := range h1.Events {
						fmt.Fprintf(&b, " [seq%d %s#%d %s %s %s]", e.Seq, e.Msg, e.Attempt, e.Op, e.Rcpt, e.Err)
					}
					fmt.Fprintf(&b, "\n--- image 2 meta: %v\n--- recovery 2 events:", metas2)
					for _, e := range h2.Events {
						fmt.Fprintf(&b, " [%s#%d %s %s %s]", e.Msg, e.Attempt, e.Op, e.Rcpt, e.Err)
					}
					for i := range found2 {
						found2[i].What += b.String()
					}
				}
				report([]c02Point{p1, p2}, found2)
				os.RemoveAll(img2)
			}
		}
		os.RemoveAll(img)
		if len(vs) >= 3 {
			break
		}
	}
	return vs
}

var c02FailPath = map[string][]c02Point{}

func c02OpName(log []vos.Op, k int) string {
	if k >= len(log) {
		return "(end)"
	}
	o := log[k]
	return fmt.Sprintf("(%s %s)", o.Kind, filepath.Base(o.Path))
}

func c02ScenarioKey(sc qScenario) string {
	js, _ := json.Marshal(sc)
	return string(js)
}

func TestVerifC02(t *testing.T) {
	qT = t
	r := c02Rec
	r.Rule("Scenario = 1-3 messages x 1-3 recipients, scripted temporary/permanent failures per attempt, optional client abort after Body, later messages optionally accepted 1/15/16 virtual minutes " +
		"later (while a retry of an earlier message is pending or in flight), max_tries 1-3, atomic or per-recipient target, with or without bounce pipeline; run once under synctest with queue.go " +
		"compiled against verifkit/vos. Crash points are ENUMERATED for that run: before each of the n mutating file-system operations and at the end, every write additionally torn at 0, 1, n/2 and " +
		"n-1 bytes, all of these again with file data written since the file's last fsync dropped; the image is rebuilt from the log and a fresh queue recovers on it (thorough tier: every " +
		"non-torn crash point of every recovery run is enumerated again, depth 2). Oracle: invariants I1-I4 of DESIGN.md C02 over pre-crash events (stamped with the operation counter) and " +
		"post-crash events, plus no panic / no .meta_broken. Each (scenario, crash path) counts as one evaluation; non-trivial = the crash point is not a quiescent boundary of the run or the write is torn.")
	r.Assume("directory entries are durable in issue order; file-system errors are not injected; pre-existing files are not part of the image")
	depth := 1
	n := r.N
	if r.Thorough() {
		depth = 2
	}
	ev.Run(t, r, ev.Spec[c02Case]{Name: "scenarios", N: n, Gen: func(t *rapid.T) c02Case { return c02Case{Scenario: c02Gen(t), Depth: depth} },
		Run: func(c c02Case) []ev.V { return c02Explore(c) },
		Info: func(c c02Case) ev.Info {
			return ev.Info{Nontrivial: true, Classes: []string{fmt.Sprintf("msgs=%d", len(c.Scenario.Msgs))}}
		}})
	if !r.Thorough() && r.Shard == 0 {
		// one scenario at depth 2 also in the quick tier
		ev.Run(t, r, ev.Spec[c02Case]{Name: "depth2", N: 1, Gen: func(t *rapid.T) c02Case { return c02Case{Scenario: c02Gen(t), Depth: 2} },
			Run: func(c c02Case) []ev.V { return c02Explore(c) }, Info: func(c c02Case) ev.Info { return ev.Info{Nontrivial: true} }})
	}
}
