// Package vsched is a cooperative scheduler for code rewritten by
// verifkit/cmd/instr. Inside a testing/synctest bubble it lets exactly one
// instrumented goroutine move between two synchronisation points, chosen by a
// deterministic default policy plus a list of deviations (the schedule), which
// makes interleavings ordinary, enumerable, replayable data.
//
// The controller itself uses synctest through two function variables
// (WaitIdle) so that this package also compiles with toolchains that have no
// testing/synctest; harnesses that drive schedules set it.
package vsched

import (
	"fmt"
	"reflect"
	"runtime"
	"runtime/debug"
	"sort"
	"strconv"
	"strings"
	"sync"
	"sync/atomic"
	"time"
)

// Deviation: at decision step Step pick the Alt-th enabled goroutine other
// than the default one.
type Deviation struct {
	Step int `json:"step"`
	Alt  int `json:"alt"`
}

type Step struct {
	N       int    `json:"n"`
	Chosen  string `json:"g"`
	Point   string `json:"at"`
	Enabled int    `json:"enabled"`
	Deviate bool   `json:"deviated,omitempty"`
}

type PanicInfo struct {
	Goroutine string
	Value     string
	Stack     string
}

type Result struct {
	Trace     []Step
	Panics    []PanicInfo
	Hang      bool     // the horizon passed with goroutines still alive
	Stuck     []string // goroutines alive at a hang, with their last known position
	Effective int      // number of deviations that took effect
	Elapsed   time.Duration
}

type gor struct {
	id       int
	name     string
	resume   chan struct{}
	parked   bool
	done     bool
	point    string
	wantLock uintptr
	wantRead bool
}

type S struct {
	mu     sync.Mutex
	byGoid map[int64]*gor
	all    []*gor
	wake   chan struct{}
	held   map[uintptr]*gor
	heldV  map[uintptr]reflect.Value // the real mutex behind each write lock recorded in held
	rheld  map[uintptr]int
	panics []PanicInfo
	wg     sync.WaitGroup
}

var cur atomic.Pointer[S]

// WaitIdle must block until every other goroutine of the bubble is durably
// blocked (synctest.Wait). Set by the harness.
var WaitIdle func()

func goid() int64 {
	var buf [64]byte
	n := runtime.Stack(buf[:], false)
	// "goroutine 123 ["
	s := string(buf[:n])
	s = strings.TrimPrefix(s, "goroutine ")
	if i := strings.IndexByte(s, ' '); i > 0 {
		id, _ := strconv.ParseInt(s[:i], 10, 64)
		return id
	}
	return -1
}

func (s *S) me() *gor {
	id := goid()
	s.mu.Lock()
	g := s.byGoid[id]
	s.mu.Unlock()
	return g
}

func (s *S) park(g *gor, point string) {
	s.mu.Lock()
	g.parked = true
	g.point = point
	s.mu.Unlock()
	select {
	case s.wake <- struct{}{}:
	default:
	}
	<-g.resume
}

// Yield is a scheduling point. No-op outside a controlled run or on
// goroutines the scheduler does not know.
func Yield(loc string) {
	s := cur.Load()
	if s == nil {
		return
	}
	if g := s.me(); g != nil {
		s.park(g, loc)
	}
}

// Go starts fn as a goroutine known to the scheduler.
func Go(loc string, fn func()) {
	s := cur.Load()
	if s == nil {
		go fn()
		return
	}
	s.spawn(loc, fn)
}

func (s *S) spawn(name string, fn func()) {
	s.mu.Lock()
	g := &gor{id: len(s.all), name: fmt.Sprintf("g%d(%s)", len(s.all), name), resume: make(chan struct{})}
	s.all = append(s.all, g)
	s.mu.Unlock()
	s.wg.Add(1)
	ready := make(chan struct{})
	go func() {
		defer s.wg.Done()
		s.mu.Lock()
		s.byGoid[goid()] = g
		s.mu.Unlock()
		close(ready)
		defer func() {
			if p := recover(); p != nil {
				s.mu.Lock()
				s.panics = append(s.panics, PanicInfo{Goroutine: g.name, Value: fmt.Sprint(p), Stack: string(debug.Stack())})
				s.mu.Unlock()
			}
			s.mu.Lock()
			g.done = true
			g.parked = false
			// release locks still recorded for this goroutine (a panic may skip Unlock bookkeeping)
			// (the real mutex is unlocked as well: a goroutine that died in a critical section would
			// otherwise wedge every later Lock - in the test process as it would in production)
			for k, h := range s.held {
				if h == g {
					delete(s.held, k)
					if v, ok := s.heldV[k]; ok {
						delete(s.heldV, k)
						func() {
							defer func() { recover() }()
							callMethod(v, "Unlock")
						}()
					}
				}
			}
			s.mu.Unlock()
			select {
			case s.wake <- struct{}{}:
			default:
			}
		}()
		s.park(g, "start:"+name)
		fn()
	}()
	<-ready
}

func lockKey(p any) (uintptr, reflect.Value) {
	v := reflect.ValueOf(p)
	// &x where x is itself a pointer to a mutex: use the mutex's address
	for v.Kind() == reflect.Ptr && v.Elem().Kind() == reflect.Ptr {
		v = v.Elem()
	}
	return v.Pointer(), v
}

func callMethod(v reflect.Value, name string) {
	m := v.MethodByName(name)
	if !m.IsValid() {
		panic("vsched: " + v.Type().String() + " has no method " + name)
	}
	m.Call(nil)
}

func lock(p any, loc string, read bool) {
	key, v := lockKey(p)
	name := "Lock"
	if read {
		name = "RLock"
	}
	s := cur.Load()
	var g *gor
	if s != nil {
		g = s.me()
	}
	if g == nil {
		callMethod(v, name)
		return
	}
	s.mu.Lock()
	g.wantLock, g.wantRead = key, read
	s.mu.Unlock()
	s.park(g, loc+":"+name)
	s.mu.Lock()
	g.wantLock = 0
	if read {
		s.rheld[key]++
	} else {
		s.held[key] = g
		s.heldV[key] = v
	}
	s.mu.Unlock()
	callMethod(v, name)
}

func unlock(p any, read bool) {
	key, v := lockKey(p)
	name := "Unlock"
	if read {
		name = "RUnlock"
	}
	if s := cur.Load(); s != nil {
		s.mu.Lock()
		if read {
			if s.rheld[key] > 0 {
				s.rheld[key]--
			}
		} else {
			delete(s.held, key)
			delete(s.heldV, key)
		}
		s.mu.Unlock()
	}
	callMethod(v, name)
}

func Lock(p any, loc string)    { lock(p, loc, false) }
func RLock(p any, loc string)   { lock(p, loc, true) }
func Unlock(p any, loc string)  { unlock(p, false) }
func RUnlock(p any, loc string) { unlock(p, true) }

// Run drives the goroutines started by body (via the S it receives) according
// to the schedule. It must be called inside a synctest bubble with WaitIdle set.
func Run(schedule []Deviation, horizon time.Duration, body func(s *S)) Result {
	if WaitIdle == nil {
		panic("vsched: WaitIdle is not set")
	}
	s := &S{byGoid: map[int64]*gor{}, wake: make(chan struct{}, 1), held: map[uintptr]*gor{}, heldV: map[uintptr]reflect.Value{}, rheld: map[uintptr]int{}}
	if !cur.CompareAndSwap(nil, s) {
		panic("vsched: nested Run")
	}
	defer cur.Store(nil)
	dev := map[int]int{}
	for _, d := range schedule {
		dev[d.Step] = d.Alt
	}
	start := time.Now()
	body(s)
	var res Result
	var last *gor
	step := 0
	for {
		WaitIdle()
		s.mu.Lock()
		var enabled []*gor
		alive := 0
		for _, g := range s.all {
			if g.done {
				continue
			}
			alive++
			if !g.parked {
				continue
			}
			if g.wantLock != 0 {
				if s.held[g.wantLock] != nil {
					continue
				}
				if !g.wantRead && s.rheld[g.wantLock] > 0 {
					continue
				}
			}
			enabled = append(enabled, g)
		}
		s.mu.Unlock()
		if alive == 0 {
			break
		}
		if len(enabled) == 0 {
			// everything is blocked in real operations or waits for a timer: let the
			// virtual clock advance until somebody parks, finishes, or the horizon passes
			left := horizon - time.Since(start)
			if left <= 0 {
				res.Hang = true
				break
			}
			select {
			case <-s.wake:
			case <-time.After(left):
			}
			continue
		}
		// default policy: keep running the last goroutine, else the lowest id
		def := enabled[0]
		for _, g := range enabled {
			if g == last {
				def = g
			}
		}
		pick := def
		deviated := false
		if alt, ok := dev[step]; ok {
			var others []*gor
			for _, g := range enabled {
				if g != def {
					others = append(others, g)
				}
			}
			if alt >= 0 && alt < len(others) {
				pick = others[alt]
				deviated = true
				res.Effective++
			}
		}
		res.Trace = append(res.Trace, Step{N: step, Chosen: pick.name, Point: pick.point, Enabled: len(enabled), Deviate: deviated})
		step++
		last = pick
		s.mu.Lock()
		pick.parked = false
		s.mu.Unlock()
		pick.resume <- struct{}{}
		if step > 200000 {
			res.Hang = true
			break
		}
	}
	s.mu.Lock()
	res.Panics = append(res.Panics, s.panics...)
	if res.Hang {
		for _, g := range s.all {
			if !g.done {
				st := "running/blocked after " + g.point
				if g.parked {
					st = "parked at " + g.point
				}
				res.Stuck = append(res.Stuck, g.name+": "+st)
			}
		}
		sort.Strings(res.Stuck)
	}
	s.mu.Unlock()
	res.Elapsed = time.Since(start)
	return res
}

// Go starts a harness-level goroutine under the scheduler (workers of a scenario).
func (s *S) Go(name string, fn func()) { s.spawn(name, fn) }

// Release lets every parked goroutine run freely (used to unwind after a hang
// so that the bubble can end): the scheduler is detached and all goroutines
// are resumed.
func (s *S) Release() {
	cur.Store(nil)
	s.mu.Lock()
	var gs []*gor
	for _, g := range s.all {
		if !g.done && g.parked {
			g.parked = false
			gs = append(gs, g)
		}
	}
	s.mu.Unlock()
	for _, g := range gs {
		select {
		case g.resume <- struct{}{}:
		default:
			go func(g *gor) { g.resume <- struct{}{} }(g)
		}
	}
}
