#!/usr/bin/env python3
"""Regenerates MANIFEST.json from checks.py (run after editing checks.py)."""
import json, os, sys
ROOT = os.path.dirname(os.path.dirname(os.path.abspath(__file__)))
sys.path.insert(0, ROOT)
from checks import CHECKS, NOT_APPLICABLE, FIX_COMMITS  # noqa

BASE = json.load(open("/root/.vp/BASELINE.json"))["cmd"]
man = {
    "version": 1,
    "setup_cmd": "./check --setup",
    "hooks": {
        "guard": "verif",
        "enable": "no in-tree hook code: harness files are injected at build time with `go test -overlay` and a private -modfile (see DESIGN.md 2.2); "
                  "files rewritten by tools/instr are regenerated from /repo's working tree on every run",
        "baseline_off_cmd": BASE,
        "source_commits": [],
        "add_only": True,
    },
    "engines": [
        {"name": "check", "path": "check", "serves_properties": sorted(CHECKS),
         "kind_free_text": "python driver: overlay + modfile, go test -c per harness package, sharded rapid runs, evidence merge, known-finding matching"},
        {"name": "verifkit", "path": "kit", "serves_properties": sorted(CHECKS),
         "kind_free_text": "Go module with the evidence recorder / scenario runner (rapid search, exhaustive enumeration, replay) and shared generators"},
    ],
    "checks": [],
    "not_applicable": list(NOT_APPLICABLE),
    "notes": "Property-based testing / fuzzing only. fix: commits in /repo: " + ", ".join(FIX_COMMITS) + ". Findings: KNOWN_FINDINGS.txt.",
}
allids = [json.loads(l)["id"] for l in open(os.path.join(ROOT, "properties.jsonl"))]
for pid in allids:
    if pid not in CHECKS and not any(n["property_id"] == pid for n in NOT_APPLICABLE):
        man["not_applicable"].append({"property_id": pid, "reason": "not claimed yet: harness still being built (DESIGN.md section 6 gives the order of work); the technique does apply"})
for cid in sorted(CHECKS):
    c = CHECKS[cid]
    man["checks"].append({
        "property_id": cid,
        "quick_cmd": "./check %s --tier quick" % cid,
        "thorough_cmd": "./check %s --tier thorough" % cid,
        "evidence_file": "/verif/evidence/%s.json" % cid,
        "replay_cmd_template": "./check %s --replay {path}" % cid,
        "engine": "check",
        "level_claimed": {"category": c.get("level", "exploration"), "text": c["level_text"], "design_ref": "DESIGN.md section 3, " + cid},
        "level_note": c["level_note"],
        "technique": c["technique"],
    })
json.dump(man, open(os.path.join(ROOT, "MANIFEST.json"), "w"), indent=1)
print("MANIFEST.json: %d checks, %d not applicable" % (len(man["checks"]), len(NOT_APPLICABLE)))
