package queue

// C18 harness: failure reports (shares harness/shared/queue_common_test.go and
// the C01 reference model, which is compiled in with it).

import (
	"bytes"
	"fmt"
	"io"
	"mime"
	"mime/multipart"
	"net/mail"
	"net/textproto"
	"sort"
	"strings"
	"testing"

	"github.com/foxcpp/maddy/internal/verifx"
	"pgregory.net/rapid"
	"verifkit/ev"
)

var c18Headers = []string{
	"From: <sender@example.com>\r\nSubject: test\r\n",
	"Received: from a by b; Thu, 1 Jan 2026 00:00:00 +0000\r\nReceived: from c by d\r\n\t(folded) ; date\r\nFrom: S <sender@example.com>\r\nTo: x@example.org\r\nSubject: =?utf-8?q?caf=C3=A9?=\r\n",
	"From: sender@example.com\r\nSubject: Юникод в заголовке\r\nX-Long: " + strings.Repeat("v", 300) + "\r\nX-Empty:\r\n",
	"Subject: no from\r\nContent-Type: multipart/mixed; boundary=\"same-looking-boundary\"\r\nMIME-Version: 1.0\r\n",
}

func c18GenErr(t *rapid.T, label string) *verifx.ErrNode {
	if rapid.IntRange(0, 2).Draw(t, label+"_deep") == 0 {
		return verifx.GenErr(t, rapid.IntRange(1, 3).Draw(t, label+"_depth"))
	}
	return c01Fault(t, label)
}

func c18Gen(t *rapid.T) qScenario {
	sc := qScenario{
		MaxTries: rapid.IntRange(1, 3).Draw(t, "max_tries"),
		Partial:  rapid.Bool().Draw(t, "partial"),
		Bounce:   rapid.SampledFrom([]string{"ok", "ok", "ok", "ok", "start", "rcpt", "body", "commit"}).Draw(t, "bounce"),
	}
	sc.AutogenDomain = rapid.SampledFrom([]string{"", "", "", "почта.maddy.test"}).Draw(t, "autogen_domain")
	m := qMsg{ID: "m0", From: "sender@example.com", OriginalFrom: "sender@example.com", Body: "hello\r\n"}
	m.Header = ev.QS(rapid.SampledFrom(c18Headers).Draw(t, "header"))
	switch rapid.IntRange(0, 9).Draw(t, "sender") {
	case 8:
		// a local part that needs quoting in a header (go-smtp hands the envelope address over without the quotes)
		f := rapid.SampledFrom([]string{"john doe@example.com", "doe,john@example.com", "a\"b@example.com", "x(y)@example.com"}).Draw(t, "quoted_sender")
		m.From, m.OriginalFrom = f, f
	case 0:
		m.From, m.OriginalFrom = "", ""
	case 9:
		// U+0080 in the local part and no SMTPUTF8 (the endpoint's own test lets exactly this character through)
		if rapid.Bool().Draw(t, "u80_sender") {
			m.From, m.OriginalFrom = "a\u0080b@example.com", "a\u0080b@example.com"
		}
	case 1:
		m.From, m.OriginalFrom = "отправитель@тест.example", "отправитель@тест.example"
		m.UTF8 = true
	case 2:
		m.From, m.OriginalFrom = "sender@тест.example", "sender@тест.example"
	}
	idx := rapid.SliceOfNDistinct(rapid.IntRange(0, len(c01Rcpts)-1), 1, 4, rapid.ID[int]).Draw(t, "rcpts")
	for _, i := range idx {
		r := c01Rcpts[i]
		if strings.HasPrefix(r, "почта") {
			m.UTF8 = true
		}
		// some recipients are the result of rewriting in the pipeline
		if rapid.IntRange(0, 2).Draw(t, "rewritten") == 0 {
			if m.OriginalRcpts == nil {
				m.OriginalRcpts = map[string]string{}
			}
			m.OriginalRcpts[r] = fmt.Sprintf("alias%d@example.org", i)
			if rapid.IntRange(0, 5).Draw(t, "quoted_rcpt") == 0 {
				// the sender wrote "john doe"@example.org, go-smtp hands it over without the quotes
				m.OriginalRcpts[r] = fmt.Sprintf("john doe%d@example.org", i)
			}
		}
		m.Rcpts = append(m.Rcpts, r)
	}
	if rapid.IntRange(0, 3).Draw(t, "utf8") == 0 {
		m.UTF8 = true
	}
	m.Helo = rapid.SampledFrom([]string{"", "", "", "mail.client.example", "[192.0.2.7]", "xn--0.client.example", "клиент.example", "not a host name"}).Draw(t, "helo")
	for a := 0; a < sc.MaxTries; a++ {
		p := qPlan{}
		if rapid.IntRange(0, 8).Draw(t, "startfail") == 0 {
			p.Start = c18GenErr(t, "start")
		}
		for _, r := range m.Rcpts {
			switch rapid.IntRange(0, 3).Draw(t, "how") {
			case 0:
				if p.Rcpt == nil {
					p.Rcpt = map[string]*verifx.ErrNode{}
				}
				p.Rcpt[r] = c18GenErr(t, "rcpt")
			case 1:
				if sc.Partial {
					if p.Status == nil {
						p.Status = map[string]*verifx.ErrNode{}
					}
					p.Status[r] = c18GenErr(t, "status")
				}
			}
		}
		if !sc.Partial && rapid.IntRange(0, 3).Draw(t, "bodyfail") == 0 {
			p.Body = c18GenErr(t, "body")
		}
		m.Plans = append(m.Plans, p)
	}
	sc.Msgs = []qMsg{m}
	return sc
}

type c18Group struct {
	FinalRcpt, Action, Status, Diag string
}

type c18Parsed struct {
	Err        string
	PartTypes  []string
	PerMessage textproto.MIMEHeader
	Groups     []c18Group
	Original   []byte // third part
	To, From   string
}

func c18Parse(raw []byte) c18Parsed {
	var p c18Parsed
	tr := textproto.NewReader(bufioReader(string(raw)))
	hdr, err := tr.ReadMIMEHeader()
	if err != nil {
		p.Err = "report header: " + err.Error()
		return p
	}
	p.To, p.From = hdr.Get("To"), hdr.Get("From")
	mt, params, err := mime.ParseMediaType(hdr.Get("Content-Type"))
	if err != nil {
		p.Err = "Content-Type: " + err.Error()
		return p
	}
	if mt != "multipart/report" || params["report-type"] != "delivery-status" {
		p.Err = fmt.Sprintf("Content-Type is %q report-type=%q", mt, params["report-type"])
		return p
	}
	if hdr.Get("Mime-Version") == "" {
		p.Err = "no MIME-Version"
		return p
	}
	mr := multipart.NewReader(tr.R, params["boundary"])
	for i := 0; ; i++ {
		part, err := mr.NextRawPart()
		if err == io.EOF {
			break
		}
		if err != nil {
			p.Err = fmt.Sprintf("part %d: %v", i, err)
			return p
		}
		ct, _, _ := mime.ParseMediaType(part.Header.Get("Content-Type"))
		p.PartTypes = append(p.PartTypes, ct)
		body, err := io.ReadAll(part)
		if err != nil {
			p.Err = fmt.Sprintf("part %d body: %v", i, err)
			return p
		}
		switch i {
		case 1:
			// sequence of header-like blocks separated by empty lines
			blocks := strings.Split(strings.ReplaceAll(string(body), "\r\n", "\n"), "\n\n")
			for bi, b := range blocks {
				if strings.TrimSpace(b) == "" {
					continue
				}
				h, err := textproto.NewReader(bufioReader(strings.ReplaceAll(b, "\n", "\r\n") + "\r\n\r\n")).ReadMIMEHeader()
				if err != nil {
					p.Err = fmt.Sprintf("delivery-status block %d: %v", bi, err)
					return p
				}
				if bi == 0 {
					p.PerMessage = h
					continue
				}
				p.Groups = append(p.Groups, c18Group{h.Get("Final-Recipient"), h.Get("Action"), h.Get("Status"), h.Get("Diagnostic-Code")})
			}
		case 2:
			p.Original = body
		}
	}
	return p
}

// c18AddrOf returns the address of an "address-type; address" field the way the envelope has it (a quoted local part
// without the quotes).
func c18AddrOf(field string) string {
	if i := strings.IndexByte(field, ';'); i >= 0 {
		field = field[i+1:]
	}
	field = strings.TrimSpace(field)
	if strings.HasPrefix(field, "\"") {
		if a, err := mail.ParseAddress("<" + field + ">"); err == nil {
			return a.Address
		}
	}
	return field
}

func c18Run(sc qScenario) (vs []ev.V) {
	h := qRun(sc, nil)
	m := sc.Msgs[0]
	fate := c01Model(sc, m)
	// which recipients fail terminally in which attempt
	failedIn := map[int][]string{}
	for _, r := range m.Rcpts {
		if f := fate[r]; f.Failed {
			failedIn[f.FailAttempt] = append(failedIn[f.FailAttempt], r)
		}
	}
	c18LastReports = len(h.Reports)
	if m.OriginalFrom == "" {
		if len(h.Reports) != 0 {
			return []ev.V{ev.Vf("report:for-null-sender", "%d failure report(s) generated for a message whose sender is the null address", len(h.Reports))}
		}
		return nil
	}
	if len(h.Reports) != len(failedIn) {
		vs = append(vs, ev.Vf(fmt.Sprintf("report:count=%d-want-%d", len(h.Reports), len(failedIn)), "%d reports were handed to the bounce pipeline, %d attempts ended with terminal failures (%v); %s", len(h.Reports), len(failedIn), failedIn, c01Events(h)))
		return vs
	}
	var attempts []int
	for a := range failedIn {
		attempts = append(attempts, a)
	}
	sort.Ints(attempts)
	for i, rep := range h.Reports {
		want := failedIn[attempts[i]]
		where := fmt.Sprintf("report %d (attempt %d)", i, attempts[i])
		if rep.From != "" {
			vs = append(vs, ev.Vf("report:return-path-not-null", "%s: MAIL FROM of the report is %q", where, rep.From))
		}
		if sc.Bounce == "start" {
			continue // refused before anything could be examined
		}
		if sc.Bounce == "rcpt" {
			if !rep.Aborted {
				vs = append(vs, ev.Vf("report:failed-delivery-not-aborted", "%s: recipient refused by the bounce pipeline but the report delivery was not aborted", where))
			}
			continue
		}
		if len(rep.Rcpts) != 1 || (rep.Rcpts[0] != m.From && rep.Rcpts[0] != m.OriginalFrom) {
			vs = append(vs, ev.Vf("report:wrong-recipient", "%s: delivered to %v, the sender of the failed message is %q", where, rep.Rcpts, m.OriginalFrom))
		}
		if sc.Bounce == "ok" && (!rep.Committed || rep.Aborted) {
			vs = append(vs, ev.Vf("report:not-committed", "%s: committed=%v aborted=%v", where, rep.Committed, rep.Aborted))
		}
		// (a delivery whose Commit failed has ended: the pipeline does not abort the target whose Commit failed either, and
		// a second end returns the permits of an outbound target twice - C11, queue-report)
		if sc.Bounce == "commit" && rep.Aborted {
			vs = append(vs, ev.Vf("report:delivery-ended-twice", "%s: the bounce pipeline failed at commit and the report delivery was aborted after that", where))
		}
		if sc.Bounce == "body" && !rep.Aborted {
			vs = append(vs, ev.Vf("report:failed-delivery-not-aborted", "%s: bounce pipeline failed at %s but the report delivery was not aborted", where, sc.Bounce))
		}
		for _, line := range strings.Split(string(rep.Raw), "\n") {
			if len(line) > 999 { // 998 and the CR
				vs = append(vs, ev.Vf("report:line-too-long", "%s: a line of %d octets (RFC 5322 2.1.1: at most 998): %.80q...", where, len(strings.TrimSuffix(line, "\r")), line))
				break
			}
		}
		p := c18Parse(rep.Raw)
		if p.Err != "" {
			vs = append(vs, ev.Vf("report:malformed", "%s: %s\n%s", where, p.Err, rep.Raw))
			continue
		}
		if len(p.PartTypes) != 3 || p.PartTypes[0] != "text/plain" ||
			(p.PartTypes[1] != "message/delivery-status" && p.PartTypes[1] != "message/global-delivery-status") ||
			(p.PartTypes[2] != "message/rfc822-headers" && p.PartTypes[2] != "text/rfc822-headers" && p.PartTypes[2] != "message/global-headers" && p.PartTypes[2] != "message/rfc822" && p.PartTypes[2] != "message/global") {
			vs = append(vs, ev.Vf("report:parts", "%s: part types %v", where, p.PartTypes))
		}
		if p.PerMessage.Get("Reporting-Mta") == "" {
			vs = append(vs, ev.Vf("report:no-reporting-mta", "%s: per-message fields %v", where, p.PerMessage))
		}
		// recipients
		var got, exp []string
		for _, g := range p.Groups {
			got = append(got, c18AddrOf(g.FinalRcpt))
		}
		for _, r := range want {
			if o := m.OriginalRcpts[r]; o != "" {
				r = o
			}
			exp = append(exp, r)
		}
		if !c18SameAddrSet(got, exp) {
			sig := "report:recipients"
			for _, g := range got {
				for eff := range m.OriginalRcpts {
					if c01SameAddr(g, eff) {
						sig = "report:names-rewritten-address"
					}
				}
			}
			vs = append(vs, ev.Vf(sig, "%s: Final-Recipient values %v, recipients that failed terminally in that attempt (as the sender wrote them) %v", where, got, exp))
		}
		for _, g := range p.Groups {
			// well-formedness of the per-recipient group: a message/delivery-status part is 7-bit (RFC 3464),
			// an address of type rfc822 is ASCII (IDN domains as A-labels); UTF-8 needs message/global-delivery-status and type utf-8 (RFC 6533)
			nonASCII := func(s string) bool {
				for i := 0; i < len(s); i++ {
					if s[i] >= 0x80 {
						return true
					}
				}
				return false
			}
			if strings.HasPrefix(strings.ToLower(strings.TrimSpace(g.FinalRcpt)), "rfc822;") && nonASCII(g.FinalRcpt) {
				vs = append(vs, ev.Vf("report:rfc822-recipient-not-ascii", "%s: Final-Recipient %q has address type rfc822 but is not ASCII (part type %s)", where, g.FinalRcpt, p.PartTypes[1]))
			}
			// the registered address types for this field are rfc822 (RFC 3464) and utf-8 (RFC 6533 section 3, IANA
			// "Address Types" registry); there is no type "utf8"
			if fr := strings.SplitN(g.FinalRcpt, ";", 2); len(fr) == 2 {
				// the address is a mailbox in the syntax of RFC 5321 / 6531: a local part with a space is quoted
				if _, err := mail.ParseAddress("<" + strings.TrimSpace(fr[1]) + ">"); err != nil {
					vs = append(vs, ev.Vf("report:final-recipient-malformed", "%s: Final-Recipient %q is not a mailbox (%v)", where, g.FinalRcpt, err))
				}
			}
			if at := strings.ToLower(strings.TrimSpace(strings.SplitN(g.FinalRcpt, ";", 2)[0])); at != "rfc822" && at != "utf-8" {
				vs = append(vs, ev.Vf("report:address-type", "%s: Final-Recipient %q: address type %q is neither rfc822 nor utf-8", where, g.FinalRcpt, at))
			}
			if p.PartTypes[1] == "message/delivery-status" && (nonASCII(g.FinalRcpt) || nonASCII(g.Diag) || nonASCII(g.Status)) {
				vs = append(vs, ev.Vf("report:8bit-in-delivery-status", "%s: the message/delivery-status part holds non-ASCII data: Final-Recipient %q Diagnostic-Code %q", where, g.FinalRcpt, g.Diag))
			}
			if !strings.EqualFold(g.Action, "failed") {
				vs = append(vs, ev.Vf("report:action", "%s: Action %q for %s", where, g.Action, g.FinalRcpt))
			}
			var a, b, c int
			if n, _ := fmt.Sscanf(g.Status, "%d.%d.%d", &a, &b, &c); n != 3 || (a != 4 && a != 5) {
				vs = append(vs, ev.Vf("report:status-syntax", "%s: Status %q for %s", where, g.Status, g.FinalRcpt))
				continue
			}
			// last error of that recipient (by the model)
			for _, r := range want {
				o := r
				if x := m.OriginalRcpts[r]; x != "" {
					o = x
				}
				if !c01SameAddr(c18AddrOf(g.FinalRcpt), o) {
					continue
				}
				le := fate[r].LastErr
				if ann := le.Annotated(); ann != nil && ann.Kind == "smtp" && !le.TempOverAnnotated() && (ann.Code/100 == 4 || ann.Code/100 == 5) { // (a 2yz code inside a failure cannot be reported as it is)
					if !strings.Contains(g.Diag, fmt.Sprint(ann.Code)) && g.Diag != "" {
						vs = append(vs, ev.Vf("report:diagnostic-code", "%s: Diagnostic-Code %q for %s, the last error was %s", where, g.Diag, g.FinalRcpt, le))
					}
					if a != ann.Code/100 {
						vs = append(vs, ev.Vf("report:status-class", "%s: Status %s for %s, the last error was %s", where, g.Status, g.FinalRcpt, le))
					} else if ann.Ench[0] == ann.Code/100 && ann.Ench[1] >= 0 && ann.Ench[2] >= 0 && (b != ann.Ench[1] || c != ann.Ench[2]) { // (5.-1.0 is no status code, it cannot be reported)
						// "with their last status codes": the enhanced status code the target gave for the recipient
						vs = append(vs, ev.Vf("report:status-code-not-the-last-one", "%s: Status %s for %s, the last error was %s", where, g.Status, g.FinalRcpt, le))
					}
				}
				if strings.HasPrefix(g.Diag, "smtp;") {
					var dc int
					fmt.Sscanf(strings.TrimSpace(strings.TrimPrefix(g.Diag, "smtp;")), "%d", &dc)
					if dc/100 != a && !le.TempOverAnnotated() {
						vs = append(vs, ev.Vf("report:status-vs-diagnostic", "%s: Status %s but Diagnostic-Code %q for %s (last error %s)", where, g.Status, g.Diag, g.FinalRcpt, le))
					}
				}
			}
		}
		// third part: the header of the original message
		wantHdr, err1 := textproto.NewReader(bufioReader(string(m.Header) + "\r\n")).ReadMIMEHeader()
		gotHdr, err2 := textproto.NewReader(bufioReader(string(p.Original))).ReadMIMEHeader()
		if err1 == nil {
			if err2 != nil && len(gotHdr) == 0 {
				vs = append(vs, ev.Vf("report:original-header-missing", "%s: third part does not parse as a header: %v\n%q", where, err2, p.Original))
			} else if !c18SameHeader(wantHdr, gotHdr) {
				vs = append(vs, ev.Vf("report:original-header-differs", "%s: original header\n%q\nreported as\n%q", where, m.Header, p.Original))
			}
		}
		if !strings.Contains(p.To, m.OriginalFrom) && !bytes.Contains([]byte(p.To), []byte("xn--")) && !strings.ContainsAny(m.OriginalFrom, " ,\"()") {
			vs = append(vs, ev.Vf("report:to-header", "%s: To header %q, the sender is %q", where, p.To, m.OriginalFrom))
		}
		// a report that is not sent as an internationalized message (SMTPUTF8 not set for it) has an ASCII header
		if !rep.Meta.SMTPOpts.UTF8 {
			for _, k := range []string{"From", "To", "Message-Id", "Subject"} {
				v := rep.Header.Get(k)
				for i := 0; i < len(v); i++ {
					if v[i] >= 0x80 {
						vs = append(vs, ev.Vf("report:8bit-header-without-smtputf8", "%s: header field %s: %q is not ASCII but the report is not handed over as an SMTPUTF8 message", where, k, v))
						break
					}
				}
			}
		}
		// well-formed: the To field is one address, the sender's
		if list, err := mail.ParseAddressList(p.To); err != nil || len(list) != 1 {
			vs = append(vs, ev.Vf("report:to-header-malformed", "%s: To header %q does not parse as one address (%v, %d addresses); the sender is %q", where, p.To, err, len(list), m.OriginalFrom))
		} else if got := list[0].Address; got != m.OriginalFrom && !strings.Contains(got, "xn--") {
			vs = append(vs, ev.Vf("report:to-header", "%s: To header %q names %q, the sender is %q", where, p.To, got, m.OriginalFrom))
		}
	}
	return vs
}

var c18LastReports int

func c18SameAddrSet(got, want []string) bool {
	if len(got) != len(want) {
		return false
	}
	used := make([]bool, len(want))
	for _, g := range got {
		ok := false
		for i, w := range want {
			if !used[i] && c01SameAddr(g, w) {
				used[i], ok = true, true
				break
			}
		}
		if !ok {
			return false
		}
	}
	return true
}

func c18SameHeader(a, b textproto.MIMEHeader) bool {
	if len(a) != len(b) {
		return false
	}
	for k, av := range a {
		bv := b[k]
		if len(av) != len(bv) {
			return false
		}
		for i := range av {
			if strings.Join(strings.Fields(av[i]), " ") != strings.Join(strings.Fields(bv[i]), " ") {
				return false
			}
		}
	}
	return true
}

func c18Info(sc qScenario) ev.Info {
	m := sc.Msgs[0]
	fate := c01Model(sc, m)
	failed, rewritten, idn, odd := 0, false, false, false
	for _, r := range m.Rcpts {
		if fate[r].Failed {
			failed++
			if m.OriginalRcpts[r] != "" {
				rewritten = true
			}
			if strings.Contains(r, "тест") {
				idn = true
			}
			if le := fate[r].LastErr; le != nil {
				if a := le.Annotated(); a != nil && (strings.Contains(a.Msg, "\n") || strings.IndexFunc(a.Msg, func(r rune) bool { return r >= 0x80 }) >= 0) {
					odd = true
				}
			}
		}
	}
	return ev.Info{Nontrivial: failed >= 2 || (failed >= 1 && (rewritten || idn || odd)),
		Classes: []string{fmt.Sprintf("failed=%d", failed), "bounce=" + sc.Bounce, fmt.Sprintf("reports=%d", c18LastReports)}}
}

func TestVerifC18(t *testing.T) {
	qT = t
	r := ev.Get("C18")
	r.Rule("Scenario = one message (four original headers incl. folded, encoded, 8-bit, long and empty fields; normal, IDN, EAI or null sender; SMTPUTF8 or not) with 1-4 recipients (ASCII, IDN, non-ASCII " +
		"local part; some marked as rewritten via OriginalRcpts, some of those written with a local part that needs quoting; a sender with U+0080 in the local part), max_tries 1-3, scripted atomic or per-recipient target failing with error values from the shared error-tree generator (codes, " +
		"multi-line / non-ASCII / U+0080 / 1500-octet texts, enhanced codes of another class or out of range, wrappers), bounce pipeline = recording target that succeeds or fails at Start/AddRcpt/Body/Commit; run under synctest. Oracle: every report handed to the " +
		"bounce target is parsed with Go's mime/multipart + net/textproto (not go-message): null return path, recipient = sender, multipart/report with three parts of the right types, " +
		"Final-Recipient set = recipients the C01 model says failed terminally in that attempt under their original addresses, Action failed, Status/Diagnostic-Code classes agree with the last " +
		"error, third part = original header, no line over 998 octets, Final-Recipient is a mailbox; none for a null sender; a report delivery failing before Commit is aborted, one failing at Commit is not ended a second time, neither yields a further report. " +
		"Non-trivial = >=2 failed recipients, or a failed recipient that is rewritten / IDN / has a multi-line or non-ASCII diagnostic. Distinct = distinct scenario.")
	r.Assume("8-bit text inside a non-EAI message/delivery-status part is not counted as ill-formed; the enhanced-code detail digits (x.Y.Z) of downstream errors are not asserted")
	ev.Run(t, r, ev.Spec[qScenario]{Name: "reports", N: r.N, Gen: c18Gen, Run: c18Run, Info: c18Info})
}
