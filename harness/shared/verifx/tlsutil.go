package verifx

import (
	"crypto/ecdsa"
	"crypto/elliptic"
	"crypto/rand"
	"crypto/tls"
	"crypto/x509"
	"crypto/x509/pkix"
	"encoding/pem"
	"math/big"
	"net"
	"time"
)

// SelfSignedFor makes a certificate valid for the given IP addresses and DNS
// names; it returns the server-side configuration and the certificate in PEM
// form (to be used as the client's root_ca).
func SelfSignedFor(ips []string, names []string) (*tls.Config, []byte, error) {
	key, err := ecdsa.GenerateKey(elliptic.P256(), rand.Reader)
	if err != nil {
		return nil, nil, err
	}
	tmpl := &x509.Certificate{SerialNumber: big.NewInt(time.Now().UnixNano()), Subject: pkix.Name{CommonName: "verif next hop"},
		NotBefore: time.Now().Add(-time.Hour), NotAfter: time.Now().Add(24 * time.Hour), DNSNames: names,
		KeyUsage: x509.KeyUsageDigitalSignature | x509.KeyUsageCertSign, ExtKeyUsage: []x509.ExtKeyUsage{x509.ExtKeyUsageServerAuth},
		IsCA: true, BasicConstraintsValid: true}
	for _, ip := range ips {
		tmpl.IPAddresses = append(tmpl.IPAddresses, net.ParseIP(ip))
	}
	der, err := x509.CreateCertificate(rand.Reader, tmpl, tmpl, &key.PublicKey, key)
	if err != nil {
		return nil, nil, err
	}
	cert := tls.Certificate{Certificate: [][]byte{der}, PrivateKey: key}
	return &tls.Config{Certificates: []tls.Certificate{cert}}, pem.EncodeToMemory(&pem.Block{Type: "CERTIFICATE", Bytes: der}), nil
}
