package limits

// C11 harness, limits.Group layer (injected into internal/limits by overlay).
// The group is built from generated configuration through the real Init;
// concurrent histories run in a synctest bubble (so the 5 s acquisition
// time-out and the hold times are virtual and the concurrency is exact).

import (
	"context"
	"fmt"
	"net"
	"runtime/debug"
	"sort"
	"strings"
	"sync"
	"testing"
	"testing/synctest"
	"time"

	"github.com/foxcpp/maddy/framework/config"
	"github.com/foxcpp/maddy/internal/limits/limiters"
	"pgregory.net/rapid"
	"verifkit/ev"
)

type c11Worker struct {
	StartMs int `json:"start_ms"`
	IP      int `json:"ip"`
	Src     int `json:"src"`
	Dst     int `json:"dst"` // -1: no destination permit
	HoldMs  int `json:"hold_ms"`
}

type c11Scenario struct {
	// configured concurrency per scope (0 = not configured; -1 = configured as "concurrency -1", -2 = as "concurrency 0":
	// "negative or zero: all methods are no-op" says the limiter's documentation, i.e. no limit)
	All, IP, Source, Dest int
	// an additional rate limit (RateN messages per 6 s) in one scope, declared after the concurrency limit of
	// that scope: a message that passes the concurrency limit and then times out on the rate returns its permit
	RateScope string      `json:"rate_scope,omitempty"` // "", all, ip, source, destination
	RateN     int         `json:"rate_n,omitempty"`
	Workers   []c11Worker `json:"workers"`
}

func c11Gen(t *rapid.T) c11Scenario {
	n := func(label string) int {
		return rapid.SampledFrom([]int{0, 0, 0, 1, 1, 1, 2, 2, 3, 3, -1, -2}).Draw(t, label)
	}
	sc := c11Scenario{All: n("all"), IP: n("ip"), Source: n("source"), Dest: n("dest")}
	if sc.All <= 0 && sc.IP <= 0 && sc.Source <= 0 && sc.Dest <= 0 {
		sc.Dest = 1
	}
	if rapid.IntRange(0, 2).Draw(t, "with_rate") == 0 {
		var scopes []string
		for k, v := range map[string]int{"all": sc.All, "ip": sc.IP, "source": sc.Source, "destination": sc.Dest} {
			if v > 0 {
				scopes = append(scopes, k)
			}
		}
		sort.Strings(scopes)
		sc.RateScope = rapid.SampledFrom(scopes).Draw(t, "rate_scope")
		sc.RateN = rapid.SampledFrom([]int{1, 1, 2, 2, 3, 3, -1}).Draw(t, "rate_n") // -1: a burst size that cannot be meant; it may be refused when the configuration is loaded
	}
	nw := rapid.SampledFrom([]int{1, 2, 3, 4, 6, 8, 16, 32, 64}).Draw(t, "workers")
	for i := 0; i < nw; i++ {
		w := c11Worker{
			StartMs: rapid.SampledFrom([]int{0, 0, 0, 1, 10, 500, 3000, 6000}).Draw(t, "start"),
			IP:      rapid.IntRange(0, 1).Draw(t, "ip"),
			Src:     rapid.IntRange(0, 2).Draw(t, "src"),
			Dst:     rapid.IntRange(-1, 2).Draw(t, "dst"),
			HoldMs:  rapid.SampledFrom([]int{0, 1, 100, 1000, 4000, 7000}).Draw(t, "hold"),
		}
		sc.Workers = append(sc.Workers, w)
	}
	return sc
}

func c11Group(sc c11Scenario) (*Group, error) {
	var nodes []config.Node
	add := func(scope string, n int) {
		switch {
		case n > 0:
			nodes = append(nodes, config.Node{Name: scope, Args: []string{"concurrency", fmt.Sprint(n)}})
		case n == -1:
			nodes = append(nodes, config.Node{Name: scope, Args: []string{"concurrency", "-1"}})
		case n == -2:
			nodes = append(nodes, config.Node{Name: scope, Args: []string{"concurrency", "0"}})
		}
		if scope == sc.RateScope && sc.RateN != 0 {
			nodes = append(nodes, config.Node{Name: scope, Args: []string{"rate", fmt.Sprint(sc.RateN), "6s"}})
		}
	}
	add("all", sc.All)
	add("ip", sc.IP)
	add("source", sc.Source)
	add("destination", sc.Dest)
	mod, _ := New("limits", "verif", nil, nil)
	g := mod.(*Group)
	err := g.Init(config.NewMap(nil, config.Node{Children: nodes}))
	return g, err
}

var c11T *testing.T

var (
	c11IPs  = []net.IP{net.IPv4(192, 0, 2, 1), net.IPv4(192, 0, 2, 2)}
	c11Doms = []string{"a.example", "b.example", ""}
)

func c11Run(sc c11Scenario) (vs []ev.V) {
	var mu sync.Mutex
	holders := map[string]int{}
	var problems []ev.V
	acquired, timedOut := 0, 0
	limit := map[string]int{"all": sc.All, "ip": sc.IP, "source": sc.Source, "destination": sc.Dest}
	hold := func(scope, key string, delta int) {
		if limit[scope] <= 0 {
			return
		}
		k := scope + "/" + key
		holders[k] += delta
		if holders[k] > limit[scope] {
			problems = append(problems, ev.Vf("limit:exceeded:"+scope, "%d messages hold a permit of scope %s key %q at the same time, the configured concurrency is %d", holders[k], scope, key, limit[scope]))
		}
	}
	synctest.Test(c11T, func(t *testing.T) {
		// the group (its channels) must be created inside the bubble
		var g *Group
		var err error
		func() {
			defer func() {
				if p := recover(); p != nil {
					problems = append(problems, ev.Vf("limit:panic:"+ev.PanicSite(string(debug.Stack())), "limits.Group.Init panicked: %v\n%s", p, debug.Stack()))
				}
			}()
			g, err = c11Group(sc)
		}()
		if len(problems) > 0 {
			return
		}
		if err != nil {
			if sc.RateN < 0 {
				return // refused at load time: fine
			}
			problems = append(problems, ev.Vf("harness:init", "limits.Group.Init failed: %v", err))
			return
		}
		var wg sync.WaitGroup
		for wi, w := range sc.Workers {
			wi, w := wi, w
			wg.Add(1)
			go func() {
				defer wg.Done()
				defer func() {
					if p := recover(); p != nil {
						mu.Lock()
						problems = append(problems, ev.Vf("limit:panic:"+ev.PanicSite(string(debug.Stack())), "worker %d: limit operation panicked: %v\n%s", wi, p, debug.Stack()))
						mu.Unlock()
					}
				}()
				time.Sleep(time.Duration(w.StartMs) * time.Millisecond)
				ctx := context.Background()
				ip, src := c11IPs[w.IP], c11Doms[w.Src]
				if err := g.TakeMsg(ctx, ip, src); err != nil {
					mu.Lock()
					timedOut++
					mu.Unlock()
					return
				}
				mu.Lock()
				hold("all", "", 1)
				hold("ip", ip.String(), 1)
				hold("source", src, 1)
				mu.Unlock()
				gotDest := false
				if w.Dst >= 0 {
					if err := g.TakeDest(ctx, c11Doms[w.Dst]); err == nil {
						gotDest = true
						mu.Lock()
						hold("destination", c11Doms[w.Dst], 1)
						mu.Unlock()
					}
				}
				mu.Lock()
				acquired++
				mu.Unlock()
				time.Sleep(time.Duration(w.HoldMs) * time.Millisecond)
				mu.Lock()
				if gotDest {
					hold("destination", c11Doms[w.Dst], -1)
				}
				hold("all", "", -1)
				hold("ip", ip.String(), -1)
				hold("source", src, -1)
				mu.Unlock()
				if gotDest {
					g.ReleaseDest(c11Doms[w.Dst])
				}
				g.ReleaseMsg(ip, src)
			}()
		}
		wg.Wait()
		// the rate limiters run refill goroutines: stop them before the bubble ends
		defer func() {
			g.global.Close()
			for _, bs := range []*limiters.BucketSet{g.ip, g.source, g.dest} {
				if bs != nil {
					bs.Close()
				}
			}
		}()
		probeTimeout := 20 * time.Millisecond
		if sc.RateN > 0 {
			time.Sleep(time.Minute) // let the rate limiter refill; every probe may have to wait for the next refill as well
			probeTimeout = 30 * time.Second
		}
		// quiescence: the full N can be acquired again in every scope
		func() {
			defer func() {
				if p := recover(); p != nil {
					problems = append(problems, ev.Vf("limit:panic:"+ev.PanicSite(string(debug.Stack())), "probe: limit operation panicked: %v\n%s", p, debug.Stack()))
				}
			}()
			probe := func(what string, n int, take func(ctx context.Context) error, release func()) {
				if n <= 0 {
					return
				}
				got := 0
				for i := 0; i < n; i++ {
					if sc.RateN > 0 {
						time.Sleep(7 * time.Second) // one refill interval: TakeMsg itself never waits longer than 5 s
					}
					ctx, cancel := context.WithTimeout(context.Background(), probeTimeout)
					err := take(ctx)
					cancel()
					if err != nil {
						break
					}
					got++
				}
				for i := 0; i < got; i++ {
					release()
				}
				if got != n {
					problems = append(problems, ev.Vf("limit:permit-not-returned:"+strings.Fields(what)[0], "after all deliveries ended only %d of %d permits of %s can be acquired", got, n, what))
				}
			}
			min := 0
			for _, v := range []int{sc.All, sc.IP, sc.Source} {
				if v > 0 && (min == 0 || v < min) {
					min = v
				}
			}
			for _, ip := range c11IPs {
				for _, d := range c11Doms {
					ip, d := ip, d
					// the binding scope for this (ip, source) pair is the smallest configured one; a leak in a
					// wider scope is found when that scope is the smallest for some generated configuration
					probe(fmt.Sprintf("message (ip %s, source %q)", ip, d), min, func(ctx context.Context) error { return g.TakeMsg(ctx, ip, d) }, func() { g.ReleaseMsg(ip, d) })
				}
			}
			for _, d := range c11Doms {
				d := d
				probe(fmt.Sprintf("destination %q", d), sc.Dest, func(ctx context.Context) error { return g.TakeDest(ctx, d) }, func() { g.ReleaseDest(d) })
			}
		}()
	})
	c11LastAcquired, c11LastTimedOut = acquired, timedOut
	seen := map[string]bool{}
	for _, p := range problems {
		if !seen[p.Sig] {
			seen[p.Sig] = true
			vs = append(vs, p)
		}
	}
	return vs
}

var c11LastAcquired, c11LastTimedOut int

func c11Info(sc c11Scenario) ev.Info {
	// contention: two workers with overlapping hold intervals on one key of a configured scope
	contend := false
	for i, a := range sc.Workers {
		for _, b := range sc.Workers[i+1:] {
			overlap := a.StartMs < b.StartMs+b.HoldMs+5000 && b.StartMs < a.StartMs+a.HoldMs+5000
			if !overlap {
				continue
			}
			if sc.All > 0 || (sc.IP > 0 && a.IP == b.IP) || (sc.Source > 0 && a.Src == b.Src) || (sc.Dest > 0 && a.Dst >= 0 && a.Dst == b.Dst) {
				contend = true
			}
		}
	}
	cl := []string{fmt.Sprintf("workers=%d", len(sc.Workers))}
	if c11LastTimedOut > 0 {
		cl = append(cl, "some-timed-out")
	}
	return ev.Info{Nontrivial: contend, Classes: cl}
}

// ---- bucket table capacity -----------------------------------------------------------------------

type c11Buckets struct {
	Capacity int    `json:"capacity"`
	Keys     []int  `json:"keys"` // key ids acquired in order
	Release  []bool `json:"release"`
	AgeSec   []int  `json:"age_sec"` // virtual seconds to sleep before each operation
}

func c11RunBuckets(sc c11Buckets) (vs []ev.V) {
	synctest.Test(c11T, func(t *testing.T) {
		defer func() {
			if p := recover(); p != nil {
				vs = append(vs, ev.Vf("buckets:panic:"+ev.PanicSite(string(debug.Stack())), "BucketSet with capacity %d panicked after keys %v: %v\n%s", sc.Capacity, sc.Keys, p, debug.Stack()))
			}
		}()
		bs := limiters.NewBucketSet(func() limiters.L { return limiters.NewSemaphore(1) }, time.Minute, sc.Capacity)
		held := map[int]bool{}
		for i, k := range sc.Keys {
			if sc.AgeSec[i] > 0 {
				time.Sleep(time.Duration(sc.AgeSec[i]) * time.Second)
			}
			key := fmt.Sprintf("key%d", k)
			if held[k] && sc.Release[i] {
				bs.Release(key)
				held[k] = false
				continue
			}
			ctx, cancel := context.WithTimeout(context.Background(), 10*time.Millisecond)
			err := bs.TakeContext(ctx, key)
			cancel()
			if err == nil && held[k] {
				// the limiter of every key is a semaphore of 1 and the harness still holds its permit
				vs = append(vs, ev.Vf("buckets:limit-exceeded", "BucketSet (capacity %d, semaphore of 1 per key): a second permit for %s was granted while the first is still held (operation %d of keys %v, ages %v)", sc.Capacity, key, i, sc.Keys, sc.AgeSec))
				bs.Release(key)
				continue
			}
			if err == nil {
				if sc.Release[i] {
					bs.Release(key)
				} else {
					held[k] = true
				}
			}
		}
		var ks []int
		for k, h := range held {
			if h {
				ks = append(ks, k)
			}
		}
		sort.Ints(ks)
		for _, k := range ks {
			bs.Release(fmt.Sprintf("key%d", k))
		}
	})
	return vs
}

func TestVerifC11(t *testing.T) {
	c11T = t
	r := ev.Get("C11")
	r.Rule("group: limits.Group built through its real Init from generated configuration (all / ip / source / destination concurrency N in 0..3), 1-64 workers each taking the message permits for one of 2 " +
		"source IPs x 3 source domains and optionally a destination permit, holding them 0-7 s and releasing, started at 0-6 s, all inside a synctest bubble (virtual 5 s acquisition time-out); oracle: a " +
		"harness-side holder count per (scope, key) never exceeds N, no panic, afterwards the full N can be acquired per scope and key. Non-trivial = two workers contend for one key of a configured scope. " +
		"buckets: BucketSet with capacity 1-4 and 1-12 take/release operations over up to 8 distinct keys with virtual pauses up to 3 min; oracle: no panic, never a second permit for a key whose permit is held. " +
		"endpoint and remote-target layers: see C03 (permits after SMTP sessions) and the remote unit of this check (remote: 1-5 deliveries through target.remote with a limits block, ended at every stage; queue-report: the failure report of a real target.queue sent through " +
		"'bounce { deliver_to <remote with limits>; deliver_to <archive> }' with the archive or the next hop failing at every stage while another message holds 0..N-1 permits; oracle: afterwards exactly N minus the held permits can be acquired - fewer is a leak, more a double return - and nothing was set aside as broken). Distinct = distinct scenario.")
	ev.Run(t, r, ev.Spec[c11Scenario]{Name: "group", N: r.N, Gen: c11Gen, Run: c11Run, Info: c11Info})
	ev.Run(t, r, ev.Spec[c11Buckets]{Name: "buckets", N: r.Scale(1, 2, 50), Gen: func(t *rapid.T) c11Buckets {
		sc := c11Buckets{Capacity: rapid.IntRange(1, 4).Draw(t, "capacity")}
		n := rapid.IntRange(1, 12).Draw(t, "nops")
		for i := 0; i < n; i++ {
			sc.Keys = append(sc.Keys, rapid.IntRange(0, 7).Draw(t, "key"))
			sc.Release = append(sc.Release, rapid.Bool().Draw(t, "release"))
			sc.AgeSec = append(sc.AgeSec, rapid.SampledFrom([]int{0, 0, 0, 1, 61, 180}).Draw(t, "age"))
		}
		return sc
	}, Run: c11RunBuckets, Info: func(sc c11Buckets) ev.Info {
		distinct := map[int]bool{}
		for _, k := range sc.Keys {
			distinct[k] = true
		}
		return ev.Info{Nontrivial: len(distinct) > sc.Capacity, Classes: []string{fmt.Sprintf("capacity=%d", sc.Capacity)}}
	}})
}
