#!/usr/bin/env python3
"""Run checks against the seeded changes kept under /verif/seeded/<id>/.

  tools/seeded.py run <id> [--tier quick|thorough] [--checks C01,C02] [--seed N]
  tools/seeded.py all [--jobs K]
  tools/seeded.py table           # markdown table of the recorded results

Nothing in /repo or /verif is modified apart from seeded/<id>/result.json: the
patch is applied to a scratch git worktree of /repo's HEAD under /tmp and the
checks run from a scratch copy of /verif (without .build) with VERIF_REPO
pointing at the worktree; both are removed afterwards.
"""
import json, os, shutil, subprocess, sys, time, concurrent.futures as cf

ROOT = os.path.dirname(os.path.dirname(os.path.abspath(__file__)))
REPO = "/repo"


def sh(cmd, **kw):
    return subprocess.run(cmd, capture_output=True, text=True, **kw)


def run(sid, tier="quick", checks=None, seed=None):
    d = os.path.join(ROOT, "seeded", sid)
    meta = json.load(open(os.path.join(d, "meta.json")))
    checks = checks or meta.get("checks") or [meta["property"]]
    scratch = "/tmp/seedrun-%s-%d" % (sid, os.getpid())
    wt, vc = scratch + "/repo", scratch + "/verif"
    os.makedirs(scratch)
    res = {"id": sid, "tier": tier, "checks": {}}
    try:
        r = sh(["git", "-C", REPO, "worktree", "add", "--detach", "-q", wt, "HEAD"])
        if r.returncode:
            raise RuntimeError(r.stderr)
        r = sh(["git", "-C", wt, "apply", os.path.join(d, "patch.diff")])
        if r.returncode:
            res["error"] = "patch does not apply: " + r.stderr.strip()
            return res
        sh(["rsync", "-a", "--exclude", ".build", "--exclude", ".git", "--exclude", "evidence", "--exclude", "seeded", ROOT + "/", vc + "/"])
        os.makedirs(vc + "/evidence", exist_ok=True)
        for c in checks:
            env = dict(os.environ, VERIF_REPO=wt)
            cmd = ["./check", c, "--tier", tier] + (["--seed", str(seed)] if seed else [])
            t0 = time.time()
            r = sh(cmd, cwd=vc, env=env)
            out = r.stdout + r.stderr
            viol = [l for l in out.splitlines() if l.startswith("VIOLATION")]
            sigs = sorted({l.split("sig=", 1)[1].split(" ", 1)[0] for l in out.splitlines() if "sig=" in l})
            res["checks"][c] = {"exit": r.returncode, "violations": len(viol), "sigs": sigs[:12], "wall_s": round(time.time() - t0, 1),
                                "tail": out.splitlines()[-1] if out.splitlines() else ""}
        res["detected"] = any(v["exit"] == 1 and v["violations"] > 0 for v in res["checks"].values())
    finally:
        sh(["git", "-C", REPO, "worktree", "remove", "--force", wt])
        shutil.rmtree(scratch, ignore_errors=True)
        sh(["git", "-C", REPO, "worktree", "prune"])
    json.dump(res, open(os.path.join(d, "result-%s.json" % tier), "w"), indent=1)
    return res


def importer(pid, tag=""):
    """Copy an agent's out/ directory (/tmp/mut-<pid>/out) into seeded/<pid>-m<k>/."""
    src = "/tmp/mut-%s/out" % pid
    done = []
    for k in (1, 2, 3):
        pf = os.path.join(src, "patch%d.diff" % k)
        mf = os.path.join(src, "meta%d.json" % k)
        if not (os.path.exists(pf) and os.path.exists(mf)):
            continue
        d = os.path.join(ROOT, "seeded", "%s-%sm%d" % (pid, tag, k))
        os.makedirs(d, exist_ok=True)
        shutil.copy(pf, os.path.join(d, "patch.diff"))
        meta = json.load(open(mf))
        meta["origin"] = "sub-agent given only the property text and a scratch worktree"
        meta.setdefault("property", pid)
        demos = [f for f in os.listdir(src) if f.startswith("demo%d" % k)]
        for f in demos:
            shutil.copy(os.path.join(src, f), os.path.join(d, f))
        meta["demo_files"] = demos
        json.dump(meta, open(os.path.join(d, "meta.json"), "w"), indent=1)
        done.append("%s-%sm%d" % (pid, tag, k))
    return done


def confirm(sid):
    """Demonstration passes on the clean tree and fails with the patch; touched packages' own tests still pass."""
    d = os.path.join(ROOT, "seeded", sid)
    meta = json.load(open(os.path.join(d, "meta.json")))
    wt = "/tmp/seedconfirm-%s-%d" % (sid, os.getpid())
    out = {}
    env = dict(os.environ, GOFLAGS="-mod=mod", GOPROXY="off", GOSUMDB="off", GOTOOLCHAIN="local")
    try:
        r = sh(["git", "-C", REPO, "worktree", "add", "--detach", "-q", wt, "HEAD"])
        if r.returncode:
            raise RuntimeError(r.stderr)
        os.makedirs(wt + "/out", exist_ok=True)
        for f in meta.get("demo_files", []):
            shutil.copy(os.path.join(d, f), wt + "/out/" + f)
        cmd = meta.get("demo_cmd", "")
        def demo():
            r = subprocess.run(["bash", "-c", cmd], cwd=wt, env=env, capture_output=True, text=True, timeout=900)
            out = r.stdout + r.stderr
            rc = r.returncode
            # commands that end with a clean-up step hide go test's exit status
            if rc == 0 and ("--- FAIL" in out or "\nFAIL" in out or "panic:" in out):
                rc = 1
            return rc, out[-1500:]
        out["clean_rc"], out["clean_tail"] = demo()
        r = sh(["git", "-C", wt, "apply", os.path.join(d, "patch.diff")])
        if r.returncode:
            out["error"] = "patch does not apply: " + r.stderr
        else:
            out["mutated_rc"], out["mutated_tail"] = demo()
            # remove the demo files (untracked) before running the packages' own tests
            sh(["git", "-C", wt, "clean", "-fdq", "-e", "out"])
            touched = sorted({os.path.dirname(l[6:]) for l in open(os.path.join(d, "patch.diff")) if l.startswith("+++ b/")})
            pk = ["./" + t + "/..." for t in touched]
            r = subprocess.run(["go", "test", "-count=1", "-vet=off"] + pk, cwd=wt, env=env, capture_output=True, text=True, timeout=1800)
            out["own_tests_rc"] = r.returncode
            out["own_tests_tail"] = (r.stdout + r.stderr)[-600:]
        out["confirmed"] = out.get("clean_rc") == 0 and out.get("mutated_rc", 0) != 0 and out.get("own_tests_rc") == 0
    finally:
        sh(["git", "-C", REPO, "worktree", "remove", "--force", wt])
        shutil.rmtree(wt, ignore_errors=True)
        sh(["git", "-C", REPO, "worktree", "prune"])
    meta["confirmation"] = {k: out.get(k) for k in ("clean_rc", "mutated_rc", "own_tests_rc", "confirmed", "error")}
    json.dump(meta, open(os.path.join(d, "meta.json"), "w"), indent=1)
    return out


def ids():
    base = os.path.join(ROOT, "seeded")
    return sorted(x for x in os.listdir(base) if os.path.exists(os.path.join(base, x, "meta.json")))


def main():
    a = sys.argv[1:]
    if not a:
        print(__doc__); return 2
    opt = {"--tier": "quick", "--checks": None, "--seed": None, "--jobs": "2", "--tag": ""}
    pos = []
    i = 0
    while i < len(a):
        if a[i] in opt:
            opt[a[i]] = a[i + 1]; i += 2
        else:
            pos.append(a[i]); i += 1
    checks = opt["--checks"].split(",") if opt["--checks"] else None
    if pos[0] == "run":
        r = run(pos[1], opt["--tier"], checks, opt["--seed"])
        print(json.dumps(r, indent=1))
        return 0
    if pos[0] == "import":
        for sid in importer(pos[1], opt["--tag"]):
            c = confirm(sid)
            print(sid, "confirmed" if c.get("confirmed") else "NOT CONFIRMED", {k: c.get(k) for k in ("clean_rc", "mutated_rc", "own_tests_rc", "error")})
            if not c.get("confirmed"):
                print(c.get("clean_tail", "")[-600:], "\n---\n", c.get("mutated_tail", "")[-600:], "\n---\n", c.get("own_tests_tail", ""))
        return 0
    if pos[0] == "confirm":
        print(json.dumps(confirm(pos[1]), indent=1)); return 0
    if pos[0] == "all":
        with cf.ThreadPoolExecutor(int(opt["--jobs"])) as ex:
            for r in ex.map(lambda s: run(s, opt["--tier"], checks, opt["--seed"]), ids()):
                print(r["id"], "DETECTED" if r.get("detected") else "missed", {c: (v["exit"], v["violations"]) for c, v in r["checks"].items()}, r.get("error", ""))
        return 0
    if pos[0] == "table":
        print("| seeded change | property | what it breaks | quick | thorough |")
        print("|---|---|---|---|---|")
        for s in ids():
            d = os.path.join(ROOT, "seeded", s)
            m = json.load(open(os.path.join(d, "meta.json")))
            cell = {}
            for tier in ("quick", "thorough"):
                p = os.path.join(d, "result-%s.json" % tier)
                if os.path.exists(p):
                    r = json.load(open(p))
                    cell[tier] = ("caught by " + ", ".join(c for c, v in r["checks"].items() if v["exit"] == 1 and v["violations"])) if r.get("detected") else "missed"
                else:
                    cell[tier] = "-"
            st = m.get("status", "")
            if st and cell["quick"] == "missed":
                cell["quick"] = "not caught (%s)" % st.split(":")[0].split(",")[0]
            print("| %s | %s | %s | %s | %s |" % (s, m["property"], m.get("summary", "").replace("|", "/")[:160], cell["quick"], cell["thorough"]))
        return 0
    return 2


if __name__ == "__main__":
    sys.exit(main())
