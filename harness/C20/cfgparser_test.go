package parser

// C20 harness (injected into framework/cfgparser by overlay).
//
// Sub-checks:
//   docs:      grammar-generated configuration documents plus byte-level
//              mutations -> Read must return (watchdog), must not panic, and a
//              successful result must be fully expanded, well-named, of bounded
//              depth; if its tokens are expressible, print -> Read round-trips.
//   trees:     generated trees -> canonical printer -> Read -> same tree.
//   FuzzVerifC20: the same oracle under native coverage-guided fuzzing.

import (
	"fmt"
	"os"
	"runtime/metrics"
	"strings"
	"testing"
	"time"
	"unicode"

	"pgregory.net/rapid"
	"verifkit/ev"
)

func init() {
	os.Setenv("VERIF_E1", "val")
	os.Setenv("VERIF_E2", "two words")
	os.Setenv("VERIF_E3", "")
}

type c20Node struct {
	Name     string    `json:"name"`
	Args     []string  `json:"args,omitempty"`
	Block    bool      `json:"block,omitempty"` // has a (possibly empty) block
	Children []c20Node `json:"children,omitempty"`
}

func c20FromNodes(ns []Node) []c20Node {
	out := make([]c20Node, 0, len(ns))
	for _, n := range ns {
		out = append(out, c20Node{Name: n.Name, Args: append([]string(nil), n.Args...), Block: n.Children != nil, Children: c20FromNodes(n.Children)})
	}
	return out
}

func c20Equal(a, b []c20Node) bool {
	if len(a) != len(b) {
		return false
	}
	for i := range a {
		if a[i].Name != b[i].Name || a[i].Block != b[i].Block || len(a[i].Args) != len(b[i].Args) {
			return false
		}
		for j := range a[i].Args {
			if a[i].Args[j] != b[i].Args[j] {
				return false
			}
		}
		if !c20Equal(a[i].Children, b[i].Children) {
			return false
		}
	}
	return true
}

// documented rule for directive names, re-implemented
func c20ValidName(s string) bool {
	if s == "" {
		return false
	}
	for i, ch := range s {
		if i == 0 && unicode.IsDigit(ch) {
			return false
		}
		if !unicode.IsLetter(ch) && !unicode.IsDigit(ch) && ch != '.' && ch != '-' && ch != '_' {
			return false
		}
	}
	return true
}

// expressible in the quoted syntax of the canonical printer
func c20ArgExpressible(a string) bool {
	if a == "{" || a == "}" || strings.HasSuffix(a, `\`) || strings.Contains(a, `\"`) {
		return false
	}
	if strings.Contains(a, "$(") || strings.Contains(a, "{env:") {
		return false
	}
	// the lexer reads runes: invalid UTF-8 does not survive
	return strings.ToValidUTF8(a, "") == a && !strings.ContainsRune(a, 0xFFFD) && !strings.ContainsRune(a, 0xFEFF)
}

func c20TreeExpressible(ns []c20Node) bool {
	for _, n := range ns {
		if !c20ValidName(n.Name) || n.Name == "import" {
			return false
		}
		for _, a := range n.Args {
			if !c20ArgExpressible(a) {
				return false
			}
		}
		if !c20TreeExpressible(n.Children) {
			return false
		}
	}
	return true
}

func c20Print(b *strings.Builder, ns []c20Node, indent int) {
	for _, n := range ns {
		b.WriteString(strings.Repeat("  ", indent))
		b.WriteString(n.Name)
		for _, a := range n.Args {
			b.WriteString(` "`)
			b.WriteString(strings.ReplaceAll(a, `"`, `\"`))
			b.WriteString(`"`)
		}
		if n.Block {
			b.WriteString(" {\n")
			c20Print(b, n.Children, indent+1)
			b.WriteString(strings.Repeat("  ", indent))
			b.WriteString("}")
		}
		b.WriteString("\n")
	}
}

func c20Depth(ns []Node) int {
	d := 0
	for _, n := range ns {
		if c := 1 + c20Depth(n.Children); c > d {
			d = c
		}
	}
	return d
}

type c20Result struct {
	nodes []Node
	err   error
	pan   any
	stack string
	// bytes allocated by the process while Read ran (rapid runs one case at a time)
	alloc uint64
}

func c20Allocated() uint64 {
	sample := []metrics.Sample{{Name: "/gc/heap/allocs:bytes"}}
	metrics.Read(sample)
	if sample[0].Value.Kind() != metrics.KindUint64 {
		return 0
	}
	return sample[0].Value.Uint64()
}

// c20AllocLimit: the reader declares limits of its own (64 MiB for the results of macro expansion, 1024 imports, 256
// levels); reading the heaviest input that stays within them allocates about 0.3 GiB. A few hundred bytes that make it
// allocate several GiB defeat those limits - and a few hundred more take the process down.
const c20AllocLimit = 2 << 30

const c20Watchdog = 10 * time.Second

// c20Calibrate times a fixed piece of work that has nothing to do with the
// parser: four million small appends, roughly what the heaviest legal input
// (expansions up to the total budget, about a second on an idle core) asks
// for. When the watchdog expires the allowance is stretched by how slow the
// machine is right now, so that a loaded machine is not reported as a hang.
func c20Calibrate() time.Duration {
	t0 := time.Now()
	var keep [][]string
	for i := 0; i < 64; i++ {
		var a []string
		for j := 0; j < 65536; j++ {
			a = append(a, "x")
		}
		keep = append(keep, a)
	}
	_ = keep
	return time.Since(t0)
}

// c20Read runs Read under a watchdog; ok=false means it did not return.
func c20Read(src string) (res c20Result, ok bool) {
	ch := make(chan c20Result, 1)
	go func() {
		var r c20Result
		defer func() {
			if p := recover(); p != nil {
				r.pan = p
				r.stack = ev.Stack()
			}
			ch <- r
		}()
		a0 := c20Allocated()
		defer func() { r.alloc = c20Allocated() - a0 }()
		r.nodes, r.err = Read(strings.NewReader(src), "verif.conf")
	}()
	t0 := time.Now()
	select {
	case r := <-ch:
		return r, true
	case <-time.After(c20Watchdog):
	}
	// Idle, the calibration takes about 0.1 s and the heaviest legal input
	// about 1 s: the allowance of 100 calibrations keeps the ratio of the
	// 10 s limit. Bounded by 5 minutes.
	allow := 100 * c20Calibrate()
	if allow > 5*time.Minute {
		allow = 5 * time.Minute
	}
	if rest := allow - time.Since(t0); rest > 0 {
		select {
		case r := <-ch:
			return r, true
		case <-time.After(rest):
		}
	}
	return c20Result{}, false
}

func c20CheckTree(src string, ns []Node, defined map[string]bool) (vs []ev.V) {
	var walk func(ns []Node, depth int)
	flagged := map[string]bool{}
	add := func(sig, f string, a ...any) {
		if !flagged[sig] {
			flagged[sig] = true
			vs = append(vs, ev.Vf(sig, f, a...))
		}
	}
	// A reference counts as left over only if the file has it written out below the defining line, and no macro value
	// can supply a piece of reference syntax: "$(m1) = )" and "A $(hostname$(m1)0" give "$(hostname)0", text that an
	// expansion resulted in - expansion is one pass, what it results in is not a reference that "remains".
	written := map[string]bool{}
	rest := ""
	if i := strings.IndexByte(src, '\n'); i >= 0 {
		rest = src[i+1:]
	}
	pieces := false
	for _, line := range strings.Split(src, "\n") {
		if eq := strings.Index(line, "="); eq >= 0 && strings.HasPrefix(strings.TrimSpace(line), "$(") && strings.ContainsAny(line[eq+1:], "$()") {
			pieces = true
		}
	}
	for name := range defined {
		written["$("+name+")"] = !pieces && strings.Contains(rest, "$("+name+")")
	}
	walk = func(ns []Node, depth int) {
		for _, n := range ns {
			if n.Macro {
				add("tree:macro-node", "node %q is still flagged as a macro declaration", n.Name)
			}
			if n.Snippet {
				add("tree:snippet-node", "node %q is still flagged as a snippet declaration", n.Name)
			}
			if n.Name == "import" {
				add("tree:import-left", "an import directive was left unexpanded (args %q)", n.Args)
			}
			if !c20ValidName(n.Name) {
				add("tree:bad-name", "directive name %q violates the documented rule", n.Name)
			}
			for _, a := range n.Args {
				if strings.HasPrefix(a, "$(") && strings.HasSuffix(a, ")") && defined[a[2:len(a)-1]] && written["$("+a[2:len(a)-1]+")"] {
					add("tree:macro-ref-left", "argument %q is an unexpanded reference to a macro defined earlier in the file", a)
				}
				for name := range defined {
					if strings.Contains(a, "$("+name+")") && a != "$("+name+")" && written["$("+name+")"] {
						add("tree:macro-ref-left:in-string", "argument %q still holds a reference to macro %q, which is defined in the first line of the file", a, name)
					}
				}
			}
			walk(n.Children, depth+1)
		}
	}
	walk(ns, 1)
	if !strings.Contains(src, "import") {
		if d := c20Depth(ns); d > 258 {
			add("tree:depth", "block nesting depth %d exceeds the documented limit", d)
		}
	}
	return vs
}

// c20Oracle is the whole oracle for one source text. It returns hang=true
// when Read did not return.
func c20Oracle(src string, definedBefore map[string]bool) (vs []ev.V, hang bool) {
	c20Last.parsed, c20Last.roundtripped, c20Last.rejected = false, false, false
	res, ok := c20Read(src)
	if !ok {
		return nil, true
	}
	if res.pan != nil {
		return []ev.V{{Sig: "panic:" + ev.PanicSite(res.stack), What: fmt.Sprintf("Read panicked: %v\n%s", res.pan, res.stack)}}, false
	}
	if res.alloc > c20AllocLimit {
		return []ev.V{ev.Vf("resources:"+c20HeavyShape(src), "Read allocated %d MiB for a %d-byte input (err=%v): the limits of the reader (64 MiB of expansion results, 1024 imports, 256 levels) do not bound its work, a slightly longer input of the same shape exhausts the memory",
			res.alloc>>20, len(src), res.err)}, false
	}
	if res.err != nil {
		c20Last.rejected = true
		return nil, false
	}
	c20Last.parsed = true
	vs = c20CheckTree(src, res.nodes, definedBefore)
	t := c20FromNodes(res.nodes)
	if c20TreeExpressible(t) {
		c20Last.roundtripped = len(t) > 0
		var b strings.Builder
		c20Print(&b, t, 0)
		res2, ok := c20Read(b.String())
		switch {
		case !ok:
			return vs, true
		case res2.pan != nil:
			vs = append(vs, ev.V{Sig: "panic:" + ev.PanicSite(res2.stack), What: fmt.Sprintf("Read panicked on the canonical print: %v\n%s", res2.pan, res2.stack)})
		case res2.err != nil:
			vs = append(vs, ev.Vf("roundtrip:error", "canonical print of a parsed tree does not parse: %v\n--- printed:\n%s", res2.err, b.String()))
		case !c20Equal(t, c20FromNodes(res2.nodes)):
			vs = append(vs, ev.Vf("roundtrip:differs", "print -> Read gives a different tree\n--- printed:\n%s\n--- first:  %+v\n--- second: %+v", b.String(), t, c20FromNodes(res2.nodes)))
		}
	}
	return vs, false
}

// ---- document grammar --------------------------------------------------

type c20Doc struct {
	Src ev.QS `json:"src"`
}

var (
	c20Names   = []string{"a", "b", "hostname", "tls", "deliver_to", "x.y", "k-1", "_u", "имя", "9bad", "a{", "import", "q"}
	c20Macros  = []string{"m1", "m2", "m3", "m-4", "m.5", "\u043c6", "undefined"}
	c20Snips   = []string{"s1", "s2", "s3"}
	c20BareArg = []string{"x", "off", "tcp://0.0.0.0:25", "1", "=", "a=b", "é", "&ref", "$(", ")", "{env:", "{env:VERIF_E1}", "{env:VERIF_E2}", "{env:VERIF_E3}", "{env:NOPE}",
		"pre{env:VERIF_E1}post", "\\", "z\\", "#c", "(p)", "$", "$()", "{", "}", "\"", "a\"b"}
)

type c20Gen struct {
	t   *rapid.T
	b   strings.Builder
	nid int
}

func (g *c20Gen) pick(label string, xs []string) string {
	return rapid.SampledFrom(xs).Draw(g.t, label)
}
func (g *c20Gen) n(label string, lo, hi int) int { return rapid.IntRange(lo, hi).Draw(g.t, label) }

func (g *c20Gen) arg() {
	switch g.n("argkind", 0, 9) {
	case 0, 1, 2:
		g.b.WriteString(g.pick("bare", c20BareArg))
	case 3:
		g.b.WriteString("$(" + g.pick("mref", c20Macros) + ")")
	case 4:
		g.b.WriteString("p$(" + g.pick("mref", c20Macros) + ")s")
	case 5:
		g.b.WriteString("$(" + g.pick("mref", c20Macros) + ")$(" + g.pick("mref", c20Macros) + ")")
	case 6, 7:
		q := rapid.SampledFrom([]string{"", "x y", "a\\\"b", "#not a comment", "{", "}", "line1\nline2", "tab\there", "\\", "\\\\", "$(m1)", "{env:VERIF_E2}", "é ü", "q\\n"}).Draw(g.t, "quoted")
		g.b.WriteString("\"" + q + "\"")
	case 8:
		g.b.WriteString(rapid.StringOfN(rapid.RuneFrom([]rune("ab \"\\{}#$()=\n\t.é")), 0, 6, -1).Draw(g.t, "rawarg"))
	default:
		g.b.WriteString(g.pick("name", c20Names))
	}
}

func (g *c20Gen) args() {
	for i, n := 0, g.n("nargs", 0, 3); i < n; i++ {
		g.b.WriteString(" ")
		g.arg()
		if g.n("cont", 0, 14) == 0 {
			g.b.WriteString(" \\\n   ")
		}
	}
}

func (g *c20Gen) items(depth int) {
	for i, n := 0, g.n("nitems", 0, 4); i < n; i++ {
		g.item(depth)
	}
}

func (g *c20Gen) item(depth int) {
	ind := strings.Repeat(" ", depth*2)
	switch k := g.n("item", 0, 13); {
	case k <= 3: // directive
		g.b.WriteString(ind + g.pick("name", c20Names))
		g.args()
		g.b.WriteString("\n")
	case k <= 6 && depth < 4: // block
		g.b.WriteString(ind + g.pick("name", c20Names))
		g.args()
		switch g.n("blockform", 0, 5) {
		case 0: // same-line block
			g.b.WriteString(" { " + g.pick("name", c20Names))
			g.args()
			g.b.WriteString(" }\n")
		case 1: // closing brace on the last child's line
			g.b.WriteString(" {\n")
			g.items(depth + 1)
			g.b.WriteString(ind + "  " + g.pick("name", c20Names) + " x }\n")
		case 2:
			g.b.WriteString(" { }\n")
		default:
			g.b.WriteString(" {\n")
			g.items(depth + 1)
			g.b.WriteString(ind + "}\n")
		}
	case k == 7: // macro definition
		g.b.WriteString(ind + "$(" + g.pick("mdef", c20Macros[:6]) + ") =")
		g.args()
		g.b.WriteString("\n")
	case k == 8: // snippet definition
		g.b.WriteString(ind + "(" + g.pick("sdef", c20Snips) + ") {\n")
		g.items(depth + 1)
		for i, n := 0, g.n("snipimports", 0, 2); i < n; i++ {
			g.b.WriteString(ind + "  import " + g.pick("simp", c20Snips) + "\n")
		}
		g.b.WriteString(ind + "}\n")
	case k == 9 || k == 10: // import
		g.b.WriteString(ind + "import " + rapid.SampledFrom([]string{"s1", "s2", "s3", "nosuch", "inc", "inc.conf", "s1 s2", "", "loop", "loop2.conf"}).Draw(g.t, "imp") + "\n")
	case k == 11:
		g.b.WriteString(ind + "# comment { \" $(m1)\n")
	case k == 12:
		g.b.WriteString("\n")
	default:
		g.b.WriteString(ind + g.pick("name", c20Names))
		g.args()
		g.b.WriteString("\n")
	}
}

var c20Hostile = []string{"{", "}", "\"", "\\", "\n", "#", "$(", ")", " ", "(", "=", "\r\n", "\x00", "\xff", "\ufeff", "import ", "{env:", "\\\n"}

func c20GenDoc(t *rapid.T) c20Doc {
	g := &c20Gen{t: t}
	shape := g.n("shape", 0, 19)
	if shape == 5 {
		// the three expensive shapes share one slot
		shape = []int{5, 6, 7, 20, 21, 22}[g.n("expensive_shape", 0, 5)]
	} else if shape == 6 || shape == 7 {
		shape = 8
	}
	switch shape {
	case 0: // deep nesting
		depth := rapid.SampledFrom([]int{10, 200, 254, 255, 256, 257, 258, 259, 300, 2000}).Draw(t, "depth")
		same := rapid.Bool().Draw(t, "sameline")
		for i := 0; i < depth; i++ {
			if same {
				g.b.WriteString("a { ")
			} else {
				g.b.WriteString("a {\n")
			}
		}
		g.b.WriteString("leaf\n")
		closeN := depth - rapid.IntRange(0, 1).Draw(t, "unclosed")
		for i := 0; i < closeN; i++ {
			g.b.WriteString("}\n")
		}
	case 1: // raw bytes
		g.b.WriteString(rapid.String().Draw(t, "raw"))
	case 6: // a block opened on one line, a declaration that carries the closing brace on the next, over and over
		n := rapid.SampledFrom([]int{2, 10, 300, 2000}).Draw(t, "glued_levels")
		decl := rapid.SampledFrom([]string{"(s) }", "$(m) = v }", "(s) {\n x\n} }"}).Draw(t, "glued_decl")
		for i := 0; i < n; i++ {
			g.b.WriteString("b {\n" + decl + "\n")
		}
		g.b.WriteString("leaf\n")
	case 7: // a macro with many values, legal by itself, used on many lines
		// (definition lines, uses): small trees that are allowed, and totals that no reader should materialise
		pair := rapid.SampledFrom([][2]int{{8, 1}, {8, 50}, {12, 20}, {15, 80}, {15, 400}}).Draw(t, "many_values")
		lines := pair[0]
		g.b.WriteString("$(v0) = x y\n")
		for i := 1; i <= lines; i++ {
			fmt.Fprintf(&g.b, "$(v%d) = $(v%d) $(v%d)\n", i, i-1, i-1)
		}
		for i := 0; i < pair[1]; i++ {
			fmt.Fprintf(&g.b, "d $(v%d)\n", lines)
		}
	case 20: // a big macro value used once in a snippet, the snippet multiplied by imports of imports
		for i, g0 := 1, g.b.WriteString; i <= 15; i++ {
			if i == 1 {
				g0("$(v0) = x y\n")
			}
			fmt.Fprintf(&g.b, "$(v%d) = $(v%d) $(v%d)\n", i, i-1, i-1)
		}
		g.b.WriteString("(s0) {\n d $(v15)\n}\n(s1) {\n")
		for i, n := 0, rapid.SampledFrom([]int{2, 8, 12}).Draw(t, "inner_imports"); i < n; i++ {
			g.b.WriteString(" import s0\n")
		}
		g.b.WriteString("}\n")
		for i, n := 0, rapid.SampledFrom([]int{1, 10, 14}).Draw(t, "outer_imports"); i < n; i++ {
			g.b.WriteString("import s1\n")
		}
	case 21: // a big macro value used inside many nested blocks
		for i := 1; i <= 15; i++ {
			if i == 1 {
				g.b.WriteString("$(v0) = x y\n")
			}
			fmt.Fprintf(&g.b, "$(v%d) = $(v%d) $(v%d)\n", i, i-1, i-1)
		}
		depth := rapid.SampledFrom([]int{3, 100, 200}).Draw(t, "blocks")
		g.b.WriteString(strings.Repeat("b {\n", depth))
		for i, n := 0, rapid.SampledFrom([]int{1, 20}).Draw(t, "uses"); i < n; i++ {
			g.b.WriteString("d $(v15)\n")
		}
		g.b.WriteString(strings.Repeat("}\n", depth))
	case 22: // a chain of snippets importing the next one beside many imports of a big snippet
		n := rapid.SampledFrom([]int{10, 200, 400}).Draw(t, "big_lines")
		g.b.WriteString("(big) {\n" + strings.Repeat(" a\n", n) + "}\n")
		chain := rapid.SampledFrom([]int{3, 100, 250}).Draw(t, "chain")
		for i := 0; i < chain; i++ {
			fmt.Fprintf(&g.b, "(c%d) {\n import c%d\n}\n", i, i+1)
		}
		fmt.Fprintf(&g.b, "(c%d) {\n}\n", chain)
		for i, m := 0, rapid.SampledFrom([]int{5, 700, 770}).Draw(t, "big_imports"); i < m; i++ {
			g.b.WriteString("import big\n")
		}
		g.b.WriteString("import c0\n")
	case 5: // macros defined in terms of the previous one: the value doubles with every line
		n := rapid.SampledFrom([]int{4, 8, 16, 24, 32, 40}).Draw(t, "growth_lines")
		instr := rapid.Bool().Draw(t, "growth_in_string")
		g.b.WriteString("$(g0) = x y\n")
		if instr {
			g.b.Reset()
			g.b.WriteString("$(g0) = xy\n")
		}
		for i := 1; i <= n; i++ {
			if instr {
				fmt.Fprintf(&g.b, "$(g%d) = p$(g%d)$(g%d)\n", i, i-1, i-1)
			} else {
				fmt.Fprintf(&g.b, "$(g%d) = $(g%d) $(g%d)\n", i, i-1, i-1)
			}
		}
		if rapid.Bool().Draw(t, "growth_in_block") {
			fmt.Fprintf(&g.b, "blk {\n  d $(g%d)\n}\n", n)
		} else {
			fmt.Fprintf(&g.b, "d $(g%d)\n", n)
		}
	case 4: // a macro defined in the first line and referenced in every way further down
		name := g.pick("mdef1", c20Macros[:6])
		g.b.WriteString("$(" + name + ") = " + g.pick("mval", []string{"value", "v1 v2", "\"quoted value\"", "a.b-c"}) + "\n")
		for i, n := 0, g.n("nrefs", 1, 4); i < n; i++ {
			switch g.n("refkind", 0, 4) {
			case 0:
				g.b.WriteString("d" + fmt.Sprint(i) + " $(" + name + ")\n")
			case 1:
				g.b.WriteString("d" + fmt.Sprint(i) + " pre$(" + name + ")post\n")
			case 2:
				g.b.WriteString("d" + fmt.Sprint(i) + " \"x $(" + name + ") y\"\n")
			case 3:
				g.b.WriteString("blk" + fmt.Sprint(i) + " {\n  inner /$(" + name + ")/file.pem other\n}\n")
			default:
				g.b.WriteString("d" + fmt.Sprint(i) + " user@$(" + name + ") $(" + name + ")\n")
			}
		}
		g.items(0)
	case 2, 3: // snippets importing each other, then used
		for i, n := 0, g.n("nsnips", 1, 3); i < n; i++ {
			g.b.WriteString("(" + c20Snips[i] + ") {\n")
			for j, m := 0, g.n("nsi", 0, 3); j < m; j++ {
				if g.n("inblock", 0, 2) == 0 {
					g.b.WriteString("  blk {\n    import " + g.pick("simp", c20Snips) + "\n  }\n")
				} else {
					g.b.WriteString("  import " + g.pick("simp", c20Snips) + "\n")
				}
				if g.n("filler", 0, 1) == 0 {
					g.b.WriteString("  d" + fmt.Sprint(j) + " $(m1)\n")
				}
			}
			g.b.WriteString("}\n")
		}
		g.items(0)
		for i, n := 0, g.n("nuse", 1, 2); i < n; i++ {
			if g.n("useinblock", 0, 2) == 0 {
				g.b.WriteString("use {\n  import " + g.pick("simp", c20Snips) + "\n}\n")
			} else {
				g.b.WriteString("import " + g.pick("simp", c20Snips) + "\n")
			}
		}
	default:
		g.items(0)
	}
	src := g.b.String()
	// byte-level mutations
	for i, n := 0, rapid.SampledFrom([]int{0, 0, 0, 1, 2, 3}).Draw(t, "nmut"); i < n && len(src) > 0; i++ {
		pos := rapid.IntRange(0, len(src)).Draw(t, "pos")
		switch rapid.IntRange(0, 3).Draw(t, "mut") {
		case 0:
			src = src[:pos] + rapid.SampledFrom(c20Hostile).Draw(t, "ins") + src[pos:]
		case 1:
			if pos < len(src) {
				src = src[:pos] + src[pos+1:]
			}
		case 2:
			src = src[:pos]
		default:
			end := rapid.IntRange(pos, len(src)).Draw(t, "end")
			src = src[:end] + src[pos:end] + src[end:]
		}
	}
	return c20Doc{Src: ev.QS(src)}
}

// macros that are certainly defined (a "$(m) = ..." line exists) - used only
// to decide whether a left-over "$(m)" argument is a violation: a reference is
// only required to be expanded when its definition precedes it, which the
// check approximates conservatively by "the definition is the first line".
func c20DefinedFirst(src string) map[string]bool {
	out := map[string]bool{}
	line := src
	if i := strings.IndexByte(src, '\n'); i >= 0 {
		line = src[:i]
	}
	f := strings.Fields(line)
	if len(f) >= 3 && strings.HasPrefix(f[0], "$(") && strings.HasSuffix(f[0], ")") && f[1] == "=" && !strings.ContainsAny(line, "\"\\#{}") {
		out[f[0][2:len(f[0])-1]] = true
	}
	return out
}

var c20Rec = ev.Get("C20")

func c20RunDoc(d c20Doc) []ev.V {
	src := string(d.Src)
	vs, hang := c20Oracle(src, c20DefinedFirst(src))
	if hang {
		c20Rec.Abort("docs", d, ev.V{Sig: "nontermination:" + c20HangShape(src),
			What: fmt.Sprintf("Read did not return within %v on a %d-byte input (normal: microseconds)", c20Watchdog, len(src))})
	}
	return vs
}

func c20HeavyShape(src string) string {
	switch {
	case strings.Contains(src, "import big"):
		return "import-chain-copies-the-tree-per-level"
	case strings.Contains(src, "import"):
		return "imports-multiply-expanded-macros"
	case strings.Count(src, "{") > 50:
		return "macros-expanded-again-by-every-enclosing-block"
	}
	return "other"
}

func c20HangShape(src string) string {
	if strings.Count(src, "import") >= 2 {
		return "recursive-snippet-imports"
	}
	if strings.Count(src, "$(") >= 12 {
		return "macros-defined-in-terms-of-macros"
	}
	return "other"
}

// classification of the last executed document (set by c20Oracle; rapid is
// single-threaded and ev.Run calls Info right after Run)
var c20Last struct {
	parsed, roundtripped, rejected bool
}

func c20InfoDoc(d c20Doc) ev.Info {
	s := string(d.Src)
	hasBlock := strings.Contains(s, "{")
	feat := strings.Contains(s, "$(") || strings.Contains(s, "import") || strings.Contains(s, `\"`) || strings.Contains(s, "\\\n") || strings.Contains(s, "(s")
	var cl []string
	if c20Last.parsed {
		cl = append(cl, "parses")
	}
	if c20Last.roundtripped {
		cl = append(cl, "parses+roundtrippable")
	}
	if c20Last.rejected {
		cl = append(cl, "rejected")
	}
	if strings.Contains(s, "import s") {
		cl = append(cl, "snippet-import")
	}
	if strings.Contains(s, "$(m") {
		cl = append(cl, "macro")
	}
	return ev.Info{Nontrivial: hasBlock && feat, Classes: cl, Key: s}
}

// ---- generated trees -> print -> parse ---------------------------------

type c20Tree struct {
	Nodes []c20Node `json:"nodes"`
}

var c20GoodNames = []string{"a", "b", "hostname", "deliver_to", "x.y", "k-1", "_u", "имя", "A9", "q"}

func c20GenTreeNodes(t *rapid.T, depth int) []c20Node {
	n := rapid.IntRange(0, 3).Draw(t, "n")
	out := []c20Node{}
	for i := 0; i < n; i++ {
		nd := c20Node{Name: rapid.SampledFrom(c20GoodNames).Draw(t, "name")}
		for j, na := 0, rapid.IntRange(0, 3).Draw(t, "nargs"); j < na; j++ {
			var a string
			if rapid.Bool().Draw(t, "fixed") {
				a = rapid.SampledFrom([]string{"", "x", "x y", "a\"b", "\"", "#c", " # ", "{ }", "a{", "}b", "line1\nline2", "\n", "\t", "=", "(p)", "$", "$x)", "{env", "é", " lead", "trail ", "\\n", "a\\b", "import", "\r", "\r\n"}).Draw(t, "arg")
			} else {
				a = rapid.StringOfN(rapid.RuneFrom([]rune("ab \"\\{}#$()=\n\t.é:")), 0, 8, -1).Draw(t, "arg")
			}
			if !c20ArgExpressible(a) {
				a = "x"
			}
			nd.Args = append(nd.Args, a)
		}
		if depth < 4 && rapid.IntRange(0, 2).Draw(t, "block") == 0 {
			nd.Block = true
			nd.Children = c20GenTreeNodes(t, depth+1)
		}
		out = append(out, nd)
	}
	return out
}

func c20RunTree(tr c20Tree) (vs []ev.V) {
	var b strings.Builder
	c20Print(&b, tr.Nodes, 0)
	res, ok := c20Read(b.String())
	if !ok {
		c20Rec.Abort("trees", tr, ev.V{Sig: "nontermination:printed-tree", What: "Read did not return on a canonical print"})
	}
	if res.pan != nil {
		return []ev.V{{Sig: "panic:" + ev.PanicSite(res.stack), What: fmt.Sprintf("Read panicked: %v\n%s", res.pan, res.stack)}}
	}
	if res.err != nil {
		return []ev.V{ev.Vf("roundtrip:error", "canonical print of a generated tree does not parse: %v\n--- printed:\n%s", res.err, b.String())}
	}
	if got := c20FromNodes(res.nodes); !c20Equal(tr.Nodes, got) {
		return []ev.V{ev.Vf("roundtrip:differs", "print -> Read gives a different tree\n--- printed:\n%s\n--- want: %+v\n--- got:  %+v", b.String(), tr.Nodes, got)}
	}
	return nil
}

func c20InfoTree(tr c20Tree) ev.Info {
	nt := false
	var walk func(ns []c20Node)
	walk = func(ns []c20Node) {
		for _, n := range ns {
			for _, a := range n.Args {
				if a == "" || strings.ContainsAny(a, " \"\n\t#{}\\") {
					nt = true
				}
			}
			walk(n.Children)
		}
	}
	walk(tr.Nodes)
	return ev.Info{Nontrivial: nt}
}

func TestVerifC20(t *testing.T) {
	r := c20Rec
	os.WriteFile("inc.conf", []byte("(s3) {\n from_file x\n}\n$(m3) = filemacro\ninc_directive 1\n"), 0o644)
	os.WriteFile("loop.conf", []byte("x 1\nimport loop.conf\nimport loop\n"), 0o644)
	os.WriteFile("loop2.conf", []byte("(s2) {\n import s2\n y {\n import s2\n }\n}\nimport s2\n"), 0o644)
	r.Rule("docs: documents from a grammar (directives, bare/quoted args with escapes, blocks in four layouts, continuations, comments, macro definitions and " +
		"references incl. forward/self/undefined and in-string, snippets and imports incl. self/mutual/unknown/file, {env:} placeholders with a controlled environment, " +
		"nesting of 10..2000 levels, raw rapid.String(), a big macro value multiplied by imports of imports or by nested blocks, a chain of snippets beside many imports) followed by 0-3 byte-level mutations (insert hostile token, delete, truncate, duplicate slice); " +
		"non-trivial = contains a block and a macro, snippet/import, quote escape or continuation. trees: generated trees with expressible tokens -> canonical printer -> Read; " +
		"non-trivial = some argument needs quoting. Distinct = distinct source text / tree.")
	r.Assume("termination is decided by a 10 s watchdog on inputs that normally parse in microseconds, stretched by a calibration run when the machine is loaded (DESIGN.md C20)")
	r.Assume("'without crashing' includes running out of memory: a Read that allocates more than 2 GiB (the heaviest input within the reader's own limits needs about 0.3 GiB) is reported, measured with runtime/metrics around the call")
	ev.Run(t, r, ev.Spec[c20Doc]{Name: "docs", N: r.N, Gen: c20GenDoc, Run: c20RunDoc, Info: c20InfoDoc, Journal: true})
	ev.Run(t, r, ev.Spec[c20Tree]{Name: "trees", N: r.Scale(1, 2, 100), Gen: func(t *rapid.T) c20Tree { return c20Tree{Nodes: c20GenTreeNodes(t, 0)} }, Run: c20RunTree, Info: c20InfoTree})
}

// FuzzVerifC20 runs the docs oracle under native coverage-guided fuzzing
// (thorough tier only; ./check drives it inside a wall-clock box).
func FuzzVerifC20(f *testing.F) {
	repo := os.Getenv("VERIF_REPO")
	if repo == "" {
		repo = "/repo"
	}
	for _, name := range []string{"maddy.conf", "maddy.conf.docker"} {
		if b, err := os.ReadFile(repo + "/" + name); err == nil {
			f.Add(b)
		}
	}
	for _, c := range cases { // the parser's own test inputs
		f.Add([]byte(c.cfg))
	}
	for _, s := range []string{
		"(s1) {\n import s2\n}\n(s2) {\n import s1\n}\nimport s1\n",
		"$(a) = $(b)\nd x$(a)y \"q\\\"r\" {env:VERIF_E1} \\\n  more\n",
		"a { b { c { d } } }\n", "a {\n b }\n", "\ufeffa b\n",
	} {
		f.Add([]byte(s))
	}
	os.WriteFile("inc.conf", []byte("(s3) {\n from_file x\n}\n$(m3) = filemacro\ninc_directive 1\n"), 0o644)
	f.Fuzz(func(t *testing.T, data []byte) {
		if len(data) > 4096 {
			t.Skip()
		}
		// never let the fuzzer read devices or wander over the file system
		if strings.Contains(string(data), "/") && strings.Contains(string(data), "import") {
			t.Skip()
		}
		src := string(data)
		vs, hang := c20Oracle(src, c20DefinedFirst(src))
		if hang {
			vs = append(vs, ev.V{Sig: "nontermination:" + c20HangShape(src), What: fmt.Sprintf("Read did not return within %v on a %d-byte input", c20Watchdog, len(src))})
		}
		if ev.FuzzReport("C20", "docs", c20Doc{Src: ev.QS(src)}, vs) {
			t.Fatalf("C20 violated: [%s] %s", vs[0].Sig, vs[0].What)
		}
	})
}
