package pool

// C19 harness (injected into internal/smtpconn/pool by overlay): pool.go is
// rewritten by verifkit/cmd/instr so that verifkit/vsched owns its lock,
// channel, timer and go operations; scenarios run in a synctest bubble and all
// schedules with at most two deviations are enumerated (capped).

import (
	"context"
	"fmt"
	"math"
	"strings"
	"sync"
	"testing"
	"testing/synctest"
	"time"

	"pgregory.net/rapid"
	"verifkit/ev"
	"verifkit/vsched"
)

type c19Op struct {
	Op      string `json:"op"` // cycle cleanup sleep
	Key     int    `json:"key,omitempty"`
	HoldSec int    `json:"hold_sec,omitempty"`
	Close   bool   `json:"close_instead_of_return,omitempty"`
	Sec     int    `json:"sec,omitempty"`
}

type c19Scenario struct {
	MaxConnsPerKey int                `json:"max_conns_per_key"`
	LifetimeSec    int                `json:"max_conn_lifetime_sec"`
	StaleSec       int                `json:"stale_key_lifetime_sec"`
	MaxKeys        int                `json:"max_keys"`
	Workers        [][]c19Op          `json:"workers"`
	CloseAfterSec  int                `json:"close_after_sec"`
	Schedule       []vsched.Deviation `json:"schedule,omitempty"`
	Explore        int                `json:"explore_deviations"`
	MaxSchedules   int                `json:"max_schedules"`
}

func c19Gen(t *rapid.T) c19Scenario {
	sc := c19Scenario{
		MaxConnsPerKey: rapid.SampledFrom([]int{1, 1, 1, 2, 2, 2, 0, -1, 1 << 50, math.MaxInt}).Draw(t, "max_conns"), // 0: nothing is kept; -1 and the huge ones: values that cannot be meant (conn_max_idle_count is not range-checked)
		LifetimeSec:    rapid.SampledFrom([]int{2, 2, 5, 30}).Draw(t, "lifetime"),
		StaleSec:       rapid.SampledFrom([]int{2, 5, 30}).Draw(t, "stale"),
		MaxKeys:        rapid.IntRange(1, 2).Draw(t, "max_keys"),
		CloseAfterSec:  rapid.SampledFrom([]int{0, 1, 3, 10, 70, 200}).Draw(t, "close_after"),
		Explore:        2, MaxSchedules: 1200,
	}
	nw := rapid.IntRange(2, 8).Draw(t, "workers")
	nkeys := rapid.SampledFrom([]int{1, 1, 1, 2, 3}).Draw(t, "keys")
	for w := 0; w < nw; w++ {
		var ops []c19Op
		for i, n := 0, rapid.IntRange(1, 3).Draw(t, "nops"); i < n; i++ {
			switch rapid.IntRange(0, 7).Draw(t, "op") {
			case 0:
				ops = append(ops, c19Op{Op: "cleanup"})
			case 1:
				ops = append(ops, c19Op{Op: "sleep", Sec: rapid.SampledFrom([]int{1, 3, 6, 61}).Draw(t, "sleep")})
			default:
				ops = append(ops, c19Op{Op: "cycle", Key: rapid.IntRange(0, nkeys-1).Draw(t, "key"), HoldSec: rapid.SampledFrom([]int{0, 0, 1, 3, 6}).Draw(t, "hold"),
					Close: rapid.IntRange(0, 5).Draw(t, "close") == 0})
			}
		}
		sc.Workers = append(sc.Workers, ops)
	}
	return sc
}

// ---- instrumented connection ------------------------------------------------------------------------

type c19World struct {
	mu       sync.Mutex
	t0       time.Time
	conns    []*c19Conn
	problems []ev.V
	poolShut time.Duration // when pool.Close returned (-1: not yet)
	shutFrom time.Duration // when pool.Close was called (-1: not yet)
	lifetime time.Duration
}

type c19Conn struct {
	w            *c19World
	id           int
	key          string
	owner        string // "" = in the pool (or lost)
	closed       int
	lastUse      time.Time
	returnedLive bool // returned to the pool before shutdown began
	everReturned bool
}

func (c *c19Conn) Usable() bool {
	c.w.mu.Lock()
	defer c.w.mu.Unlock()
	return c.closed == 0
}

func (c *c19Conn) LastUseAt() time.Time {
	c.w.mu.Lock()
	defer c.w.mu.Unlock()
	return c.lastUse
}

func (c *c19Conn) Close() error {
	vsched.Yield("conn.Close")
	c.w.mu.Lock()
	defer c.w.mu.Unlock()
	c.closed++
	if c.closed > 1 {
		c.w.problems = append(c.w.problems, ev.Vf("conn:closed-twice", "connection #%d (key %s) closed %d times", c.id, c.key, c.closed))
	}
	return nil
}

func (w *c19World) problem(v ev.V) {
	w.problems = append(w.problems, v)
}

func c19RunOnce(sc c19Scenario, schedule []vsched.Deviation) (res vsched.Result, w *c19World) {
	w = &c19World{poolShut: -1, shutFrom: -1, lifetime: time.Duration(sc.LifetimeSec) * time.Second}
	synctest.Test(c19T, func(t *testing.T) {
		vsched.WaitIdle = synctest.Wait
		w.t0 = time.Now()
		res = vsched.Run(schedule, 48*time.Hour, func(s *vsched.S) {
			p := New(Config{
				New: func(ctx context.Context, key string) (Conn, error) {
					w.mu.Lock()
					defer w.mu.Unlock()
					c := &c19Conn{w: w, id: len(w.conns), key: key, lastUse: time.Now()}
					w.conns = append(w.conns, c)
					return c, nil
				},
				MaxKeys: sc.MaxKeys, MaxConnsPerKey: sc.MaxConnsPerKey,
				MaxConnLifetimeSec: int64(sc.LifetimeSec), StaleKeyLifetimeSec: int64(sc.StaleSec),
			})
			for wi, ops := range sc.Workers {
				ops := ops
				name := fmt.Sprintf("worker%d", wi)
				s.Go(name, func() {
					ctx := context.Background()
					for _, op := range ops {
						switch op.Op {
						case "sleep":
							time.Sleep(time.Duration(op.Sec) * time.Second)
						case "cleanup":
							p.CleanUp(ctx)
						default:
							key := fmt.Sprintf("k%d", op.Key)
							ci, err := p.Get(ctx, key)
							if err != nil || ci == nil {
								w.mu.Lock()
								w.problem(ev.Vf("pool:get-failed", "Get(%s) returned %v, %v", key, ci, err))
								w.mu.Unlock()
								continue
							}
							c := ci.(*c19Conn)
							now := time.Now()
							w.mu.Lock()
							pooled := c.everReturned
							if c.owner != "" {
								w.problem(ev.Vf("conn:two-owners", "connection #%d handed to %s while %s still uses it", c.id, name, c.owner))
							}
							if c.closed > 0 {
								w.problem(ev.Vf("conn:handed-out-after-close", "connection #%d handed to %s after it was closed", c.id, name))
							}
							if pooled && c.lastUse.Add(w.lifetime).Before(now) {
								w.problem(ev.Vf("conn:handed-out-after-lifetime", "connection #%d last used at +%v handed to %s at +%v, idle lifetime is %v", c.id, c.lastUse.Sub(w.t0), name, now.Sub(w.t0), w.lifetime))
							}
							if pooled && w.poolShut >= 0 {
								w.problem(ev.Vf("conn:handed-out-after-shutdown", "pooled connection #%d handed to %s at +%v, the pool was shut down at +%v", c.id, name, now.Sub(w.t0), w.poolShut))
							}
							if c.key != key {
								w.problem(ev.Vf("conn:wrong-key", "connection #%d of key %s handed out for key %s", c.id, c.key, key))
							}
							c.owner = name
							c.lastUse = now // the delivery talks to the server right away, then may sit on the connection
							w.mu.Unlock()
							if op.HoldSec > 0 {
								time.Sleep(time.Duration(op.HoldSec) * time.Second)
							}
							vsched.Yield("worker:use")
							if op.Close {
								w.mu.Lock()
								c.owner = ""
								w.mu.Unlock()
								c.Close()
								continue
							}
							w.mu.Lock()
							c.owner = ""
							c.everReturned = true
							w.mu.Unlock()
							p.Return(key, c)
							// "returned to a live pool": Return completed before shutdown began
							w.mu.Lock()
							c.returnedLive = w.shutFrom < 0
							w.mu.Unlock()
						}
					}
				})
			}
			s.Go("closer", func() {
				if sc.CloseAfterSec > 0 {
					time.Sleep(time.Duration(sc.CloseAfterSec) * time.Second)
				}
				w.mu.Lock()
				w.shutFrom = time.Since(w.t0)
				w.mu.Unlock()
				p.Close()
				w.mu.Lock()
				w.poolShut = time.Since(w.t0)
				w.mu.Unlock()
			})
		})
	})
	return res, w
}

var c19T *testing.T

func c19Check(sc c19Scenario, res vsched.Result, w *c19World) (vs []ev.V) {
	for _, p := range res.Panics {
		who := "worker"
		if strings.Contains(p.Goroutine, "closer") {
			who = "Close"
		} else if strings.Contains(p.Goroutine, "pool.go") {
			who = "pool-goroutine"
		}
		cls := "other"
		for _, k := range []string{"send on closed channel", "close of closed channel", "close of nil channel", "nil map", "nil pointer"} {
			if strings.Contains(p.Value, k) {
				cls = strings.ReplaceAll(k, " ", "-")
			}
		}
		vs = append(vs, ev.Vf("pool:panic:"+who+":"+cls, "%s panicked: %s\n%.500s\ntrace: %s", p.Goroutine, p.Value, p.Stack, c19Trace(res)))
	}
	if res.Hang {
		return append(vs, ev.Vf("pool:hang", "goroutines still alive after 48 h of virtual time: %v\ntrace: %s", res.Stuck, c19Trace(res)))
	}
	w.mu.Lock()
	defer w.mu.Unlock()
	for _, p := range w.problems {
		p.What += "\ntrace: " + c19Trace(res)
		vs = append(vs, p)
	}
	if w.poolShut < 0 && len(res.Panics) == 0 {
		vs = append(vs, ev.Vf("pool:close-did-not-return", "Close did not return; trace %s", c19Trace(res)))
	}
	if len(res.Panics) > 0 {
		return vs
	}
	for _, c := range w.conns {
		if c.owner != "" {
			vs = append(vs, ev.Vf("harness:still-owned", "connection #%d still owned by %s at the end", c.id, c.owner))
		}
		if c.returnedLive && c.closed != 1 {
			vs = append(vs, ev.Vf("conn:leaked", "connection #%d (key %s) was returned to the live pool, is not in use and was closed %d times; pool shut down at +%v\ntrace: %s", c.id, c.key, c.closed, w.poolShut, c19Trace(res)))
		}
	}
	return vs
}

func c19Trace(res vsched.Result) string {
	var parts []string
	for _, st := range res.Trace {
		m := ""
		if st.Deviate {
			m = "*"
		}
		parts = append(parts, fmt.Sprintf("%d%s:%s@%s", st.N, m, st.Chosen, st.Point))
	}
	if len(parts) > 90 {
		parts = append(parts[:45], append([]string{"..."}, parts[len(parts)-45:]...)...)
	}
	return strings.Join(parts, " ")
}

var c19Rec = ev.Get("C19")

func c19Explore(sc c19Scenario) (vs []ev.V) {
	run := func(schedule []vsched.Deviation) (vsched.Result, []ev.V) {
		res, w := c19RunOnce(sc, schedule)
		found := c19Check(sc, res, w)
		if res.Hang {
			cc := sc
			cc.Schedule, cc.Explore = schedule, 0
			c19Rec.Abort("scenarios", cc, found[len(found)-1])
		}
		return res, found
	}
	if sc.Explore == 0 {
		_, vs := run(sc.Schedule)
		return vs
	}
	key := fmt.Sprintf("%+v", sc)
	runs, skipped, flaky := 0, int64(0), int64(0)
	stride := 1
	seen := map[string]bool{}
	var rec func(schedule []vsched.Deviation, from, left int) bool
	rec = func(schedule []vsched.Deviation, from, left int) bool {
		runs++
		res, found := run(schedule)
		effective := res.Effective == len(schedule)
		contested := false
		for _, st := range res.Trace {
			if st.Deviate && st.Enabled >= 2 {
				contested = true
			}
		}
		c19Rec.Count("schedules", nil, ev.Info{Key: fmt.Sprintf("%s|%v", key, schedule), Nontrivial: effective && contested && len(schedule) > 0,
			Classes: []string{fmt.Sprintf("deviations=%d", len(schedule))}})
		if len(found) > 0 {
			_, again := run(schedule)
			if len(again) == 0 || again[0].Sig != found[0].Sig {
				flaky++
			} else {
				for _, v := range found {
					if !seen[v.Sig] {
						seen[v.Sig] = true
						v.What = fmt.Sprintf("schedule %v: %s", schedule, v.What)
						cc := sc
						cc.Schedule, cc.Explore = append([]vsched.Deviation(nil), schedule...), 0
						v.Case = cc
						vs = append(vs, v)
					}
				}
			}
		}
		if left == 0 || !effective {
			return true
		}
		if len(schedule) == 0 && sc.MaxSchedules > 0 {
			pts := 0
			for _, st := range res.Trace {
				if st.Enabled >= 2 {
					pts += st.Enabled - 1
				}
			}
			if est := pts * pts / 2; est > sc.MaxSchedules {
				stride = est/sc.MaxSchedules + 1
			}
		}
		idx := 0
		for _, st := range res.Trace {
			if st.N < from || st.Enabled < 2 {
				continue
			}
			for alt := 0; alt < st.Enabled-1; alt++ {
				idx++
				if len(schedule) >= 1 && stride > 1 && (idx+schedule[0].Step)%stride != 0 {
					skipped++
					continue
				}
				next := append(append([]vsched.Deviation(nil), schedule...), vsched.Deviation{Step: st.N, Alt: alt})
				if !rec(next, st.N+1, left-1) || len(vs) >= 3 {
					return false
				}
			}
		}
		return true
	}
	rec(nil, 0, sc.Explore)
	c19Rec.AddExtra("schedules_skipped_by_cap", skipped)
	c19Rec.AddExtra("schedules_not_reproduced", flaky)
	return vs
}

func TestVerifC19(t *testing.T) {
	c19T = t
	r := c19Rec
	r.Rule("Scenario = pool with MaxConnsPerKey 1-2 (and 0, -1, 2^50, MaxInt: the directive is not range-checked), idle lifetime and stale-key lifetime in {2,5,30} s, MaxKeys 1-2; 2-8 workers each doing 1-3 operations from {get/hold 0-6 s/return or close, CleanUp sweep, " +
		"sleep 1-61 s} on 1-3 keys; one Close after 0-200 s; the pool's own minute ticker runs on the virtual clock. pool.go is rewritten so that verifkit/vsched owns its mutex, channel, timer and go " +
		"operations; for every scenario all schedules with at most 2 deviations from the default scheduler are enumerated up to a cap (beyond it two-deviation schedules are thinned with a fixed stride). " +
		"Oracle (instrumented connections): at most one owner; never handed out after Close of the connection, after LastUseAt+lifetime, or after the pool was shut down; nothing closed twice; every " +
		"connection returned before shutdown began is closed exactly once by the end; no panic; everything terminates within 48 h of virtual time. Each (scenario, schedule) is one evaluation; " +
		"non-trivial = all deviations took effect at a step with >= 2 enabled goroutines.")
	r.Assume("pre-emption only at synchronisation operations (delay bound 2); select's random choice is not controlled - failures must reproduce from their schedule")
	ev.Run(t, r, ev.Spec[c19Scenario]{Name: "scenarios", N: r.N, Gen: c19Gen, Run: c19Explore, Journal: true,
		Info: func(sc c19Scenario) ev.Info {
			return ev.Info{Nontrivial: true, Classes: []string{fmt.Sprintf("workers=%d", len(sc.Workers))}}
		}})
}
