package address

// C17 harness (injected into framework/address by overlay).
//
// Sub-checks:
//   any:      arbitrary strings over a hostile alphabet - crash freedom, the
//             IsASCII specification, Equal <=> equal lookup keys, equivalence
//             laws on related triples, quote/unquote round trip.
//   variants: valid addresses built from (U-label, A-label) pairs and spelling
//             variants - one key per base identity, distinct keys for distinct
//             identities, idempotence of ForLookup / CleanDomain, CleanDomain
//             result known by construction, Split/join and ToASCII/ToUnicode
//             round trips.

import (
	"fmt"
	"strings"
	"testing"
	"unicode"
	"unicode/utf8"

	"golang.org/x/net/idna"
	"golang.org/x/text/unicode/norm"
	"pgregory.net/rapid"
	"verifkit/ev"
)

var c17Tokens = []string{
	"a", "b", "Z", "k", "K", "i", "I", "s", "S", "0", "9", "-", "_", "+", ".", "..", "@", "@@",
	"\"", "\\", " ", "(", ")", "<", ">", ",", ";", ":", "[", "]", "!", "#",
	"\u0301", "\u0307", "\u030c", "\u0308", // combining marks
	"I", "i", "\u00c5", "\u212b", "\u01c4", "\u01c5", "\u1e0b\u0323", "\u0323",
	"\u0130", "\u0131", "\u00df", "\u1e9e", "\u03c2", "\u03c3", "\u03a3", "\u212a", "\u2126", "\u01f0", "J", "j",
	"\uff21", "\uff41", "\uff20", "\uff0e", "\u3002", // fullwidth forms, ideographic full stop
	"\u007f", "\u0080", "\u0081", "\u00ff", "\u0100", "\ufffd", "\U0001f600", "\u00e9", "e\u0301", "\u00fc", "u\u0308",
	"\xff", "\xc3", "\xe2\x82", "\x00", "\n", "\r\n", "\t",
	"xn--e1aybc", "XN--E1AYBC", "Xn--e1aybc", "xn--", "xn--a", "xn--bcher-kva", "xn--80akhbyknj4f",
	"\u0442\u0435\u0441\u0442", "\u0422\u0415\u0421\u0422", "example", "EXAMPLE", "org", "postmaster", "POSTMASTER", "PostMaster",
}

type c17Any struct {
	A, B, C ev.QS
}

func c17GenString(t *rapid.T, label string) string {
	if rapid.IntRange(0, 9).Draw(t, label+"_kind") == 0 {
		return rapid.String().Draw(t, label+"_raw")
	}
	toks := rapid.SliceOfN(rapid.SampledFrom(c17Tokens), 0, 8).Draw(t, label)
	return strings.Join(toks, "")
}

// c17Mutate derives a string related to s (so that Equal has a chance to be true).
func c17Mutate(t *rapid.T, s string, label string) string {
	switch rapid.IntRange(0, 7).Draw(t, label+"_mut") {
	case 0:
		return strings.ToUpper(s)
	case 1:
		return strings.ToLower(s)
	case 2:
		return norm.NFD.String(s)
	case 3:
		return norm.NFC.String(s)
	case 4:
		if i := strings.LastIndexByte(s, '@'); i >= 0 {
			if a, err := idna.ToASCII(s[i+1:]); err == nil {
				return s[:i+1] + a
			}
		}
		return s
	case 5:
		if i := strings.LastIndexByte(s, '@'); i >= 0 {
			if u, err := idna.ToUnicode(s[i+1:]); err == nil {
				return s[:i+1] + u
			}
		}
		return s
	case 6:
		return s
	default:
		return c17GenString(t, label+"_fresh")
	}
}

func c17GenAny(t *rapid.T) c17Any {
	a := c17GenString(t, "a")
	return c17Any{A: ev.QS(a), B: ev.QS(c17Mutate(t, a, "b")), C: ev.QS(c17Mutate(t, a, "c"))}
}

func c17AllBelow80(s string) bool {
	for i := 0; i < len(s); i++ {
		if s[i] >= 0x80 {
			return false
		}
	}
	return true
}

func c17Key(s string) string { k, _ := ForLookup(s); return k }

func c17RunAny(in c17Any) (vs []ev.V) {
	sc := struct{ A, B, C string }{string(in.A), string(in.B), string(in.C)}
	strs := []string{sc.A, sc.B, sc.C}
	for _, s := range strs {
		// crash freedom of the whole API on every string
		ForLookup(s)
		CleanDomain(s)
		Split(s)
		UnquoteMbox(s)
		QuoteMbox(s)
		ToASCII(s)
		ToUnicode(s)
		Valid(s)
		ValidMailboxName(s)
		ValidDomain(s)
		PRECISFold(s)
		PRECIS(s)
		FQDNDomain(s)
		if got, want := IsASCII(s), c17AllBelow80(s); got != want {
			sig := "IsASCII:other"
			if strings.ContainsRune(s, 0x80) && c17AllBelow80(strings.ReplaceAll(s, "\u0080", "")) {
				sig = "IsASCII:U+0080"
			}
			vs = append(vs, ev.Vf(sig, "IsASCII(%q) = %v, but all-characters-below-U+0080 is %v", s, got, want))
		}
		if !Equal(s, s) {
			vs = append(vs, ev.Vf("Equal:irreflexive", "Equal(%q, %q) = false", s, s))
		}
	}
	for i := range strs {
		for j := range strs {
			if i == j {
				continue
			}
			x, y := strs[i], strs[j]
			eq := Equal(x, y)
			if eq != (c17Key(x) == c17Key(y)) {
				vs = append(vs, ev.Vf("Equal:not-key-equality", "Equal(%q, %q) = %v but lookup keys are %q and %q", x, y, eq, c17Key(x), c17Key(y)))
			}
			if eq != Equal(y, x) {
				vs = append(vs, ev.Vf("Equal:asymmetric", "Equal(%q, %q) = %v but the converse is %v", x, y, eq, !eq))
			}
		}
	}
	if Equal(sc.A, sc.B) && Equal(sc.B, sc.C) && !Equal(sc.A, sc.C) {
		vs = append(vs, ev.Vf("Equal:intransitive", "Equal(%q,%q) and Equal(%q,%q) but not Equal(%q,%q)", sc.A, sc.B, sc.B, sc.C, sc.A, sc.C))
	}
	if Equal(sc.B, sc.A) && Equal(sc.A, sc.C) && !Equal(sc.B, sc.C) {
		vs = append(vs, ev.Vf("Equal:intransitive", "Equal(%q,%q) and Equal(%q,%q) but not Equal(%q,%q)", sc.B, sc.A, sc.A, sc.C, sc.B, sc.C))
	}
	// quote/unquote round trip for local parts without control characters
	for _, s := range strs {
		if s == "" || !utf8.ValidString(s) || strings.IndexFunc(s, func(r rune) bool { return r < ' ' || r == 0x7f }) >= 0 {
			continue
		}
		q := QuoteMbox(s)
		u, err := UnquoteMbox(q)
		if err != nil || u != s {
			vs = append(vs, ev.Vf("Quote:roundtrip", "UnquoteMbox(QuoteMbox(%q) = %q) = %q, %v", s, q, u, err))
		}
		if !ValidMailboxName(q) {
			// not asserted: ValidMailboxName of a quoted form is a separate question
			_ = q
		}
	}
	return vs
}

func c17InfoAny(in c17Any) ev.Info {
	sc := struct{ A, B, C string }{string(in.A), string(in.B), string(in.C)}
	nt := false
	var cl []string
	for _, s := range []string{sc.A, sc.B, sc.C} {
		if !c17AllBelow80(s) {
			nt = true
		}
		if strings.ContainsAny(s, "\"\\") || strings.Contains(strings.ToLower(s), "xn--") || strings.ContainsAny(s, "\u007f\u0080") {
			nt = true
		}
	}
	if sc.A != sc.B && Equal(sc.A, sc.B) {
		cl = append(cl, "equal-but-different-spelling")
	}
	if strings.Contains(sc.A, "@") {
		cl = append(cl, "has-at")
	}
	if !utf8.ValidString(sc.A) {
		cl = append(cl, "invalid-utf8")
	}
	return ev.Info{Nontrivial: nt, Classes: cl, Key: sc.A + "\x00" + sc.B + "\x00" + sc.C}
}

// ---- valid addresses -------------------------------------------------

// U-labels (NFC, lower case). The A-label is computed with x/net/idna at
// start-up (trusted for *constructing* inputs) and checked to decode back.
var c17ULabels = []string{
	"\u0442\u0435\u0441\u0442",             // test (Cyrillic)
	"b\u00fccher",                          // buecher
	"stra\u00dfe",                          // strasse with sharp s (PVALID in IDNA2008)
	"\u03b5\u03bb\u03bb\u03ac\u03b4\u03b1", // ellada
	"\u4f8b\u3048",                         // CJK + hiragana
	"caf\u00e9",
	"\u0439\u043e\u0433", // short i decomposes under NFD
	"\u03b1\u0390\u03b1", // U+0390 has no precomposed capital: its upper-case spelling is U+03AA U+0301
	"i\u0307stanbul",       // dotted i: its upper-case spelling I U+0307 is U+0130 in NFC
	"example", "mail", "sub-1", "a", "org", "com", "x1",
}

type c17Label struct{ U, A string }

var c17Labels []c17Label

func init() {
	for _, u := range c17ULabels {
		a, err := idna.ToASCII(u)
		if err != nil {
			panic(err)
		}
		back, err := idna.ToUnicode(a)
		if err != nil || back != u || norm.NFC.String(u) != u || strings.ToLower(u) != u {
			panic("bad label table entry " + u)
		}
		c17Labels = append(c17Labels, c17Label{U: u, A: a})
	}
}

// simple, round-tripping upper-casing of one rune ('ß', 'ς', 'ı' ... are left alone)
func c17Upper(r rune) rune {
	u := unicode.ToUpper(r)
	if u != r && unicode.ToLower(u) == r && len(norm.NFC.String(string(u))) > 0 &&
		strings.ToLower(norm.NFC.String(string(u))) == string(r) {
		return u
	}
	return r
}

// the upper-case spelling as strings.ToUpper gives it for decomposed text, composed again (differs from the
// rune-wise form 2 for letters without a precomposed capital); only when lower-casing leads back to the label
func c17UpperOfDecomposed(u string) string {
	up := norm.NFC.String(strings.ToUpper(norm.NFD.String(u)))
	// (lower-casing the decomposed capital spelling leads back: I U+0307 -> i U+0307, although
	// strings.ToLower of the composed U+0130 alone is a plain i)
	if norm.NFC.String(strings.ToLower(norm.NFD.String(up))) != u {
		return u
	}
	return up
}

type c17LabelSpelling struct {
	Idx  int `json:"idx"`  // index into the label table
	Form int `json:"form"` // 0 U/NFC 1 U/NFD 2 U/upper 3 A/lower 4 A/upper 5 A/"Xn--" mixed
}

func (s c17LabelSpelling) String() string {
	l := c17Labels[s.Idx]
	switch s.Form {
	case 0:
		return l.U
	case 1:
		return norm.NFD.String(l.U)
	case 2:
		return strings.Map(c17Upper, l.U)
	case 3:
		return l.A
	case 4:
		return strings.ToUpper(l.A)
	case 6:
		return c17UpperOfDecomposed(l.U)
	default:
		if strings.HasPrefix(l.A, "xn--") {
			return "Xn--" + l.A[4:]
		}
		return strings.ToUpper(l.A[:1]) + l.A[1:]
	}
}

// local-part atoms: each is NFC, lower case and stable under upper/lower/NFD round trips
var c17LocalAtoms = []string{
	"a", "b", "user", "x", "z9", "o", "\u00e9", "\u00fc", "\u0439", "\u0442\u0435\u0441\u0442", "\u03b1\u03c3",
	"\u4f8b", "+", "-", "_", ".", "=", "'", "\u0080", // U+0080: the first character that is not ASCII
}

type c17LocalSpelling struct {
	Atoms []int `json:"atoms"`
	Form  int   `json:"form"` // 0 canonical 1 NFD 2 upper 3 upper+NFD 4 alternate case
}

func (s c17LocalSpelling) base() string {
	var b strings.Builder
	for _, i := range s.Atoms {
		b.WriteString(c17LocalAtoms[i])
	}
	return b.String()
}

func (s c17LocalSpelling) String() string {
	b := s.base()
	switch s.Form {
	case 0:
		return b
	case 1:
		return norm.NFD.String(b)
	case 2:
		return strings.Map(c17Upper, b)
	case 3:
		return norm.NFD.String(strings.Map(c17Upper, b))
	default:
		i := 0
		return strings.Map(func(r rune) rune {
			i++
			if i%2 == 0 {
				return c17Upper(r)
			}
			return r
		}, b)
	}
}

type c17Addr struct {
	Local  c17LocalSpelling   `json:"local"`
	Labels []c17LabelSpelling `json:"labels"`
}

func (a c17Addr) String() string {
	ls := make([]string, len(a.Labels))
	for i, l := range a.Labels {
		ls[i] = l.String()
	}
	return a.Local.String() + "@" + strings.Join(ls, ".")
}

// canonical forms known by construction
func (a c17Addr) uDomain() string {
	ls := make([]string, len(a.Labels))
	for i, l := range a.Labels {
		ls[i] = c17Labels[l.Idx].U
	}
	return strings.Join(ls, ".")
}
func (a c17Addr) aDomain() string {
	ls := make([]string, len(a.Labels))
	for i, l := range a.Labels {
		ls[i] = c17Labels[l.Idx].A
	}
	return strings.Join(ls, ".")
}
func (a c17Addr) identity() string { return a.Local.base() + "@" + a.uDomain() }

type c17Variants struct {
	// Addrs[0..k] are spellings; Same[i] says whether Addrs[i] was built as a
	// re-spelling of Addrs[0] (same base identity by construction).
	Addrs []c17Addr `json:"addrs"`
}

func c17GenLocal(t *rapid.T, label string) []int {
	for {
		atoms := rapid.SliceOfN(rapid.IntRange(0, len(c17LocalAtoms)-1), 1, 4).Draw(t, label)
		s := c17LocalSpelling{Atoms: atoms}.base()
		// dot-atom: no leading/trailing/double dots; not the bare word postmaster
		if strings.HasPrefix(s, ".") || strings.HasSuffix(s, ".") || strings.Contains(s, "..") {
			atoms = append([]int{0}, append(atoms, 1)...)
			s = c17LocalSpelling{Atoms: atoms}.base()
			if strings.Contains(s, "..") {
				continue
			}
		}
		return atoms
	}
}

func c17GenVariants(t *rapid.T) c17Variants {
	nl := rapid.IntRange(1, 3).Draw(t, "nlabels")
	base := c17Addr{Local: c17LocalSpelling{Atoms: c17GenLocal(t, "local")}}
	for i := 0; i < nl; i++ {
		base.Labels = append(base.Labels, c17LabelSpelling{Idx: rapid.IntRange(0, len(c17Labels)-1).Draw(t, "label")})
	}
	out := c17Variants{}
	n := rapid.IntRange(2, 4).Draw(t, "nvariants")
	for v := 0; v < n; v++ {
		a := c17Addr{Local: c17LocalSpelling{Atoms: base.Local.Atoms}}
		if rapid.IntRange(0, 5).Draw(t, "other") == 0 && v > 0 {
			// a different identity: change one label or the local part
			if rapid.Bool().Draw(t, "otherlocal") {
				a.Local.Atoms = c17GenLocal(t, "local2")
			}
			for i := range base.Labels {
				a.Labels = append(a.Labels, c17LabelSpelling{Idx: base.Labels[i].Idx})
			}
			k := rapid.IntRange(0, nl-1).Draw(t, "chg")
			a.Labels[k].Idx = rapid.IntRange(0, len(c17Labels)-1).Draw(t, "label2")
		} else {
			for i := range base.Labels {
				a.Labels = append(a.Labels, c17LabelSpelling{Idx: base.Labels[i].Idx})
			}
		}
		a.Local.Form = rapid.IntRange(0, 4).Draw(t, "lform")
		for i := range a.Labels {
			a.Labels[i].Form = rapid.IntRange(0, 6).Draw(t, "dform")
		}
		out.Addrs = append(out.Addrs, a)
	}
	return out
}

func c17SigForms(a c17Addr) string {
	// name the spelling feature involved, for signatures
	for _, l := range a.Labels {
		if (l.Form == 4 || l.Form == 5) && strings.HasPrefix(c17Labels[l.Idx].A, "xn--") {
			return "uppercase-ACE-prefix"
		}
	}
	return "other"
}

func c17RunVariants(sc c17Variants) (vs []ev.V) {
	for _, a := range sc.Addrs {
		s := a.String()
		k, err := ForLookup(s)
		if err != nil {
			vs = append(vs, ev.Vf("ForLookup:error:"+c17SigForms(a), "ForLookup(%q) fails: %v", s, err))
			continue
		}
		if k2, err := ForLookup(k); err != nil || k2 != k {
			vs = append(vs, ev.Vf("ForLookup:not-idempotent:"+c17SigForms(a), "ForLookup(%q) = %q but ForLookup of that = %q, %v", s, k, k2, err))
		}
		if want := a.identity(); k != want {
			vs = append(vs, ev.Vf("ForLookup:variant-key:"+c17SigForms(a), "ForLookup(%q) = %q, canonical spelling of the same address has key %q", s, k, want))
		}
		c, err := CleanDomain(s)
		if err != nil {
			vs = append(vs, ev.Vf("CleanDomain:error:"+c17SigForms(a), "CleanDomain(%q) fails: %v", s, err))
		} else {
			if want := a.Local.String() + "@" + a.uDomain(); c != want {
				vs = append(vs, ev.Vf("CleanDomain:variant:"+c17SigForms(a), "CleanDomain(%q) = %q, want %q", s, c, want))
			}
			if c2, err := CleanDomain(c); err != nil || c2 != c {
				vs = append(vs, ev.Vf("CleanDomain:not-idempotent:"+c17SigForms(a), "CleanDomain(%q) = %q, again = %q, %v", s, c, c2, err))
			}
		}
		// split / join
		mbox, dom, err := Split(s)
		if err != nil || mbox+"@"+dom != s {
			vs = append(vs, ev.Vf("Split:roundtrip", "Split(%q) = %q, %q, %v", s, mbox, dom, err))
		}
		// ToUnicode: U-label NFC domain (case preserved), local part untouched
		u, err := ToUnicode(s)
		if err != nil {
			vs = append(vs, ev.Vf("ToUnicode:error:"+c17SigForms(a), "ToUnicode(%q): %v", s, err))
		} else if !strings.EqualFold(u, a.Local.String()+"@"+a.uDomain()) && c17SigForms(a) == "other" && !Equal(u, s) {
			vs = append(vs, ev.Vf("ToUnicode:changes-identity", "ToUnicode(%q) = %q is not Equal to its input", s, u))
		}
		// ASCII <-> Unicode round trips on canonical spellings
		if c17AllBelow80(a.Local.String()) {
			canonU := a.Local.String() + "@" + a.uDomain()
			canonA := a.Local.String() + "@" + a.aDomain()
			if got, err := ToASCII(canonU); err != nil || got != canonA {
				vs = append(vs, ev.Vf("ToASCII:value", "ToASCII(%q) = %q, %v; want %q", canonU, got, err, canonA))
			}
			if got, err := ToUnicode(canonA); err != nil || got != canonU {
				vs = append(vs, ev.Vf("ToUnicode:value", "ToUnicode(%q) = %q, %v; want %q", canonA, got, err, canonU))
			}
			if got, err := ToASCII(s); err == nil {
				if !Equal(got, s) && c17SigForms(a) == "other" {
					vs = append(vs, ev.Vf("ToASCII:changes-identity", "ToASCII(%q) = %q is not Equal to its input", s, got))
				}
			}
		} else if _, err := ToASCII(s); err == nil {
			vs = append(vs, ev.Vf("ToASCII:accepts-unicode-localpart", "ToASCII(%q) succeeded although the local part is not ASCII", s))
		}
	}
	for i := range sc.Addrs {
		for j := range sc.Addrs {
			if i >= j {
				continue
			}
			x, y := sc.Addrs[i], sc.Addrs[j]
			same := x.identity() == y.identity()
			if got := Equal(x.String(), y.String()); got != same {
				sig := "Equal:variants:" + c17SigForms(x)
				if c17SigForms(x) == "other" {
					sig = "Equal:variants:" + c17SigForms(y)
				}
				if !same {
					sig = "Equal:distinct-identities-equal"
				}
				vs = append(vs, ev.Vf(sig, "Equal(%q, %q) = %v, but by construction same-identity = %v", x.String(), y.String(), got, same))
			}
		}
	}
	return vs
}

func c17InfoVariants(sc c17Variants) ev.Info {
	nt := false
	var cl []string
	ids := map[string]bool{}
	for _, a := range sc.Addrs {
		ids[a.identity()] = true
		if a.Local.Form != 0 {
			nt = true
		}
		for _, l := range a.Labels {
			if l.Form != 0 && l.Form != 3 || c17Labels[l.Idx].A != c17Labels[l.Idx].U {
				nt = true
			}
			cl = append(cl, fmt.Sprintf("dform%d", l.Form))
		}
	}
	if len(ids) > 1 {
		cl = append(cl, "distinct-identities")
	}
	return ev.Info{Nontrivial: nt, Classes: cl}
}

// ---- idempotence over free-form valid local parts ---------------------

type c17Free struct {
	Local  ev.QS              `json:"local"`
	Labels []c17LabelSpelling `json:"labels"`
}

func (f c17Free) String() string {
	ls := make([]string, len(f.Labels))
	for i, l := range f.Labels {
		ls[i] = l.String()
	}
	return string(f.Local) + "@" + strings.Join(ls, ".")
}

func c17GenFree(t *rapid.T) c17Free {
	var f c17Free
	for i := 0; ; i++ {
		toks := rapid.SliceOfN(rapid.SampledFrom(c17Tokens), 1, 6).Draw(t, "local")
		l := strings.Join(toks, "")
		if rapid.Bool().Draw(t, "quote") {
			l = QuoteMbox(l)
		}
		if utf8.ValidString(l) && ValidMailboxName(l) && !strings.HasPrefix(l, ".") && !strings.HasSuffix(l, ".") && !strings.Contains(l, "..") {
			f.Local = ev.QS(l)
			break
		}
		if i > 20 {
			f.Local = "user"
			break
		}
	}
	n := rapid.IntRange(1, 2).Draw(t, "nlabels")
	for i := 0; i < n; i++ {
		f.Labels = append(f.Labels, c17LabelSpelling{Idx: rapid.IntRange(0, len(c17Labels)-1).Draw(t, "label"), Form: rapid.IntRange(0, 6).Draw(t, "form")})
	}
	return f
}

func c17RunFree(f c17Free) (vs []ev.V) {
	s := f.String()
	if !Valid(s) {
		return nil // counted as trivial by Info
	}
	k, err := ForLookup(s)
	if err != nil {
		return []ev.V{ev.Vf("ForLookup:error-on-valid", "ForLookup(%q) fails on an address Valid() accepts: %v", s, err)}
	}
	if k2, err := ForLookup(k); err != nil || k2 != k {
		vs = append(vs, ev.Vf("ForLookup:not-idempotent:free-local-part", "ForLookup(%q) = %q but ForLookup of that = %q, %v", s, k, k2, err))
	}
	if !Equal(s, k) {
		vs = append(vs, ev.Vf("ForLookup:key-not-equal-to-address", "Equal(%q, ForLookup of it = %q) = false", s, k))
	}
	// Unicode-normalization variants of one address have one key (metamorphic: NFC vs NFD spelling)
	if at := strings.LastIndexByte(s, '@'); at > 0 && !strings.HasPrefix(s, "\"") {
		s1, s2 := norm.NFC.String(s[:at])+s[at:], norm.NFD.String(s[:at])+s[at:]
		if s1 != s2 && Valid(s1) && Valid(s2) {
			k1, err1 := ForLookup(s1)
			k2, err2 := ForLookup(s2)
			if err1 != nil || err2 != nil || k1 != k2 {
				vs = append(vs, ev.Vf("ForLookup:nfc-nfd-variants-differ", "ForLookup(%q) = %q, %v but ForLookup(%q) = %q, %v (NFC and NFD spellings of one local part)", s1, k1, err1, s2, k2, err2))
			}
			if !Equal(s1, s2) {
				vs = append(vs, ev.Vf("Equal:nfc-nfd-variants-differ", "Equal(%q, %q) = false (NFC and NFD spellings of one local part)", s1, s2))
			}
		}
	}
	c, err := CleanDomain(s)
	if err != nil {
		return append(vs, ev.Vf("CleanDomain:error-on-valid", "CleanDomain(%q): %v", s, err))
	}
	if c2, err := CleanDomain(c); err != nil || c2 != c {
		vs = append(vs, ev.Vf("CleanDomain:not-idempotent:free-local-part", "CleanDomain(%q) = %q, again %q, %v", s, c, c2, err))
	}
	if !strings.HasPrefix(c, string(f.Local)+"@") {
		vs = append(vs, ev.Vf("CleanDomain:touches-local-part", "CleanDomain(%q) = %q changed the local part", s, c))
	}
	if !Equal(s, c) {
		vs = append(vs, ev.Vf("CleanDomain:changes-identity", "Equal(%q, CleanDomain of it = %q) = false", s, c))
	}
	mbox, dom, err := Split(s)
	if err != nil || mbox+"@"+dom != s || mbox != string(f.Local) {
		vs = append(vs, ev.Vf("Split:roundtrip", "Split(%q) = %q, %q, %v", s, mbox, dom, err))
	}
	return vs
}

func c17InfoFree(f c17Free) ev.Info {
	s := f.String()
	return ev.Info{Nontrivial: Valid(s) && !c17AllBelow80(s), Classes: []string{fmt.Sprintf("valid=%v", Valid(s))}}
}

func TestVerifC17Address(t *testing.T) {
	r := ev.Get("C17")
	r.Rule("any: triples (a, mutation of a, mutation of a) of strings made of 0-8 tokens from a hostile alphabet " +
		"(ASCII, specials, quotes, backslash, @, dots, combining marks, U+0130/U+00DF/U+03C2/Kelvin, fullwidth, U+007F/U+0080, invalid UTF-8, " +
		"punycode labels in three cases) or rapid.String(); non-trivial = contains a byte >= 0x80, a quote/backslash, a punycode label or U+007F/U+0080. " +
		"variants: 2-4 spellings (local part NFC/NFD/upper/alternating case; each domain label U-label NFC/NFD/upper, A-label lower/upper/Xn--) of one or two " +
		"base identities from a table of (U-label, A-label) pairs; non-trivial = some non-canonical spelling or an IDN label. " +
		"dns: the same for bare domains. Distinct = distinct scenario.")
	ev.Run(t, r, ev.Spec[c17Any]{Name: "any", N: r.N, Gen: c17GenAny, Run: c17RunAny, Info: c17InfoAny})
	ev.Run(t, r, ev.Spec[c17Variants]{Name: "variants", N: r.N, Gen: c17GenVariants, Run: c17RunVariants, Info: c17InfoVariants})
	ev.Run(t, r, ev.Spec[c17Free]{Name: "free", N: r.N, Gen: c17GenFree, Run: c17RunFree, Info: c17InfoFree})
}
