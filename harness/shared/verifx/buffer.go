package verifx

import (
	"errors"
	"io"
)

// FaultyBuffer is a message body whose storage misbehaves: Open fails, or the
// reader fails after ReadErrAfter octets (the spool file cannot be read to the
// end). With OpenErr nil and ReadErrAfter < 0 it is an ordinary in-memory body.
type FaultyBuffer struct {
	Data         []byte
	OpenErr      error
	ReadErrAfter int
}

var ErrBodyRead = errors.New("verifx: scripted I/O error while reading the message body")
var ErrBodyOpen = errors.New("verifx: scripted I/O error while opening the message body")

type faultyReader struct {
	data []byte
	left int // octets before the failure, <0: none
}

func (r *faultyReader) Read(p []byte) (int, error) {
	if r.left == 0 {
		return 0, ErrBodyRead
	}
	if len(r.data) == 0 {
		return 0, io.EOF
	}
	n := len(p)
	if n > len(r.data) {
		n = len(r.data)
	}
	if r.left > 0 && n > r.left {
		n = r.left
	}
	copy(p, r.data[:n])
	r.data = r.data[n:]
	if r.left > 0 {
		r.left -= n
	}
	return n, nil
}

func (r *faultyReader) Close() error { return nil }

func (b FaultyBuffer) Open() (io.ReadCloser, error) {
	if b.OpenErr != nil {
		return nil, b.OpenErr
	}
	left := b.ReadErrAfter
	if left >= len(b.Data) {
		left = -1
	}
	return &faultyReader{data: b.Data, left: left}, nil
}

func (b FaultyBuffer) Len() int      { return len(b.Data) }
func (b FaultyBuffer) Remove() error { return nil }
