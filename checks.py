"""Per-property check specifications used by ./check."""

GO = "go"          # repository toolchain (1.23.5)
GO126 = "go1.26.8"  # needed for testing/synctest (virtual clock, owned schedule)

CHECKS = {
    "C17": {
        "title": "address normalisation laws",
        "go": GO,
        "units": [
            {"name": "address", "pkg": "framework/address",
             "overlay": {"verif_c17_test.go": "harness/C17/address_test.go"}},
            {"name": "dns", "pkg": "framework/dns",
             "overlay": {"verif_c17_test.go": "harness/C17/dns_test.go"}},
        ],
        "quick": {"n": 60000, "shards": 6},
        "thorough": {"n": 1600000, "shards": 8},
        "level_text": "randomised search (rapid) over a hostile string alphabet and over valid addresses built from a table of "
                      "(U-label, A-label) pairs with spelling variants; oracles are the laws themselves plus keys known by construction. "
                      "Cheap pure functions, so 10^5-10^6 cases per run; no claim of absence.",
        "level_note": "trusts x/net/idna and x/text/norm for constructing the label table and the NFD/upper-case spellings; "
                      "the valid-address laws are only asserted on generated valid addresses, crash-freedom and the equivalence laws on all strings",
        "technique": "property-based testing (rapid): algebraic laws, round-trips and by-construction reference keys over generated strings/addresses",
    },
}

# properties deliberately not claimed: {"property_id":..., "reason":...}
NOT_APPLICABLE = []

FIX_COMMITS = ["b0fbfbf", "ce16772", "79536cb"]
