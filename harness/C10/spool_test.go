package queue

// C10 harness: the spool preserves message bytes and envelope, and never
// stores credentials (shares the queue harness and the C01 model).

import (
	"bytes"
	"encoding/json"
	"fmt"
	"os"
	"path/filepath"
	"reflect"
	"sort"
	"strings"
	"testing"

	"github.com/emersion/go-message/textproto"
	"github.com/foxcpp/maddy/internal/verifx"
	"pgregory.net/rapid"
	"verifkit/ev"
)

var c10FieldNames = []string{"Subject", "X-Test", "Received", "To", "Content-Type", "DKIM-Signature", "x-lower", "X-MiXeD-Case", "List-Unsubscribe"}

func c10GenHeader(t *rapid.T) string {
	var b strings.Builder
	n := rapid.IntRange(1, 8).Draw(t, "nfields")
	for i := 0; i < n; i++ {
		name := rapid.SampledFrom(c10FieldNames).Draw(t, "name")
		b.WriteString(name)
		b.WriteString(":")
		switch rapid.IntRange(0, 10).Draw(t, "valuekind") {
		case 10:
			// folded with a bare LF (the endpoint's parser takes it and keeps the bytes; libmilter's convention for the
			// fields a milter adds)
			b.WriteString(" first line\n\tsecond line")
		case 0:
			// empty value
		case 1:
			b.WriteString(" " + strings.Repeat("long-value ", rapid.IntRange(20, 200).Draw(t, "longn")))
		case 2:
			b.WriteString(" first line\r\n\tsecond line\r\n   third line with   inner   spaces")
		case 3:
			b.WriteString(" caf\xc3\xa9 8-bit \xd0\xb6 utf-8")
		case 4:
			b.WriteString(" latin1 \xe9\xe8 raw 8-bit")
		case 5:
			b.WriteString("no-space-after-colon")
		case 6:
			b.WriteString("  trailing whitespace  \t ")
		case 7:
			b.WriteString(" v=1; a=rsa-sha256; c=relaxed/relaxed;\r\n\td=example.org; s=sel;\r\n\tb=" + strings.Repeat("AbCd+/", 30))
		case 8:
			b.WriteString("\r\n folded right after the colon")
		default:
			b.WriteString(" " + rapid.StringMatching(`[ -~]{0,40}`).Draw(t, "ascii"))
		}
		b.WriteString("\r\n")
	}
	return b.String()
}

func c10GenBody(t *rapid.T) (string, bool) {
	switch rapid.IntRange(0, 7).Draw(t, "bodykind") {
	case 0:
		return "", false
	case 1:
		return "line\r\n.\r\n..leading dots\r\n.\r\n", false
	case 2:
		b := rapid.SliceOfN(rapid.Byte(), 0, 300).Draw(t, "binary")
		return string(b), false
	case 3:
		return strings.Repeat("0123456789abcdef0123456789abcdef0123456789abcdef0123456789abcd\r\n", rapid.IntRange(1000, 20000).Draw(t, "biglines")), true // > 1 MiB possible: file buffer
	case 4:
		return "no final newline", rapid.Bool().Draw(t, "infile")
	case 5:
		return "trailing spaces   \r\n\r\n\r\n\r\n", false
	case 6:
		return "bare\nLF and bare\rCR\r\n\x00NUL\r\n", false
	default:
		return "hello\r\nworld\r\n", rapid.Bool().Draw(t, "infile")
	}
}

const (
	c10UserMarker = "USR-q7Zx9Kp2Lm4Vt8"
	c10PassMarker = "PWD-\"w3Rf6\\Yh1Nb5Jc0<&>"
)

func c10Gen(t *rapid.T) qScenario {
	sc := qScenario{MaxTries: rapid.IntRange(2, 4).Draw(t, "max_tries"), Partial: rapid.Bool().Draw(t, "partial"), Bounce: "ok", TargetRewrites: rapid.IntRange(0, 2).Draw(t, "target_rewrites") == 0}
	m := qMsg{ID: "m0", AuthUser: c10UserMarker, AuthPassword: c10PassMarker}
	m.Header = ev.QS(c10GenHeader(t))
	m.SiblingRoute = rapid.IntRange(0, 3).Draw(t, "sibling_route") == 0
	body, inFile := c10GenBody(t)
	m.Body, m.BodyInFile = ev.QS(body), inFile
	switch rapid.IntRange(0, 5).Draw(t, "sender") {
	case 0:
		m.From, m.OriginalFrom = "", ""
	case 1:
		m.From, m.OriginalFrom = "отправитель@тест.example", "отправитель@тест.example"
		m.UTF8 = true
	case 2:
		m.From, m.OriginalFrom = "\"quoted local\"@example.com", "\"quoted local\"@example.com"
	case 3:
		m.From, m.OriginalFrom = "rewritten@example.com", "original@example.com"
	default:
		m.From, m.OriginalFrom = "sender@example.com", "sender@example.com"
	}
	idx := rapid.SliceOfNDistinct(rapid.IntRange(0, len(c01Rcpts)-1), 1, 4, rapid.ID[int]).Draw(t, "rcpts")
	for _, i := range idx {
		r := c01Rcpts[i]
		if strings.HasPrefix(r, "почта") {
			m.UTF8 = true
		}
		if rapid.IntRange(0, 3).Draw(t, "rewritten") == 0 {
			if m.OriginalRcpts == nil {
				m.OriginalRcpts = map[string]string{}
			}
			m.OriginalRcpts[r] = fmt.Sprintf("alias%d@example.org", i)
		}
		m.Rcpts = append(m.Rcpts, r)
	}
	m.UTF8 = m.UTF8 || rapid.Bool().Draw(t, "utf8")
	m.RequireTLS = rapid.Bool().Draw(t, "requiretls")
	m.TLSOverride = rapid.Bool().Draw(t, "tlsoverride")
	// retries: temporary failures in the first attempts so that several attempts (and restarts) happen
	tmp := &verifx.ErrNode{Kind: "smtp", Code: 451, Ench: [3]int{4, 0, 0}, Msg: "later"}
	for a := 0; a < sc.MaxTries; a++ {
		p := qPlan{}
		if rapid.IntRange(0, 4).Draw(t, "fail") != 0 {
			for _, r := range m.Rcpts {
				if rapid.Bool().Draw(t, "failrcpt") {
					if p.Rcpt == nil {
						p.Rcpt = map[string]*verifx.ErrNode{}
					}
					p.Rcpt[r] = tmp
				}
			}
			if rapid.IntRange(0, 3).Draw(t, "startfail") == 0 {
				p.Start = tmp
			}
		}
		m.Plans = append(m.Plans, p)
	}
	sc.Msgs = []qMsg{m}
	for i, n := 0, rapid.IntRange(0, 2).Draw(t, "nrestarts"); i < n; i++ {
		sc.RestartAfter = append(sc.RestartAfter, rapid.IntRange(1, sc.MaxTries).Draw(t, "restart_after"))
	}
	return sc
}

func c10Run(sc qScenario) (vs []ev.V) {
	m := sc.Msgs[0]
	leaks := map[string]bool{}
	scan := func(dir string, h *qHistory) {
		ents, _ := os.ReadDir(dir)
		for _, e := range ents {
			b, err := os.ReadFile(filepath.Join(dir, e.Name()))
			if err != nil {
				continue
			}
			for _, marker := range []string{c10UserMarker, c10PassMarker} {
				esc, _ := json.Marshal(marker)
				if bytes.Contains(b, []byte(marker)) || bytes.Contains(b, esc[1:len(esc)-1]) || bytes.Contains(b, []byte(marker[:12])) {
					kind := "password"
					if marker == c10UserMarker {
						kind = "user-name"
					}
					leaks[kind+" in "+e.Name()[strings.LastIndexByte(e.Name(), '.')+1:]] = true
				}
			}
		}
	}
	h := qRun(sc, scan)
	var leakKeys []string
	for k := range leaks {
		leakKeys = append(leakKeys, k)
	}
	sort.Strings(leakKeys)
	for _, k := range leakKeys {
		vs = append(vs, ev.Vf("spool:credential-stored:"+strings.Fields(k)[0], "authentication %s found in the spool", k))
	}
	for _, e := range h.Events {
		if e.Op == "accept-error" {
			return append(vs, ev.Vf("queue:accept-error", "queue refused the message: %s", e.Err))
		}
		if e.Op == "body-open-error" {
			vs = append(vs, ev.Vf("spool:body-unreadable", "attempt %d: the body handed to the target cannot be opened: %s", e.Attempt, e.Err))
		}
	}
	// expected header bytes: what the accepted header serialises to
	hdr, err := qParseHeader(string(m.Header))
	if err != nil {
		return append(vs, ev.Vf("harness", "generated header does not parse: %v", err))
	}
	if m.SiblingRoute {
		hdr.Add("X-Verif-Route", "this-one")
	}
	var want bytes.Buffer
	textproto.WriteHeader(&want, hdr)
	// pending recipients per attempt according to the model
	fate := c01Model(sc, m)
	if len(h.Attempts) == 0 {
		vs = append(vs, ev.Vf("queue:no-attempt", "the message was never attempted; %s", c01Events(h)))
	}
	c10LastAttempts, c10LastAfterRestart = len(h.Attempts), false
	for _, a := range h.Attempts {
		where := fmt.Sprintf("attempt %d (after restart: %v)", a.N, a.AfterStop)
		c10LastAfterRestart = c10LastAfterRestart || a.AfterStop
		if a.From != m.From {
			vs = append(vs, ev.Vf("envelope:sender", "%s: sender %q, accepted %q", where, a.From, m.From))
		}
		if a.Meta.OriginalFrom != m.OriginalFrom {
			vs = append(vs, ev.Vf("envelope:original-sender", "%s: OriginalFrom %q, accepted %q", where, a.Meta.OriginalFrom, m.OriginalFrom))
		}
		if a.Meta.SMTPOpts.UTF8 != m.UTF8 || a.Meta.SMTPOpts.RequireTLS != m.RequireTLS {
			vs = append(vs, ev.Vf("envelope:options", "%s: SMTPUTF8=%v REQUIRETLS=%v, accepted %v/%v", where, a.Meta.SMTPOpts.UTF8, a.Meta.SMTPOpts.RequireTLS, m.UTF8, m.RequireTLS))
		}
		if a.Meta.TLSRequireOverride != m.TLSOverride {
			vs = append(vs, ev.Vf("envelope:tls-required-override", "%s: TLSRequireOverride=%v, accepted %v", where, a.Meta.TLSRequireOverride, m.TLSOverride))
		}
		wantMap := m.OriginalRcpts
		gotMap := a.Meta.OriginalRcpts
		if len(wantMap) == 0 && len(gotMap) == 0 {
			// nil vs empty is the same mapping
		} else if !reflect.DeepEqual(wantMap, gotMap) {
			vs = append(vs, ev.Vf("envelope:original-recipients", "%s: OriginalRcpts %v, accepted %v", where, gotMap, wantMap))
		}
		// recipients offered in this attempt = those still pending
		var offered, pending []string
		for _, e := range h.Events {
			if e.Msg == m.ID && e.Attempt == a.N && e.Op == "rcpt" {
				offered = append(offered, e.Rcpt)
			}
		}
		started := true
		for _, e := range h.Events {
			if e.Msg == m.ID && e.Attempt == a.N && e.Op == "start" && e.Err != "" {
				started = false
			}
		}
		for _, r := range m.Rcpts {
			if fate[r].LastAttempt >= a.N {
				pending = append(pending, r)
			}
		}
		if started {
			sort.Strings(offered)
			sort.Strings(pending)
			if !reflect.DeepEqual(offered, pending) {
				vs = append(vs, ev.Vf("envelope:pending-recipients", "%s: recipients offered %v, still pending by the model %v; %s", where, offered, pending, c01Events(h)))
			}
		}
		if a.Header != nil || a.Body != nil {
			if !bytes.Equal(a.Header, want.Bytes()) {
				sig := "content:header-differs"
				if bytes.Equal(bytes.ReplaceAll(a.Header, []byte("\r\n"), []byte("\n")), bytes.ReplaceAll(want.Bytes(), []byte("\r\n"), []byte("\n"))) {
					sig = "content:header-differs:bare-LF-became-CRLF-after-reload"
				}
				vs = append(vs, ev.Vf(sig, "%s: header handed to the target\n%q\naccepted\n%q", where, a.Header, want.Bytes()))
			}
			if !bytes.Equal(a.Body, []byte(m.Body)) {
				vs = append(vs, ev.Vf("content:body-differs", "%s: body handed to the target differs: got %d bytes %.80q..., accepted %d bytes %.80q...", where, len(a.Body), a.Body, len(m.Body), string(m.Body)))
			}
		}
		if len(vs) > 3 {
			break
		}
	}
	return vs
}

var (
	c10LastAttempts     int
	c10LastAfterRestart bool
)

func c10Info(sc qScenario) ev.Info {
	m := sc.Msgs[0]
	feature := strings.Contains(string(m.Header), "\r\n\t") || strings.Contains(string(m.Header), "\r\n ") || strings.IndexFunc(string(m.Header), func(r rune) bool { return r >= 0x80 }) >= 0 ||
		len(m.Header) > 500 || len(m.Body) == 0 || m.BodyInFile || strings.Contains(string(m.Body), "\r\n.") || strings.ContainsAny(string(m.Body), "\x00\x80\xff")
	return ev.Info{Nontrivial: (c10LastAttempts >= 2 || c10LastAfterRestart) && feature,
		Classes: []string{fmt.Sprintf("attempts=%d", c10LastAttempts), fmt.Sprintf("after_restart=%v", c10LastAfterRestart), fmt.Sprintf("body_in_file=%v", m.BodyInFile)}}
}

func TestVerifC10(t *testing.T) {
	qT = t
	r := ev.Get("C10")
	r.Rule("Scenario = one message: header block of 1-8 fields (empty, very long, folded in several ways, UTF-8 and raw 8-bit, no space after the colon, trailing whitespace, DKIM-like, duplicates, odd case), " +
		"body (empty, dot lines, random binary, 64 KiB-1.3 MiB handed over as a file buffer that is deleted after acceptance, no final newline, trailing blank lines, bare CR/LF/NUL), envelope (null / EAI / " +
		"quoted-local-part / rewritten sender, 1-4 recipients some with original-recipient mapping, SMTPUTF8, REQUIRETLS, TLS-Required override), high-entropy AuthUser/AuthPassword markers, " +
		"temporary failures scripted so that 2-4 attempts happen, 0-2 queue restarts; run under synctest. Oracle: on every attempt the scripted target must receive the serialisation of the accepted header, " +
		"the accepted body bytes, sender, options, override flag, original-recipient map and exactly the recipients the C01 model says are still pending; after every quiescent point every spool file is " +
		"scanned for the markers (raw and JSON-escaped). Non-trivial = (>=2 attempts or an attempt after a restart) and a header/body feature from the list. Distinct = distinct scenario.")
	ev.Run(t, r, ev.Spec[qScenario]{Name: "roundtrip", N: r.N, Gen: c10Gen, Run: c10Run, Info: c10Info})
}
