package remote

// C13, "the TLSA records published for an MX": daneDelivery.discoverTLSA
// against a DNS server on loopback that answers like a validating resolver -
// one CNAME record per alias in the answer to an address query with AD set
// only if every RRset of the answer is secure, AD of the single RRset for
// CNAME and TLSA queries. The records DANE works with have to be records
// published for the MX: the ones at its own name or, if (and only if) the
// alias expansion is secure at every stage, the ones at the expanded name
// (RFC 7672 Section 2.2.2) - never records that were served unauthenticated,
// and a name reached through an unsigned alias must not decide anything.

import (
	"context"
	"fmt"
	"net"
	"strings"
	"testing"
	"time"

	"github.com/foxcpp/maddy/framework/dns"
	"github.com/foxcpp/maddy/framework/log"
	miekgdns "github.com/miekg/dns"
	"pgregory.net/rapid"
	"verifkit/ev"
)

type c13dScenario struct {
	// AD of the CNAME RRset of every alias, the MX name first (empty: the MX name has the address records itself)
	AliasAD []bool `json:"alias_secure"`
	AddrAD  bool   `json:"address_secure"`
	// TLSA at the MX name / at the expanded name: 0 none (secure denial), 1 secure records, 2 records without AD, 3 SERVFAIL
	AtMX    int `json:"tlsa_at_mx"`
	AtAlias int `json:"tlsa_at_expanded_name"`
	// the host names are 251 octets long: no TLSA owner name exists for them (the TLSA states are "none" then)
	Long bool `json:"long_names,omitempty"`
}

func (sc c13dScenario) name(i int) string {
	if sc.Long {
		return c13dLongName(i)
	}
	return c13dName(i)
}

func c13dName(i int) string { return fmt.Sprintf("h%d.c13.invalid.", i) }

// c13dLongName: a host name of 251 octets - valid, resolvable, can be signed - for which "_25._tcp.<name>" exceeds the
// 255 octets of a domain name, so that no TLSA record can exist for it.
func c13dLongName(i int) string {
	return fmt.Sprintf("h%d.", i) + strings.Repeat(strings.Repeat("a", 58)+".", 4) + "c13.invalid."
}

const (
	c13dDataMX    = "aa01"
	c13dDataAlias = "bb02"
)

func c13dServer(sc c13dScenario) (addr string, stop func(), err error) {
	// the same port for TCP and UDP: the UDP one may be taken, try another pair then
	var tcpL net.Listener
	var pc net.PacketConn
	for try := 0; ; try++ {
		tcpL, err = net.Listen("tcp4", "127.0.0.1:0")
		if err != nil {
			return "", nil, err
		}
		pc, err = net.ListenPacket("udp4", tcpL.Addr().String())
		if err == nil {
			break
		}
		tcpL.Close()
		if try == 50 {
			return "", nil, err
		}
	}
	last := len(sc.AliasAD)
	index := func(name string) int {
		for i := 0; i <= last; i++ {
			if strings.EqualFold(name, sc.name(i)) {
				return i
			}
		}
		return -1
	}
	handler := miekgdns.HandlerFunc(func(w miekgdns.ResponseWriter, m *miekgdns.Msg) {
		reply := new(miekgdns.Msg)
		reply.SetReply(m)
		reply.RecursionAvailable = true
		q := m.Question[0]
		cname := func(i int) miekgdns.RR {
			return &miekgdns.CNAME{Hdr: miekgdns.RR_Header{Name: sc.name(i), Rrtype: miekgdns.TypeCNAME, Class: miekgdns.ClassINET, Ttl: 300}, Target: sc.name(i + 1)}
		}
		switch q.Qtype {
		case miekgdns.TypeA, miekgdns.TypeAAAA:
			i := index(q.Name)
			if i < 0 {
				reply.Rcode = miekgdns.RcodeNameError
				break
			}
			ad := sc.AddrAD
			for ; i < last; i++ {
				reply.Answer = append(reply.Answer, cname(i))
				ad = ad && sc.AliasAD[i]
			}
			if q.Qtype == miekgdns.TypeA {
				reply.Answer = append(reply.Answer, &miekgdns.A{Hdr: miekgdns.RR_Header{Name: sc.name(last), Rrtype: miekgdns.TypeA, Class: miekgdns.ClassINET, Ttl: 300}, A: net.IPv4(127, 0, 0, 1)})
			}
			reply.AuthenticatedData = ad
		case miekgdns.TypeCNAME:
			i := index(q.Name)
			switch {
			case i < 0:
				reply.Rcode = miekgdns.RcodeNameError
			case i < last:
				reply.Answer = append(reply.Answer, cname(i))
				reply.AuthenticatedData = sc.AliasAD[i]
			default:
				reply.AuthenticatedData = sc.AddrAD
			}
		case miekgdns.TypeTLSA:
			i := index(strings.TrimPrefix(strings.ToLower(q.Name), "_25._tcp."))
			state, data, zoneAD := 0, "", false
			switch {
			case i == 0:
				state, data = sc.AtMX, c13dDataMX
				zoneAD = sc.AddrAD
				if last > 0 {
					zoneAD = sc.AliasAD[0]
				}
			case i == last && i > 0:
				state, data, zoneAD = sc.AtAlias, c13dDataAlias, sc.AddrAD
			case i > 0:
				zoneAD = sc.AliasAD[i]
			}
			switch state {
			case 0:
				reply.Rcode = miekgdns.RcodeNameError
				reply.AuthenticatedData = zoneAD
			case 1, 2:
				reply.Answer = append(reply.Answer, &miekgdns.TLSA{Hdr: miekgdns.RR_Header{Name: q.Name, Rrtype: miekgdns.TypeTLSA, Class: miekgdns.ClassINET, Ttl: 300},
					Usage: 3, Selector: 1, MatchingType: 1, Certificate: data})
				reply.AuthenticatedData = state == 1
			default:
				reply.Rcode = miekgdns.RcodeServerFailure
			}
		default:
			reply.Rcode = miekgdns.RcodeNameError
		}
		w.WriteMsg(reply)
	})
	udpSrv := &miekgdns.Server{PacketConn: pc, Handler: handler}
	tcpSrv := &miekgdns.Server{Listener: tcpL, Handler: handler}
	go udpSrv.ActivateAndServe()
	go tcpSrv.ActivateAndServe()
	return tcpL.Addr().String(), func() { udpSrv.Shutdown(); tcpSrv.Shutdown() }, nil
}

func c13dRun(sc c13dScenario) (vs []ev.V) {
	r := ev.Get("C13")
	addr, stop, err := c13dServer(sc)
	if err != nil {
		r.HarnessError("dns server: %v", err)
		return nil
	}
	defer stop()
	host, port, _ := net.SplitHostPort(addr)
	ext, err := dns.NewExtResolver()
	if err != nil {
		r.HarnessError("resolver: %v", err)
		return nil
	}
	ext.Cfg.Servers = []string{host}
	ext.Cfg.Port = port
	pol := &danePolicy{extResolver: ext, log: log.Logger{Out: log.NopOutput{}}}
	d := &daneDelivery{c: pol}
	ctx, cancel := context.WithTimeout(context.Background(), 20*time.Second)
	defer cancel()
	recs, derr := d.discoverTLSA(ctx, sc.name(0))

	aliases := len(sc.AliasAD)
	aliasesSecure := true
	for _, ad := range sc.AliasAD {
		aliasesSecure = aliasesSecure && ad
	}
	fromMX, fromAlias := false, false
	for _, rec := range recs {
		switch rec.Certificate {
		case c13dDataMX:
			fromMX = true
		case c13dDataAlias:
			fromAlias = true
		}
	}
	desc := fmt.Sprintf("MX %s, aliases secure %v, address records secure %v, TLSA at the MX name: %s, at the expanded name: %s; discoverTLSA returned %d record(s) (from the MX name: %v, from the expanded name: %v), err=%v",
		sc.name(0), sc.AliasAD, sc.AddrAD, c13dState(sc.AtMX), c13dState(sc.AtAlias), len(recs), fromMX, fromAlias, derr)
	if aliases > 0 && !aliasesSecure {
		if fromAlias {
			vs = append(vs, ev.Vf("discovery:records-of-insecurely-reached-name-used", "%s", desc))
		}
		// (only a failure that names the expanded name: a lookup that timed out on a loaded machine is not the scripted SERVFAIL)
		if derr != nil && sc.AtAlias == 3 && sc.AtMX != 3 && strings.Contains(strings.ToLower(derr.Error()), "_25._tcp."+strings.TrimSuffix(sc.name(aliases), ".")) {
			vs = append(vs, ev.Vf("discovery:failure-at-insecurely-reached-name-decides", "%s", desc))
		}
	}
	if sc.Long && derr != nil && strings.Contains(derr.Error(), "_25._tcp.") {
		// "absent records never cause a refusal": where no record can exist none is absent more thoroughly
		vs = append(vs, ev.Vf("discovery:name-too-long-for-a-tlsa-record-refused", "%s", desc))
	}
	if (fromMX && sc.AtMX == 2) || (fromAlias && sc.AtAlias == 2) {
		vs = append(vs, ev.Vf("discovery:unauthenticated-records-used", "%s", desc))
	}
	// fails closed: what is securely published and has to be consulted is found, a failed lookup is an error
	secure := aliasesSecure && sc.AddrAD
	if secure && derr == nil {
		switch {
		case aliases > 0 && sc.AtAlias == 1:
			if !fromAlias {
				vs = append(vs, ev.Vf("discovery:published-records-ignored", "%s", desc))
			}
		case sc.AtMX == 1 && (aliases == 0 || sc.AtAlias != 3):
			if !fromMX {
				vs = append(vs, ev.Vf("discovery:published-records-ignored", "%s", desc))
			}
		}
	}
	if secure && derr == nil {
		if (aliases > 0 && sc.AtAlias == 3) || (sc.AtMX == 3 && (aliases == 0 || sc.AtAlias != 1)) {
			vs = append(vs, ev.Vf("discovery:lookup-failure-ignored", "%s", desc))
		}
	}
	return vs
}

func c13dState(s int) string {
	return [...]string{"none (secure denial)", "secure records", "records without AD", "SERVFAIL"}[s]
}

func TestVerifC13Discovery(t *testing.T) {
	r := ev.Get("C13")
	ev.Run(t, r, ev.Spec[c13dScenario]{Name: "discovery", N: r.Scale(1, 100, 120), Gen: func(t *rapid.T) c13dScenario {
		sc := c13dScenario{AddrAD: rapid.IntRange(0, 3).Draw(t, "address_secure") != 0,
			AtMX: rapid.IntRange(0, 3).Draw(t, "tlsa_at_mx")}
		for i, n := 0, rapid.IntRange(0, 3).Draw(t, "aliases"); i < n; i++ {
			sc.AliasAD = append(sc.AliasAD, rapid.IntRange(0, 3).Draw(t, "alias_secure") != 0)
		}
		if len(sc.AliasAD) > 0 {
			sc.AtAlias = rapid.IntRange(0, 3).Draw(t, "tlsa_at_expanded_name")
		}
		if rapid.IntRange(0, 7).Draw(t, "long_names") == 0 {
			sc.Long, sc.AtMX, sc.AtAlias = true, 0, 0
		}
		return sc
	}, Run: c13dRun, Info: func(sc c13dScenario) ev.Info {
		return ev.Info{Nontrivial: len(sc.AliasAD) > 0, Classes: []string{fmt.Sprintf("aliases=%d", len(sc.AliasAD))}}
	}})
}
