package queue

// Shared harness for the queue family (C01 C10 C16 C18, later C02 C12): a
// scenario (messages, per-attempt fault plans, restarts) is executed against
// the real Queue inside a testing/synctest bubble, so the production retry
// timing (15 min x 1.25^n, 10 s post-init delay) runs on a virtual clock. A
// scripted downstream target and a recording bounce target produce a history
// that the per-property oracles examine.

import (
	"bufio"
	"bytes"
	"context"
	"fmt"
	"io"
	"os"
	"path/filepath"
	"sort"
	"strings"
	"sync"
	"testing"
	"testing/synctest"
	"time"

	"github.com/emersion/go-message/textproto"
	"github.com/emersion/go-smtp"
	"github.com/foxcpp/maddy/framework/buffer"
	"github.com/foxcpp/maddy/framework/log"
	"github.com/foxcpp/maddy/framework/module"
	"github.com/foxcpp/maddy/internal/verifx"
	"verifkit/ev"
)

type qPlan struct {
	Start  *verifx.ErrNode            `json:"start,omitempty"`
	Rcpt   map[string]*verifx.ErrNode `json:"rcpt,omitempty"`
	Body   *verifx.ErrNode            `json:"body,omitempty"`   // atomic targets
	Status map[string]*verifx.ErrNode `json:"status,omitempty"` // per-recipient targets
	Commit *verifx.ErrNode            `json:"commit,omitempty"`
}

type qMsg struct {
	ID            string            `json:"id"`
	From          string            `json:"from"`
	OriginalFrom  string            `json:"original_from"`
	Rcpts         []string          `json:"rcpts"`
	OriginalRcpts map[string]string `json:"original_rcpts,omitempty"`
	Header        ev.QS             `json:"header"` // header block, CRLF line ends, without the empty line
	Body          ev.QS             `json:"body"`
	BodyInFile    bool              `json:"body_in_file,omitempty"`
	UTF8          bool              `json:"smtputf8,omitempty"`
	RequireTLS    bool              `json:"requiretls,omitempty"`
	TLSOverride   bool              `json:"tls_required_no,omitempty"`
	Quarantine    bool              `json:"quarantine,omitempty"` // raised by the pipeline at the body stage (C06)
	AuthUser      string            `json:"auth_user,omitempty"`
	Helo          string            `json:"client_helo_name,omitempty"` // what the client said in EHLO ("" = client.example); never validated by the endpoint
	AuthPassword  string            `json:"auth_password,omitempty"`
	Plans         []qPlan           `json:"plans,omitempty"`
	Abort         bool              `json:"abort,omitempty"` // the client aborts after Body instead of committing
	// the message reaches the queue through one of two sibling routes of an enclosing pipeline: each route adds a
	// field of its own to its copy of the header (as a modifier in a reroute block does); the other route does so
	// after this queue has been given its copy
	SiblingRoute bool `json:"sibling_route_adds_field,omitempty"`
	// the message is submitted this many virtual minutes after the previous one (0 = immediately)
	AcceptAfterMin int `json:"accept_after_min,omitempty"`
}

type qScenario struct {
	MaxTries int    `json:"max_tries"`
	Partial  bool   `json:"per_recipient_target,omitempty"`
	Bounce   string `json:"bounce"` // none ok start rcpt body commit (stage at which the report delivery fails)
	Msgs     []qMsg `json:"messages"`
	// restart the queue (Close, then a new Queue on the same directory) once this many attempts have been made
	RestartAfter []int `json:"restart_after,omitempty"`
	// after a restart on a crash image (C02): the last recipient of every message fails temporarily in
	// this many attempts of the recovering queue before it is accepted
	RecoverTempFails int `json:"recover_temp_fails,omitempty"`
	// limit of attempts running at the same time (0: 16)
	Parallelism int `json:"max_parallelism,omitempty"`
	// the target behaves like a message pipeline with recipient modifiers: it records its own rewrites in the
	// OriginalRcpts map of the meta-data it was handed (its copy, according to MsgMetadata.DeepCopy)
	TargetRewrites bool `json:"target_rewrites,omitempty"`
}

// ---- history ---------------------------------------------------------------------------------

// qSeq, when set, stamps every recorded event with a global sequence number
// shared with the file-system operation log (C02).
var qSeq func() int64

type qEvent struct {
	Seq     int64
	At      time.Duration // virtual time since the start of the scenario
	Msg     string
	Attempt int
	Op      string // start rcpt body status commit abort
	Rcpt    string
	Err     string
}

type qAttempt struct {
	Msg       string
	N         int
	From      string
	Meta      module.MsgMetadata
	Accepted  []string
	Header    []byte
	Body      []byte
	Committed bool
	Aborted   bool
	AfterStop bool // started after the queue was restarted at least once
	StartSeq  int64
	CommitSeq int64
}

type qReport struct {
	From      string
	Rcpts     []string
	Header    textproto.Header
	Raw       []byte // header + body as handed to the bounce target
	Meta      module.MsgMetadata
	Committed bool
	Aborted   bool
	At        time.Duration
	CommitSeq int64
}

type qHistory struct {
	mu       sync.Mutex
	t0       time.Time
	Events   []qEvent
	Attempts []*qAttempt
	Reports  []*qReport
	Logs     []string
	Files    []string // spool directory content at the end
	Restarts int
	Hang     bool
	SpoolAt  map[int][]string // spool file names with content, captured before each restart
	MetaDump []string
	SpoolDir string
	// sequence stamps (qSeq) at which the whole system was observed quiescent
	QuiescentSeqs []int64
}

func (h *qHistory) ev(e qEvent) {
	h.mu.Lock()
	e.At = time.Since(h.t0)
	if qSeq != nil {
		e.Seq = qSeq()
	}
	h.Events = append(h.Events, e)
	h.mu.Unlock()
}

func qBaseID(id string) string {
	if i := strings.LastIndexByte(id, '-'); i > 0 {
		return id[:i]
	}
	return id
}

// ---- scripted downstream target ------------------------------------------------------------------

type qTarget struct {
	sc       *qScenario
	h        *qHistory
	attempts map[string]int
	partial  bool
}

func (t *qTarget) plan(msg string, attempt int) qPlan {
	for _, m := range t.sc.Msgs {
		if m.ID == msg && attempt-1 < len(m.Plans) {
			return m.Plans[attempt-1]
		}
	}
	known := false
	for _, m := range t.sc.Msgs {
		known = known || m.ID == msg
	}
	if t.sc.Bounce == "requeue" && !known {
		// a failure report that was put into the queue: its delivery to the original sender fails for good
		return qPlan{Start: &verifx.ErrNode{Kind: "smtp", Code: 550, Ench: [3]int{5, 1, 1}, Msg: "the sender of the failed message does not exist either"}}
	}
	return qPlan{}
}

type qDelivery struct {
	t    *qTarget
	a    *qAttempt
	plan qPlan
	done bool
}

type qPartialDelivery struct{ *qDelivery }

func qErr(n *verifx.ErrNode) error {
	if n == nil {
		return nil
	}
	return n.Build()
}

func (t *qTarget) Start(ctx context.Context, meta *module.MsgMetadata, from string) (module.Delivery, error) {
	t.h.mu.Lock()
	base := qBaseID(meta.ID)
	t.attempts[base]++
	n := t.attempts[base]
	a := &qAttempt{Msg: base, N: n, From: from, Meta: *meta, AfterStop: t.h.Restarts > 0}
	if qSeq != nil {
		a.StartSeq = qSeq()
	}
	if meta.OriginalRcpts != nil {
		a.Meta.OriginalRcpts = map[string]string{}
		for k, v := range meta.OriginalRcpts {
			a.Meta.OriginalRcpts[k] = v
		}
	}
	t.h.Attempts = append(t.h.Attempts, a)
	t.h.mu.Unlock()
	if t.sc.TargetRewrites && meta.OriginalRcpts != nil {
		meta.OriginalRcpts[fmt.Sprintf("rewritten-in-attempt-%d@target.example", n)] = "set-by-the-target@target.example"
	}
	p := t.plan(base, n)
	err := qErr(p.Start)
	t.h.ev(qEvent{Msg: base, Attempt: n, Op: "start", Err: errStr(err)})
	if err != nil {
		return nil, err
	}
	d := &qDelivery{t: t, a: a, plan: p}
	if t.partial {
		return &qPartialDelivery{d}, nil
	}
	return d, nil
}

func errStr(err error) string {
	if err == nil {
		return ""
	}
	return err.Error()
}

func (d *qDelivery) AddRcpt(ctx context.Context, to string, _ smtp.RcptOptions) error {
	err := qErr(d.plan.Rcpt[to])
	d.t.h.ev(qEvent{Msg: d.a.Msg, Attempt: d.a.N, Op: "rcpt", Rcpt: to, Err: errStr(err)})
	if d.done {
		d.t.h.ev(qEvent{Msg: d.a.Msg, Attempt: d.a.N, Op: "use-after-close", Rcpt: to})
	}
	if err == nil {
		d.a.Accepted = append(d.a.Accepted, to)
	}
	return err
}

func (d *qDelivery) capture(h textproto.Header, b buffer.Buffer) {
	var hb bytes.Buffer
	textproto.WriteHeader(&hb, h)
	d.a.Header = hb.Bytes()
	if r, err := b.Open(); err == nil {
		d.a.Body, _ = io.ReadAll(r)
		r.Close()
	} else {
		d.t.h.ev(qEvent{Msg: d.a.Msg, Attempt: d.a.N, Op: "body-open-error", Err: err.Error()})
	}
}

func (d *qDelivery) Body(ctx context.Context, h textproto.Header, b buffer.Buffer) error {
	d.capture(h, b)
	err := qErr(d.plan.Body)
	d.t.h.ev(qEvent{Msg: d.a.Msg, Attempt: d.a.N, Op: "body", Err: errStr(err)})
	return err
}

func (d *qPartialDelivery) BodyNonAtomic(ctx context.Context, sc module.StatusCollector, h textproto.Header, b buffer.Buffer) {
	d.capture(h, b)
	d.t.h.ev(qEvent{Msg: d.a.Msg, Attempt: d.a.N, Op: "body"})
	for _, r := range d.a.Accepted {
		err := qErr(d.plan.Status[r])
		d.t.h.ev(qEvent{Msg: d.a.Msg, Attempt: d.a.N, Op: "status", Rcpt: r, Err: errStr(err)})
		sc.SetStatus(r, err)
	}
}

func (d *qDelivery) Commit(ctx context.Context) error {
	err := qErr(d.plan.Commit)
	d.t.h.ev(qEvent{Msg: d.a.Msg, Attempt: d.a.N, Op: "commit", Err: errStr(err)})
	if d.done {
		d.t.h.ev(qEvent{Msg: d.a.Msg, Attempt: d.a.N, Op: "double-close"})
	}
	d.done = true
	if err == nil {
		d.a.Committed = true
		if qSeq != nil {
			d.a.CommitSeq = qSeq()
		}
	}
	return err
}

func (d *qDelivery) Abort(ctx context.Context) error {
	d.t.h.ev(qEvent{Msg: d.a.Msg, Attempt: d.a.N, Op: "abort"})
	if d.done {
		d.t.h.ev(qEvent{Msg: d.a.Msg, Attempt: d.a.N, Op: "double-close"})
	}
	d.done = true
	d.a.Aborted = true
	return nil
}

// ---- recording bounce target --------------------------------------------------------------------------

type qBounce struct {
	h      *qHistory
	failAt string
	q      *Queue // set in "requeue" mode
}

type qBounceDelivery struct {
	b *qBounce
	r *qReport
	// "requeue" mode: the report is also handed to the queue itself, as a bounce pipeline that routes reports
	// for remote senders into the outbound queue does
	fwd module.Delivery
}

func (b *qBounce) Start(ctx context.Context, meta *module.MsgMetadata, from string) (module.Delivery, error) {
	r := &qReport{From: from, Meta: *meta, At: time.Since(b.h.t0)}
	b.h.mu.Lock()
	b.h.Reports = append(b.h.Reports, r)
	b.h.mu.Unlock()
	if b.failAt == "start" {
		return nil, fmt.Errorf("bounce target: start refused")
	}
	d := &qBounceDelivery{b: b, r: r}
	if b.q != nil {
		fwd, err := b.q.Start(ctx, meta, from)
		if err != nil {
			return nil, err
		}
		d.fwd = fwd
	}
	return d, nil
}

func (d *qBounceDelivery) AddRcpt(ctx context.Context, to string, _ smtp.RcptOptions) error {
	if d.b.failAt == "rcpt" {
		return fmt.Errorf("bounce target: recipient refused")
	}
	d.r.Rcpts = append(d.r.Rcpts, to)
	if d.fwd != nil {
		return d.fwd.AddRcpt(ctx, to, smtp.RcptOptions{})
	}
	return nil
}

func (d *qBounceDelivery) Body(ctx context.Context, h textproto.Header, b buffer.Buffer) error {
	var buf bytes.Buffer
	textproto.WriteHeader(&buf, h)
	if r, err := b.Open(); err == nil {
		io.Copy(&buf, r)
		r.Close()
	}
	d.r.Header = h
	d.r.Raw = buf.Bytes()
	if d.b.failAt == "body" {
		return fmt.Errorf("bounce target: body refused")
	}
	if d.fwd != nil {
		return d.fwd.Body(ctx, h, b)
	}
	return nil
}

func (d *qBounceDelivery) Commit(ctx context.Context) error {
	if d.b.failAt == "commit" {
		return fmt.Errorf("bounce target: commit failed")
	}
	d.r.Committed = true
	if qSeq != nil {
		d.r.CommitSeq = qSeq()
	}
	if d.fwd != nil {
		return d.fwd.Commit(ctx)
	}
	return nil
}

func (d *qBounceDelivery) Abort(ctx context.Context) error {
	d.r.Aborted = true
	if d.fwd != nil {
		return d.fwd.Abort(ctx)
	}
	return nil
}

// ---- running a scenario ---------------------------------------------------------------------------------

var qT *testing.T // the enclosing test (synctest needs a *testing.T)

// qStartVia, when set, opens the delivery that submits a message (instead of Queue.Start).
var qStartVia func(q *Queue, ctx context.Context, meta *module.MsgMetadata, from string) (module.Delivery, error)

const qHorizon = 96 * time.Hour

func qNewQueue(dir string, sc *qScenario, tgt module.DeliveryTarget, bounce module.DeliveryTarget) *Queue {
	mod, _ := NewQueue("", "queue", nil, nil)
	q := mod.(*Queue)
	// production timing: initialRetryTime 15m, retryTimeScale 1.25, postInitDelay 10s (set by NewQueue)
	q.maxTries = sc.MaxTries
	q.location = dir
	q.hostname = "mx.maddy.test"
	q.autogenMsgDomain = "maddy.test"
	q.Target = tgt
	if bounce != nil {
		q.dsnPipeline = bounce
	}
	q.Log = log.Logger{Out: log.NopOutput{}}
	par := sc.Parallelism
	if par == 0 {
		par = 16
	}
	if err := q.start(par); err != nil {
		panic(err)
	}
	return q
}

func qSpoolFiles(dir string) []string {
	ents, _ := os.ReadDir(dir)
	var out []string
	for _, e := range ents {
		out = append(out, e.Name())
	}
	sort.Strings(out)
	return out
}

func qSpoolBusy(dir string) bool {
	for _, f := range qSpoolFiles(dir) {
		if strings.HasSuffix(f, ".meta") || strings.HasSuffix(f, ".meta.new") {
			return true
		}
	}
	return false
}

// qRun executes the scenario in a bubble and returns the history. hooks may
// observe the spool directory at each quiescent point.
func qRun(sc qScenario, observe func(dir string, h *qHistory)) *qHistory {
	h := &qHistory{SpoolAt: map[int][]string{}}
	dir, err := os.MkdirTemp("", "verifq")
	if err != nil {
		panic(err)
	}
	defer os.RemoveAll(dir)
	bufDir := filepath.Join(dir, "buffers")
	spool := filepath.Join(dir, "spool")
	os.Mkdir(bufDir, 0o755)
	os.Mkdir(spool, 0o755)

	oldRecover := dontRecover
	dontRecover = false // queue_test.go's init() disables the production panic containment
	defer func() { dontRecover = oldRecover }()
	oldOut := log.DefaultLogger.Out
	log.DefaultLogger.Out = log.FuncOutput(func(_ time.Time, _ bool, s string) {
		h.mu.Lock()
		h.Logs = append(h.Logs, s)
		h.mu.Unlock()
	}, func() error { return nil })
	defer func() { log.DefaultLogger.Out = oldOut }()

	synctest.Test(qT, func(t *testing.T) {
		h.t0 = time.Now()
		tgt := &qTarget{sc: &sc, h: h, attempts: map[string]int{}, partial: sc.Partial}
		var bounce module.DeliveryTarget
		if sc.Bounce != "none" {
			b := &qBounce{h: h}
			if sc.Bounce != "ok" && sc.Bounce != "requeue" {
				b.failAt = sc.Bounce
			}
			bounce = b
		}
		q := qNewQueue(spool, &sc, tgt, bounce)
		if b, ok := bounce.(*qBounce); ok && sc.Bounce == "requeue" {
			b.q = q
		}
		ctx := context.Background()
		for _, m := range sc.Msgs {
			if m.AcceptAfterMin > 0 {
				time.Sleep(time.Duration(m.AcceptAfterMin) * time.Minute)
			}
			meta := &module.MsgMetadata{
				ID: m.ID, OriginalFrom: m.OriginalFrom,
				SMTPOpts: smtp.MailOptions{UTF8: m.UTF8, RequireTLS: m.RequireTLS},
				Conn:     &module.ConnState{Proto: "ESMTPSA", Hostname: "client.example", AuthUser: m.AuthUser, AuthPassword: m.AuthPassword},
			}
			if m.Helo != "" {
				meta.Conn.Hostname = m.Helo
			}
			if m.OriginalRcpts != nil {
				meta.OriginalRcpts = map[string]string{}
				for k, v := range m.OriginalRcpts {
					meta.OriginalRcpts[k] = v
				}
			}
			var d module.Delivery
			var err error
			if qStartVia != nil {
				d, err = qStartVia(q, ctx, meta, m.From) // e.g. through a message pipeline in front of the queue
			} else {
				d, err = q.Start(ctx, meta, m.From)
			}
			if err != nil {
				h.ev(qEvent{Msg: m.ID, Op: "accept-error", Err: err.Error()})
				continue
			}
			for _, r := range m.Rcpts {
				if err := d.AddRcpt(ctx, r, smtp.RcptOptions{}); err != nil {
					h.ev(qEvent{Msg: m.ID, Op: "accept-error", Rcpt: r, Err: err.Error()})
				}
			}
			hdr, err := qParseHeader(string(m.Header))
			if err != nil {
				h.ev(qEvent{Msg: m.ID, Op: "accept-error", Err: "header: " + err.Error()})
				d.Abort(ctx)
				continue
			}
			// as the SMTP endpoint does: the TLS-Required override is known only once the header has
			// been read, i.e. after Start and the AddRcpt calls
			meta.TLSRequireOverride = m.TLSOverride
			meta.Quarantine = m.Quarantine // the pipeline applies check results at the body stage
			var body buffer.Buffer = buffer.MemoryBuffer{Slice: []byte(m.Body)}
			if m.BodyInFile {
				p := filepath.Join(bufDir, m.ID)
				os.WriteFile(p, []byte(m.Body), 0o600)
				body = buffer.FileBuffer{Path: p, LenHint: len(m.Body)}
			}
			given := hdr
			if m.SiblingRoute {
				given.Add("X-Verif-Route", "this-one")
			}
			if err := d.Body(ctx, given, body); err != nil {
				h.ev(qEvent{Msg: m.ID, Op: "accept-error", Err: "body: " + err.Error()})
				d.Abort(ctx)
				continue
			}
			if m.SiblingRoute {
				other := hdr // textproto.Header is passed by value: the copies share their storage
				other.Add("X-Verif-Route", "the-other-one")
			}
			if m.BodyInFile {
				// the endpoint removes its buffer once the transaction ended
				os.Remove(filepath.Join(bufDir, m.ID))
			}
			if m.Abort {
				d.Abort(ctx)
				h.ev(qEvent{Msg: m.ID, Op: "client-abort"})
				continue
			}
			if err := d.Commit(ctx); err != nil {
				h.ev(qEvent{Msg: m.ID, Op: "accept-error", Err: "commit: " + err.Error()})
				continue
			}
			h.ev(qEvent{Msg: m.ID, Op: "accepted"})
		}
		restarts := append([]int(nil), sc.RestartAfter...)
		sort.Ints(restarts)
		h.SpoolDir = spool
		for {
			synctest.Wait()
			if qSeq != nil {
				h.QuiescentSeqs = append(h.QuiescentSeqs, qSeq())
			}
			if observe != nil {
				observe(spool, h)
			}
			h.mu.Lock()
			nAtt := len(h.Attempts)
			h.mu.Unlock()
			if len(restarts) > 0 && nAtt >= restarts[0] {
				restarts = restarts[1:]
				q.Close()
				h.mu.Lock()
				h.Restarts++
				h.mu.Unlock()
				q = qNewQueue(spool, &sc, tgt, bounce)
				if b, ok := bounce.(*qBounce); ok && sc.Bounce == "requeue" {
					b.q = q
				}
				continue
			}
			if !qSpoolBusy(spool) {
				break
			}
			if time.Since(h.t0) > qHorizon {
				h.Hang = true
				break
			}
			time.Sleep(4 * time.Minute)
		}
		q.Close()
		h.Files = qSpoolFiles(spool)
		for _, f := range h.Files {
			if strings.Contains(f, ".meta") {
				if b, err := os.ReadFile(filepath.Join(spool, f)); err == nil {
					h.MetaDump = append(h.MetaDump, f+": "+string(b))
				}
			}
		}
	})
	return h
}

func qParseHeader(raw string) (textproto.Header, error) {
	return textproto.ReadHeader(bufioReader(raw + "\r\n"))
}

func bufioReader(s string) *bufio.Reader { return bufio.NewReader(strings.NewReader(s)) }

// qRecover starts a fresh queue on an existing spool directory (a crash
// image) with a downstream target that accepts everything, runs it to
// quiescence on the virtual clock and returns the history.
func qRecover(spool string, sc qScenario, horizon time.Duration) *qHistory {
	h := &qHistory{SpoolAt: map[int][]string{}}
	oldRecover := dontRecover
	dontRecover = false
	defer func() { dontRecover = oldRecover }()
	oldOut := log.DefaultLogger.Out
	log.DefaultLogger.Out = log.FuncOutput(func(_ time.Time, _ bool, s string) {
		h.mu.Lock()
		h.Logs = append(h.Logs, s)
		h.mu.Unlock()
	}, func() error { return nil })
	defer func() { log.DefaultLogger.Out = oldOut }()
	plain := qScenario{MaxTries: sc.MaxTries, Partial: sc.Partial, Bounce: sc.Bounce}
	if sc.RecoverTempFails > 0 {
		later := &verifx.ErrNode{Kind: "smtp", Code: 451, Ench: [3]int{4, 0, 0}, Msg: "recovery: later"}
		for _, m := range sc.Msgs {
			pm := qMsg{ID: m.ID, Rcpts: m.Rcpts}
			// only where a terminal failure during recovery stays visible (a failure report is generated):
			// with a suppressed report the crash invariants could not tell a settled recipient from a lost one
			for a := 0; a < sc.RecoverTempFails && len(m.Rcpts) > 0 && sc.Bounce != "none" && m.From != ""; a++ {
				last := m.Rcpts[len(m.Rcpts)-1]
				if sc.Partial {
					pm.Plans = append(pm.Plans, qPlan{Status: map[string]*verifx.ErrNode{last: later}})
				} else {
					pm.Plans = append(pm.Plans, qPlan{Rcpt: map[string]*verifx.ErrNode{last: later}})
				}
			}
			plain.Msgs = append(plain.Msgs, pm)
		}
	}
	synctest.Test(qT, func(t *testing.T) {
		h.t0 = time.Now()
		tgt := &qTarget{sc: &plain, h: h, attempts: map[string]int{}, partial: sc.Partial}
		var bounce module.DeliveryTarget
		if sc.Bounce != "none" {
			bounce = &qBounce{h: h}
		}
		q := qNewQueue(spool, &plain, tgt, bounce)
		for {
			synctest.Wait()
			if !qSpoolBusy(spool) {
				break
			}
			if time.Since(h.t0) > horizon {
				h.Hang = true
				break
			}
			time.Sleep(4 * time.Minute)
		}
		q.Close()
		h.Files = qSpoolFiles(spool)
	})
	return h
}
