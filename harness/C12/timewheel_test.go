package queue

// C12 harness, scheduler half: timewheel.go is rewritten by verifkit/cmd/instr
// (regenerated from the current tree on every run) so that verifkit/vsched
// owns every synchronisation point; scenarios run inside a synctest bubble.

import (
	"fmt"
	"sort"
	"strings"
	"sync"
	"testing"
	"testing/synctest"
	"time"

	"pgregory.net/rapid"
	"verifkit/ev"
	"verifkit/vsched"
)

type c12Add struct {
	ID        int `json:"id"`
	OffsetSec int `json:"offset_sec"` // scheduled time relative to the start of the scenario (negative: already due)
	AfterSec  int `json:"after_sec"`  // the producer sleeps this long before calling Add
}

type c12TW struct {
	Producers [][]c12Add `json:"producers"`
	// the closer sleeps this many virtual seconds, then calls Close; -1: Close only after everything was dispatched (1 h)
	CloseAfterSec int                `json:"close_after_sec"`
	Schedule      []vsched.Deviation `json:"schedule,omitempty"`
	Explore       int                `json:"explore_deviations"` // enumerate all schedules with at most this many deviations (0: run Schedule only)
}

func c12GenTW(t *rapid.T) c12TW {
	sc := c12TW{Explore: 2}
	if rapid.IntRange(0, 2).Draw(t, "burst") == 0 {
		// a burst of concurrent enqueues while the wheel already waits for a later entry
		sc.Producers = append(sc.Producers, []c12Add{{ID: 0, OffsetSec: rapid.SampledFrom([]int{300, 300, 3000}).Draw(t, "head"), AfterSec: 0}})
		at := rapid.SampledFrom([]int{1, 1, 30}).Draw(t, "burst_at")
		for p, n := 0, rapid.IntRange(2, 4).Draw(t, "burst_size"); p < n; p++ {
			sc.Producers = append(sc.Producers, []c12Add{{ID: p + 1, OffsetSec: rapid.SampledFrom([]int{-5, 2, 31, 60, 300, 600, 3000}).Draw(t, "offset"), AfterSec: at}})
		}
		sc.CloseAfterSec = rapid.SampledFrom([]int{-1, -1, 30, 301}).Draw(t, "close_after")
		return sc
	}
	np := rapid.IntRange(1, 4).Draw(t, "producers")
	id := 0
	for p := 0; p < np; p++ {
		var adds []c12Add
		for i, n := 0, rapid.SampledFrom([]int{1, 1, 2}).Draw(t, "adds"); i < n; i++ {
			adds = append(adds, c12Add{ID: id, OffsetSec: rapid.SampledFrom([]int{-5, 0, 0, 1, 30, 30, 300}).Draw(t, "offset"), AfterSec: rapid.SampledFrom([]int{0, 0, 0, 1, 30}).Draw(t, "after")})
			id++
		}
		sc.Producers = append(sc.Producers, adds)
	}
	sc.CloseAfterSec = rapid.SampledFrom([]int{0, 0, 0, 1, 30, -1}).Draw(t, "close_after")
	return sc
}

type c12Obs struct {
	mu         sync.Mutex
	dispatched map[int][]time.Duration
	addDone    map[int]time.Duration
	closeStart time.Duration
	closeEnd   time.Duration
	closed     bool
}

func c12RunTWOnce(sc c12TW, schedule []vsched.Deviation) (res vsched.Result, obs *c12Obs) {
	obs = &c12Obs{dispatched: map[int][]time.Duration{}, addDone: map[int]time.Duration{}, closeStart: -1, closeEnd: -1}
	synctest.Test(qT, func(t *testing.T) {
		vsched.WaitIdle = synctest.Wait
		t0 := time.Now()
		res = vsched.Run(schedule, 48*time.Hour, func(s *vsched.S) {
			tw := NewTimeWheel(func(slot TimeSlot) {
				obs.mu.Lock()
				id := slot.Value.(int)
				obs.dispatched[id] = append(obs.dispatched[id], time.Since(t0))
				obs.mu.Unlock()
			})
			for pi, adds := range sc.Producers {
				adds := adds
				s.Go(fmt.Sprintf("producer%d", pi), func() {
					for _, a := range adds {
						if a.AfterSec > 0 {
							time.Sleep(time.Duration(a.AfterSec) * time.Second)
						}
						tw.Add(t0.Add(time.Duration(a.OffsetSec)*time.Second), a.ID)
						obs.mu.Lock()
						obs.addDone[a.ID] = time.Since(t0)
						obs.mu.Unlock()
					}
				})
			}
			s.Go("closer", func() {
				d := time.Duration(sc.CloseAfterSec) * time.Second
				if sc.CloseAfterSec < 0 {
					d = 2 * time.Hour
				}
				if d > 0 {
					time.Sleep(d)
				}
				obs.mu.Lock()
				obs.closeStart = time.Since(t0)
				obs.mu.Unlock()
				tw.Close()
				obs.mu.Lock()
				obs.closeEnd = time.Since(t0)
				obs.closed = true
				obs.mu.Unlock()
			})
			if res.Hang {
				s.Release()
			}
		})
	})
	return res, obs
}

func c12PanicClass(v string) string {
	switch {
	case strings.Contains(v, "send on closed channel"):
		return "send-on-closed-channel"
	case strings.Contains(v, "close of closed channel"):
		return "close-of-closed-channel"
	case strings.Contains(v, "nil pointer"):
		return "nil-pointer"
	}
	return "other"
}

func c12CheckTW(sc c12TW, res vsched.Result, obs *c12Obs) (vs []ev.V) {
	for _, p := range res.Panics {
		who := "Add"
		if strings.Contains(p.Goroutine, "closer") {
			who = "Close"
		} else if strings.Contains(p.Goroutine, "timewheel.go") {
			who = "tick"
		}
		vs = append(vs, ev.Vf("timewheel:panic:"+who+":"+c12PanicClass(p.Value), "%s panicked: %s\ntrace: %s", p.Goroutine, p.Value, c12Trace(res)))
	}
	if res.Hang {
		vs = append(vs, ev.Vf("timewheel:hang", "goroutines still alive after 48 h of virtual time: %v\ntrace: %s", res.Stuck, c12Trace(res)))
		return vs
	}
	sched := map[int]time.Duration{}
	for _, adds := range sc.Producers {
		for _, a := range adds {
			sched[a.ID] = time.Duration(a.OffsetSec) * time.Second
		}
	}
	for id, ts := range obs.dispatched {
		if len(ts) > 1 {
			vs = append(vs, ev.Vf("timewheel:dispatched-twice", "entry %d dispatched %d times at %v", id, len(ts), ts))
		}
		if ts[0] < sched[id] {
			vs = append(vs, ev.Vf("timewheel:dispatched-early", "entry %d scheduled for +%v dispatched at +%v", id, sched[id], ts[0]))
		}
	}
	if len(res.Panics) == 0 && sc.CloseAfterSec < 0 {
		// Close came an hour later: everything added must have been dispatched exactly once
		for id := range sched {
			if _, added := obs.addDone[id]; added && len(obs.dispatched[id]) != 1 {
				vs = append(vs, ev.Vf("timewheel:not-dispatched", "entry %d (scheduled +%v, Add returned at +%v) was dispatched %d times although Close came at +%v", id, sched[id], obs.addDone[id], len(obs.dispatched[id]), obs.closeStart))
			}
		}
	}
	// "is dispatched" in a finite run: with a dispatch function that returns at once, an entry that is due is
	// handed out when it becomes due (or when its Add returns, if later) - a minute of slack for coarser wheels -
	// unless Close had begun by then. (A wake-up that is lost leaves the entry waiting behind a later one.)
	if len(res.Panics) == 0 {
		for id, at := range sched {
			done, added := obs.addDone[id]
			if !added {
				continue
			}
			due := at
			if done > due {
				due = done
			}
			limit := due + time.Minute
			if obs.closeStart >= 0 && obs.closeStart <= limit {
				continue
			}
			if ts := obs.dispatched[id]; len(ts) == 0 || ts[0] > limit {
				vs = append(vs, ev.Vf("timewheel:dispatched-late", "entry %d was due at +%v (scheduled +%v, Add returned at +%v) and was not dispatched by +%v: dispatched %v, Close began at +%v\ntrace: %s", id, due, at, done, limit, ts, obs.closeStart, c12Trace(res)))
			}
		}
	}
	if len(res.Panics) == 0 && !obs.closed {
		vs = append(vs, ev.Vf("timewheel:close-did-not-return", "Close did not return; trace: %s", c12Trace(res)))
	}
	return vs
}

func c12Trace(res vsched.Result) string {
	var parts []string
	for _, st := range res.Trace {
		m := ""
		if st.Deviate {
			m = "*"
		}
		parts = append(parts, fmt.Sprintf("%d%s:%s@%s", st.N, m, st.Chosen, st.Point))
	}
	if len(parts) > 80 {
		parts = append(parts[:40], append([]string{"..."}, parts[len(parts)-40:]...)...)
	}
	return strings.Join(parts, " ")
}

var c12Rec = ev.Get("C12")

// c12Explore enumerates every schedule with at most `depth` deviations.
func c12Explore(name string, depth int, key string, runOnce func(schedule []vsched.Deviation) (vsched.Result, []ev.V), pin func(schedule []vsched.Deviation) any) (vs []ev.V) {
	return c12ExploreCapped(name, depth, 0, key, runOnce, pin)
}

// c12ExploreCapped is c12Explore with a bound on the number of schedules: all
// schedules with one deviation are always run; when the bound is hit the
// two-deviation schedules are thinned out with a fixed stride (reported in the
// evidence as schedules_skipped_by_cap).
func c12ExploreCapped(name string, depth, maxRuns int, key string, runOnce func(schedule []vsched.Deviation) (vsched.Result, []ev.V), pin func(schedule []vsched.Deviation) any) (vs []ev.V) {
	runs, skipped := 0, int64(0)
	stride := 1
	seen := map[string]bool{}
	var flaky int64
	var rec func(schedule []vsched.Deviation, from int, left int) bool
	rec = func(schedule []vsched.Deviation, from int, left int) bool {
		runs++
		res, found := runOnce(schedule)
		// a schedule whose deviations did not all take effect duplicates a shorter one
		effective := res.Effective == len(schedule)
		contested := false
		for _, st := range res.Trace {
			if st.Deviate && st.Enabled >= 2 {
				contested = true
			}
		}
		c12Rec.Count(name, nil, ev.Info{Key: fmt.Sprintf("%s|%v", key, schedule), Nontrivial: effective && contested && len(schedule) > 0,
			Classes: []string{fmt.Sprintf("deviations=%d", len(schedule))}})
		if len(found) > 0 {
			// believe a failure only if it reproduces from its schedule
			_, again := runOnce(schedule)
			if len(again) == 0 || again[0].Sig != found[0].Sig {
				flaky++
			} else {
				for _, v := range found {
					if !seen[v.Sig] {
						seen[v.Sig] = true
						v.What = fmt.Sprintf("schedule %v: %s", schedule, v.What)
						v.Case = pin(schedule)
						vs = append(vs, v)
					}
				}
			}
			if res.Hang {
				return false
			}
		}
		if left == 0 || !effective {
			return true
		}
		if maxRuns > 0 && len(schedule) == 0 {
			// estimate: (decision points)^2 / 2 second-level schedules
			pts := 0
			for _, st := range res.Trace {
				if st.Enabled >= 2 {
					pts += st.Enabled - 1
				}
			}
			if est := pts * pts / 2; est > maxRuns {
				stride = est/maxRuns + 1
			}
		}
		idx := 0
		for _, st := range res.Trace {
			if st.N < from || st.Enabled < 2 {
				continue
			}
			for alt := 0; alt < st.Enabled-1; alt++ {
				idx++
				if len(schedule) >= 1 && stride > 1 && (idx+len(schedule)*7+schedule[0].Step)%stride != 0 {
					skipped++
					continue
				}
				next := append(append([]vsched.Deviation(nil), schedule...), vsched.Deviation{Step: st.N, Alt: alt})
				if !rec(next, st.N+1, left-1) {
					return false
				}
				if len(vs) >= 3 {
					return false
				}
			}
		}
		return true
	}
	rec(nil, 0, depth)
	c12Rec.AddExtra("schedules_skipped_by_cap", skipped)
	c12Rec.AddExtra("schedules_not_reproduced", flaky)
	return vs
}

func c12RunTW(sc c12TW) []ev.V {
	run := func(schedule []vsched.Deviation) (vsched.Result, []ev.V) {
		res, obs := c12RunTWOnce(sc, schedule)
		return res, c12CheckTW(sc, res, obs)
	}
	if sc.Explore == 0 {
		_, vs := run(sc.Schedule)
		return vs
	}
	key := fmt.Sprintf("%v|%d", sc.Producers, sc.CloseAfterSec)
	return c12Explore("timewheel", sc.Explore, key, run, func(schedule []vsched.Deviation) any {
		c := sc
		c.Schedule, c.Explore = schedule, 0
		return c
	})
}

func c12SortedKeys(m map[string]bool) []string {
	var ks []string
	for k := range m {
		ks = append(ks, k)
	}
	sort.Strings(ks)
	return ks
}

func TestVerifC12(t *testing.T) {
	qT = t
	r := c12Rec
	r.Rule("timewheel: scenarios with 1-4 producers calling Add 1-2 times (scheduled -5 s .. +300 s, after 0-30 s of virtual sleep) and one Close (immediately, after 1/30 s, or after 1 h), run on " +
		"timewheel.go rewritten so that verifkit/vsched owns every channel/mutex/atomic/timer/go operation; for each scenario ALL schedules with at most 2 deviations from the deterministic default " +
		"scheduler are enumerated. queue: 1-3 messages committed by concurrent producers to the real Queue (queue.go and timewheel.go both rewritten), 0-3 attempts parked inside the scripted target, " +
		"one Close; schedules with at most 2 deviations are enumerated up to a cap and sampled beyond it. Oracle: every entry dispatched at most once and not before its time, exactly once when Close " +
		"comes after everything was due; Add/Close/tick never panic; everything terminates within 48 h of virtual time; at queue level no contained panic, no .meta_broken, every committed message " +
		"reached a terminal outcome or still has its three files and a fresh queue on the directory delivers it. Each (scenario, schedule) is one evaluation; non-trivial = all deviations took " +
		"effect at a step with >= 2 enabled goroutines. A failure counts only if it reproduces from its schedule.")
	r.Assume("pre-emption is explored at synchronisation operations only (delay bound 2); Go's random choice among simultaneously ready select cases is not controlled - the evidence reports schedules whose failure did not reproduce")
	ev.Run(t, r, ev.Spec[c12TW]{Name: "timewheel-scenarios", N: r.N, Gen: c12GenTW, Run: c12RunTW,
		Info: func(sc c12TW) ev.Info {
			return ev.Info{Nontrivial: true, Classes: []string{fmt.Sprintf("producers=%d", len(sc.Producers))}}
		}})
}
